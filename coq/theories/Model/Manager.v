(* Model of StreamManager.Run / connect / resume / Stop (stream_manager.go) together
   with Client.Connect / Client.Resume / Client.recv's end-of-connection paths (client.go)
   as a state machine over what the network, the server and the application's hooks do.

   The counters that the property ties together -- sessions handed over, PostConnect
   calls, receivers started, which connection each running receiver reads, retry loops
   alive -- are moved by SEPARATE decisions of the code.  The places where the code
   decides (does the reader left behind by a failed attempt report a loss?  does the
   receiver that reported a stream error touch the transport afterwards?  does a failing
   PostResumeHook still start a receiver?  does Stop cancel the retry loop?  does Resume
   start a receiver at all?) are parameters of the step function ([mcode]); [repaired]
   is the code as it is, the other values are the code as it was before the respective
   repair.  The theorems hold for [repaired] and are refuted for each other value, so
   none of them restates the definition of the step function.
   Executable definitions only. *)
From Coq Require Import List ZArith NArith Bool Arith.
From XV Require Import Lib.Sx.
Import ListNotations.

(* outcome of one connection attempt: what the network, the server and the hook do *)
Inductive attempt :=
| ARefused                        (* TCP connection refused / timed out: transient; no connection is made *)
| AFail (permanent drops : bool)  (* a connection is made and the attempt fails on it (also: cut in
                                     mid-negotiation, stream header that cannot be written).  permanent:
                                     ConnError.Permanent (rejected credentials, TLS policy failure, refused
                                     handshake).  drops: NewSession returned no Session object (the early
                                     failures) AND the client forgets the one it had, so that the resumption state
                                     is gone (the code as it is keeps the previous object: no failure of the harness
                                     says drops any more; hunt2-C13/f1) *)
| AHookFail (grant : bool)        (* negotiated to the end, then the application's PostResumeHook reports an
                                     error: Resume closes the session and reports the attempt as failed *)
| AOk (grant : bool).             (* negotiated to the end.  grant: the server answers <resumed/> IF it is asked
                                     to resume; whether it is asked is the client's affair ([resumes]) *)

(* fate of an established session *)
Inductive term :=
| TDrop          (* abrupt loss: the receiver's read fails, Disconnected event *)
| TClose         (* </stream:stream> by the server: Disconnected event *)
| TStreamError   (* <stream:error/> by the server, whatever the condition, then the stream and the
                    connection are closed.  StreamError event: the manager disconnects and reconnects from
                    inside the handler, i.e. inside the receiver of the connection that is over.  With the
                    condition conflict the handler does not reconnect, but the receiver then closes its own
                    connection, its next read fails and the Disconnected event makes the manager reconnect:
                    one retry loop either way *)
| TStop.         (* StreamManager.Stop *)

Definition is_loss (t : term) : bool :=
  match t with TDrop | TClose | TStreamError => true | TStop => false end.

Inductive mev :=
| EAttempt (a : attempt)
| ETerm (t : term)
| EStaleReader     (* the go routine Client.connect leaves behind after a failed negotiation (it waits for the
                      server's stream close) meets the end of its connection *)
| EOldReceiver.    (* the receiver that reported a stream error gets the control back from the event handler,
                      which has meanwhile replaced the connection *)

Inductive mphase :=
| MIdle        (* Run called, first connection not made yet *)
| MUp          (* a session is established *)
| MRetry       (* resume(): retry loop with back-off *)
| MDead        (* retry loop ended by a permanent error; Run keeps waiting for Stop *)
| MReturned.   (* Run has returned *)

(* the decisions of the code *)
Record mcode := {
  v_stale_reports : bool;     (* the reader of a failed attempt emits Disconnected (before cccf687) *)
  v_old_recv_acts : bool;     (* after a stream error the old receiver calls Disconnect and reads on (before 1d0dfdb) *)
  v_hook_fail_starts : bool;  (* a Resume whose hook failed still starts receiver and keepalive (before 383f5a3) *)
  v_stop_leaves_loop : bool;  (* Stop does not tell the retry loop (before the repair of audit item A1/c1) *)
  v_resume_no_recv : bool }.  (* Resume starts no receiver (before 51fc33e) *)

Definition repaired : mcode :=
  {| v_stale_reports := false; v_old_recv_acts := false; v_hook_fail_starts := false;
     v_stop_leaves_loop := false; v_resume_no_recv := false |}.

Record mst := {
  m_phase : mphase;
  m_sm : bool;            (* Config.StreamManagementEnable, and the server offers it (constant) *)
  m_held : bool;          (* the client holds a resumable stream-management state (SMState.Id) *)
  m_loops : nat;          (* executions of resume() that are alive *)
  m_conns : nat;          (* connections made so far; the current one is number m_conns *)
  m_estab : nat;          (* negotiations completed (sessions the server has seen established) *)
  m_sessions : nat;       (* sessions handed over: Connect / Resume returned nil *)
  m_resumed : nat;        (* of which resumed *)
  m_post : nat;           (* PostConnect invocations *)
  m_recv : nat;           (* receivers started *)
  m_live : list nat;      (* for each receiver that is running: the connection it reads *)
  m_failed : nat;         (* failed attempts waited out with back-off *)
  m_selfclosed : nat;     (* established sessions the client itself ended without being told to *)
  m_late : nat }.         (* sessions created after Run had returned *)

Definition m_init (sm : bool) : mst :=
  {| m_phase := MIdle; m_sm := sm; m_held := false; m_loops := 0; m_conns := 0; m_estab := 0;
     m_sessions := 0; m_resumed := 0; m_post := 0; m_recv := 0; m_live := []; m_failed := 0;
     m_selfclosed := 0; m_late := 0 |}.

Definition set_phase (s : mst) (p : mphase) : mst :=
  {| m_phase := p; m_sm := m_sm s; m_held := m_held s; m_loops := m_loops s; m_conns := m_conns s;
     m_estab := m_estab s; m_sessions := m_sessions s; m_resumed := m_resumed s; m_post := m_post s;
     m_recv := m_recv s; m_live := m_live s; m_failed := m_failed s; m_selfclosed := m_selfclosed s;
     m_late := m_late s |}.
Definition set_loops (s : mst) (n : nat) : mst :=
  {| m_phase := m_phase s; m_sm := m_sm s; m_held := m_held s; m_loops := n; m_conns := m_conns s;
     m_estab := m_estab s; m_sessions := m_sessions s; m_resumed := m_resumed s; m_post := m_post s;
     m_recv := m_recv s; m_live := m_live s; m_failed := m_failed s; m_selfclosed := m_selfclosed s;
     m_late := m_late s |}.
Definition set_live (s : mst) (l : list nat) : mst :=
  {| m_phase := m_phase s; m_sm := m_sm s; m_held := m_held s; m_loops := m_loops s; m_conns := m_conns s;
     m_estab := m_estab s; m_sessions := m_sessions s; m_resumed := m_resumed s; m_post := m_post s;
     m_recv := m_recv s; m_live := l; m_failed := m_failed s; m_selfclosed := m_selfclosed s;
     m_late := m_late s |}.

(* resumed when possible: the client asks when it has stream management and holds a state,
   and the session is resumed when the server then grants it; freshly bound otherwise *)
Definition resumes (s : mst) (grant : bool) : bool := m_sm s && m_held s && grant.

(* a failed attempt that is waited out; conn: a connection was made; est: the negotiation completed *)
Definition failed (s : mst) (conn est : bool) (held : bool) (recv : bool) : mst :=
  {| m_phase := m_phase s; m_sm := m_sm s; m_held := held; m_loops := m_loops s;
     m_conns := (if conn then S (m_conns s) else m_conns s);
     m_estab := (if est then S (m_estab s) else m_estab s);
     m_sessions := m_sessions s; m_resumed := m_resumed s; m_post := m_post s;
     m_recv := (if recv then S (m_recv s) else m_recv s);
     m_live := (if recv then S (m_conns s) :: m_live s else m_live s);
     m_failed := S (m_failed s); m_selfclosed := m_selfclosed s; m_late := m_late s |}.

(* a successful attempt: the session is handed over, PostConnect runs, a receiver is
   started on the new connection (recv: unless the code forgets) *)
Definition up (s : mst) (grant : bool) (recv : bool) (loops : nat) : mst :=
  {| m_phase := (match m_phase s with MReturned => MReturned | _ => MUp end);
     m_sm := m_sm s; m_held := m_sm s; m_loops := loops;
     m_conns := S (m_conns s); m_estab := S (m_estab s); m_sessions := S (m_sessions s);
     m_resumed := (if resumes s grant then S (m_resumed s) else m_resumed s);
     m_post := S (m_post s);
     m_recv := (if recv then S (m_recv s) else m_recv s);
     m_live := (if recv then S (m_conns s) :: m_live s else m_live s);
     m_failed := m_failed s; m_selfclosed := m_selfclosed s;
     m_late := (match m_phase s with MReturned => S (m_late s) | _ => m_late s end) |}.

(* Run -> connect(): any failure of the first connection makes Run return the error *)
Definition first_attempt (s : mst) (a : attempt) : mst :=
  match a with
  | AOk g => up s g true 0
  | ARefused => set_phase s MReturned
  | AFail _ _ => set_phase (failed s true false (m_held s) false) MReturned
  | AHookFail _ => set_phase (failed s true true (m_sm s) false) MReturned
  end.

(* one turn of a retry loop that is alive *)
Definition loop_attempt (v : mcode) (s : mst) (a : attempt) : mst :=
  match a with
  | ARefused => failed s false false (m_held s) false
  | AFail false drops => failed s true false (if drops then false else m_held s) false
  | AFail true drops =>
      (* the loop ends; when it was the only one, nothing will reconnect any more *)
      let s1 := failed s true false (if drops then false else m_held s) false in
      let s2 := set_loops s1 (pred (m_loops s)) in
      match m_phase s, m_loops s with
      | MRetry, 1 => set_phase s2 MDead
      | _, _ => s2
      end
  | AHookFail g => failed s true true (m_sm s) (v_hook_fail_starts v)
  | AOk g => up s g (negb (v_resume_no_recv v)) (pred (m_loops s))
  end.

Definition handler_set (s : mst) : bool :=
  match m_phase s with MUp | MRetry | MDead => true | _ => false end.

Definition m_step (v : mcode) (s : mst) (e : mev) : mst :=
  match e with
  | EAttempt a =>
      match m_phase s with
      | MIdle => first_attempt s a
      | _ => match m_loops s with
             | 0 => s                       (* nobody is dialling *)
             | S _ => loop_attempt v s a
             end
      end
  | ETerm TStop =>
      (* SetHandler(nil), Disconnect, Run returns -- in every phase; the retry loop is told to end *)
      set_live (set_loops (set_phase s MReturned) (if v_stop_leaves_loop v then m_loops s else 0)) []
  | ETerm _ =>
      (* a loss is something that happens to an established session: every receiver that reads it reports
         it, each report starts a resume() *)
      match m_phase s with
      | MUp => set_live (set_loops (set_phase s MRetry) (m_loops s + length (m_live s))) []
      | _ => s
      end
  | EStaleReader =>
      if v_stale_reports v && handler_set s then set_loops s (S (m_loops s)) else s
  | EOldReceiver =>
      if v_old_recv_acts v then
        match m_phase s with
        | MUp =>
            (* Disconnect() on the transport, which holds the NEW connection; then both receivers meet its end *)
            let s1 := set_live (set_loops (set_phase s MRetry) (m_loops s + S (length (m_live s)))) [] in
            {| m_phase := m_phase s1; m_sm := m_sm s1; m_held := m_held s1; m_loops := m_loops s1;
               m_conns := m_conns s1; m_estab := m_estab s1; m_sessions := m_sessions s1;
               m_resumed := m_resumed s1; m_post := m_post s1; m_recv := m_recv s1; m_live := m_live s1;
               m_failed := m_failed s1; m_selfclosed := S (m_selfclosed s1); m_late := m_late s1 |}
        | _ => s
        end
      else s
  end.

Definition m_run (v : mcode) (s : mst) (es : list mev) : mst := fold_left (m_step v) es s.

(* what may happen between a loss and the successful attempt without producing a session *)
Definition is_noise (e : mev) : bool :=
  match e with
  | EAttempt ARefused | EAttempt (AFail false _) | EAttempt (AHookFail _) => true
  | EAttempt _ => false
  | ETerm TStop => false
  | ETerm _ => true          (* there is no session a loss could happen to *)
  | EStaleReader | EOldReceiver => true
  end.

(* the resumption state after such events *)
Fixpoint held_after (sm held : bool) (es : list mev) : bool :=
  match es with
  | [] => held
  | EAttempt (AFail _ true) :: r => held_after sm false r
  | EAttempt (AHookFail _) :: r => held_after sm sm r
  | _ :: r => held_after sm held r
  end.

(* one round: a loss, noise, a successful attempt *)
Definition round := (term * list mev * bool)%type.
Definition round_ok (r : round) : bool :=
  let '(t, noise, _) := r in is_loss t && forallb is_noise noise.
Definition round_events (r : round) : list mev :=
  let '(t, noise, g) := r in ETerm t :: noise ++ [EAttempt (AOk g)].

(* A connection on which the client's own stream header cannot be written (reset as soon as
   it was accepted, or cut after <success/> when the stream is restarted) is an abrupt drop
   like any other: a failed attempt that is waited out; the Session object is not touched
   (Transport.Connect fails before NewSession runs). *)
Definition header_write_failure : attempt := AFail false false.
(* A connection that ends in the middle of the TLS handshake which follows <proceed/> --
   before the server's answer to the ClientHello, inside a record header, inside a record
   payload, on a record boundary -- is a cut, not a refusal: the attempt is waited out.  TLS
   being mandatory, NewSession returns no Session object.  (Model/Session.v's [connect] has
   one flag for the handshake, tls_ok = false, and that means REFUSED; this third outcome is
   named here.) *)
Definition handshake_cut : attempt := AFail false true.
(* Rejected credentials after which the server hangs up before the client has closed its
   stream (closing the failed connection then fails too, over TLS the close_notify cannot be
   written): the attempt is as permanent as when the server waits for the closing tag. *)
Definition rejected_then_hung_up : attempt := AFail true false.
(* On a wss:// address the TLS handshake is part of the dial: a server certificate that does
   not verify (and the refusal of a redirect to an unprotected address) is the TLS policy
   failure of that transport -- permanent, as a refused handshake after <proceed/> is. *)
Definition wss_certificate_refused : attempt := AFail true false.
(* The server ends the stream itself where the negotiation awaits its first features (or
   <proceed/>): </stream:stream>, or <stream:error/> whatever the condition.  It is going
   down or not up yet: a failed attempt that is waited out, like the cut connection it is the
   polite form of.  (An ELEMENT other than the awaited one stays permanent.) *)
Definition stream_ended_by_server : attempt := AFail false false.
(* The connection of a reconnection attempt ends at a step where the Session object exists and
   nothing has been said about the state it carries: before the server's stream header, after
   <auth/>, after <success/>, and -- the step that matters for "resumed when possible" -- after
   the <resume/> request has been written and before (or in the middle of) the server's answer
   to it.  The server has neither confirmed nor refused the session: the attempt is waited out
   and the state held is the one held before (Model/Session.v step_resume, [conn_lost]), so
   that the next attempt presents it again.  Contrast: an ANSWER other than <resumed/> for the
   id presented (<failed/>, another element) is a refusal, after which the state is gone even
   if the connection is cut right afterwards -- [AFail false true]. *)
Definition cut_awaiting_resume_answer : attempt := AFail false false.
Definition cut_after_resume_refused : attempt := AFail false true.
Definition attempt_permanent (a : attempt) : bool :=
  match a with AFail p _ => p | _ => false end.
