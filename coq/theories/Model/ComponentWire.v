(* Component.Resume from what is on the wire: the server's stream header as BYTES
   (Model/StreamHeader.v: encoding/xml's reading of the first start tag + InitStream) and
   the server's reply as the token stream NextPacket reads (Model/Parser.v, shared with
   C02; only used here, nothing in it is changed).  Executable definitions only. *)
From Coq Require Strings.String.
From Coq Require Import List ZArith NArith Bool.
From XV Require Import Lib.Sx Model.XmlTree Model.Parser Gen.Generated
  Model.Sha1 Model.Hex Model.Component Model.StreamHeader.
Import Coq.Strings.String.StringSyntax.
Import ListNotations.
Open Scope N_scope.

(* the branch of Resume's type switch a NextPacket result falls into (component.go:97-110;
   the error is looked at first) *)
Definition reply_of (p : Parser.result) : reply :=
  match p with
  | Err EEof => RCut                     (* nothing more to read: the connection ended while the answer was awaited *)
  | Err _ => RReadError                  (* an element NextPacket rejects; a cut INSIDE an element is told by the
                                            harness (reply class 5): the token stream does not show why it ends *)
  | PHandshake => RHandshake
  | PStreamError => RStreamError []      (* the condition does not reach the outcome *)
  | PMessage _ => ROther 1
  | PPresence _ => ROther 2
  | PIQ _ => ROther 3
  | PFeatures => ROther 4
  | PSaslSuccess => ROther 5
  | PSaslFailure => ROther 6
  | PSmEnabled => ROther 7
  | PSmR => ROther 8
  | PSmA => ROther 9
  | PSmResumed => ROther 10
  | PSmFailed => ROther 11
  | PClose => ROther 12
  | PSmResume => ROther 13
  end.

(* NextPacket on the tokens that follow the handshake (the code as repaired) *)
Definition next_reply (ts : list token) : Parser.result :=
  fst (next_packet registry true go_typed_ok ts).

Definition reply_from_tokens (ts : list token) : reply := reply_of (next_reply ts).

(* transport.Connect on a connection that was established: the header decides *)
Definition pre_of_header (hdr : str) : pre :=
  match init_stream hdr with Some id => PConnected id | None => PConnectFail end.

Definition connect_from_wire (secret hdr : str) (write_ok : bool) (reply_toks : list token)
  : Component.result :=
  component_connect secret (Env (pre_of_header hdr) write_ok (reply_from_tokens reply_toks)).

(* ---- a canonical way of writing a stream id into the header (for the statement that
   every id text comes back): the five predefined entities, CR as a numeric reference,
   every other byte as it is ---- *)
Definition esc_byte (c : N) : str :=
  if c =? 38 then [38; 97; 109; 112; 59]              (* &amp; *)
  else if c =? 60 then [38; 108; 116; 59]             (* &lt; *)
  else if c =? 62 then [38; 103; 116; 59]             (* &gt; *)
  else if c =? 39 then [38; 97; 112; 111; 115; 59]    (* &apos; *)
  else if c =? 34 then [38; 113; 117; 111; 116; 59]   (* &quot; *)
  else if c =? 13 then [38; 35; 120; 68; 59]          (* &#xD; *)
  else [c].
Definition attr_escape (s : str) : str := flat_map esc_byte s.

(* <?xml version='1.0'?><stream:stream xmlns='jabber:component:accept'
   xmlns:stream='http://etherx.jabber.org/streams' from='comp.localhost' id= *)
Local Open Scope string_scope.
Definition header_front : str :=
  bytes_of "<?xml version='1.0'?><stream:stream xmlns='jabber:component:accept' xmlns:stream='http://etherx.jabber.org/streams' from='comp.localhost' id=".
Local Close Scope string_scope.

(* the header a server writes for stream id [id], with quote [q] (39 or 34) *)
Definition std_header (q : N) (id : str) : str :=
  header_front ++ [q] ++ attr_escape id ++ [q; 62].

(* a byte an attribute value may carry once decoded *)
Definition id_text (s : str) : bool := forallb value_byte_ok s.
