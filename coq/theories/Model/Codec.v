(* Values of the hand-modelled stanza core and their XML codec (C01):
   [enc : value -> xtree] mirrors what xml.Marshal does with the Go value
   (struct tags of Attrs / Message / Presence / IQ / the stream-management, SASL
   auth and handshake elements; Err.MarshalXML, Node.MarshalXML), [dec] mirrors
   xml.Unmarshal into a fresh value of the same Go type (Message/Presence/IQ/Err/
   Node.UnmarshalXML, SMFailed.UnmarshalXML, tag-driven decoding for the rest).

   Strings are code points.  An absent (omitempty) string is the empty string,
   as in Go.  XMLName of the fixed-name structs is not part of a value (the tag
   fixes the name written; the decoder fills it with whatever it read).

   Registered extensions (Message.Extensions, Presence.Extensions, IQ.Payload)
   are modelled as OPAQUE element trees: the value holds the tree the extension
   type marshals to; what is modelled is the dispatch (which children are taken
   as extensions, in which order, through the registry) -- not the codec of each
   extension type, which the harness checks by reflection.

   [dec] answers None for a decoding error and for input outside the modelled
   language (e.g. prefixed names, a stream-error condition inside <failed/>).

   Repaired behaviour modelled (fix commits in /repo): IQ decoding reads the
   lang attribute (D1); Err is serialised unless code, type, reason and text are
   all empty, the code attribute only when non-zero (D2); SMFailed.UnmarshalXML
   reads the h attribute (d770553) and the condition reset (f6); <gone/> is an error
   condition (f3); only an error child in the iq's own namespace is the stanza error
   (f9), only children in the stanza's own namespace are subject/body/... (C02-3);
   SASLAuth.Value and Handshake.Value are character data (f11); Err.MarshalXML refuses
   a Reason that is not an element name ([marshals]; before the repair it was written
   as it stood, a/><b closing the condition and opening another element).

   Attributes of the tree model are un-prefixed local names (XmlLex refuses a
   prefixed name), i.e. exactly the unqualified attributes of the element: the
   attribute loops of Message/Presence/IQ read only those (957396a; the xml:lang
   form is outside the printed language, the encoder writes lang). *)
From Coq Require Import List ZArith NArith Bool.
From XV Require Import Lib.Sx Model.XmlText Model.XmlPrint Model.XmlLex.
Import ListNotations.
Open Scope N_scope.

Definition s_message : str := [109;101;115;115;97;103;101].  (* message *)
Definition s_presence : str := [112;114;101;115;101;110;99;101].  (* presence *)
Definition s_iq : str := [105;113].  (* iq *)
Definition s_type : str := [116;121;112;101].  (* type *)
Definition s_id : str := [105;100].  (* id *)
Definition s_from : str := [102;114;111;109].  (* from *)
Definition s_to : str := [116;111].  (* to *)
Definition s_lang : str := [108;97;110;103].  (* lang *)
Definition s_subject : str := [115;117;98;106;101;99;116].  (* subject *)
Definition s_body : str := [98;111;100;121].  (* body *)
Definition s_thread : str := [116;104;114;101;97;100].  (* thread *)
Definition s_error : str := [101;114;114;111;114].  (* error *)
Definition s_show : str := [115;104;111;119].  (* show *)
Definition s_status : str := [115;116;97;116;117;115].  (* status *)
Definition s_priority : str := [112;114;105;111;114;105;116;121].  (* priority *)
Definition s_code : str := [99;111;100;101].  (* code *)
Definition s_text : str := [116;101;120;116].  (* text *)
Definition s_gone : str := [103;111;110;101].  (* gone *)
Definition ns_stanzas : str := [117;114;110;58;105;101;116;102;58;112;97;114;97;109;115;58;120;109;108;58;110;115;58;120;109;112;112;45;115;116;97;110;122;97;115].  (* urn:ietf:params:xml:ns:xmpp-stanzas *)
Definition ns_pubsub_errors : str := [104;116;116;112;58;47;47;106;97;98;98;101;114;46;111;114;103;47;112;114;111;116;111;99;111;108;47;112;117;98;115;117;98;35;101;114;114;111;114;115].  (* http://jabber.org/protocol/pubsub#errors *)
Definition ns_sm3 : str := [117;114;110;58;120;109;112;112;58;115;109;58;51].  (* urn:xmpp:sm:3 *)
Definition s_enable : str := [101;110;97;98;108;101].  (* enable *)
Definition s_enabled : str := [101;110;97;98;108;101;100].  (* enabled *)
Definition s_r : str := [114].  (* r *)
Definition s_a : str := [97].  (* a *)
Definition s_resume : str := [114;101;115;117;109;101].  (* resume *)
Definition s_resumed : str := [114;101;115;117;109;101;100].  (* resumed *)
Definition s_failed : str := [102;97;105;108;101;100].  (* failed *)
Definition s_max : str := [109;97;120].  (* max *)
Definition s_location : str := [108;111;99;97;116;105;111;110].  (* location *)
Definition s_previd : str := [112;114;101;118;105;100].  (* previd *)
Definition s_h : str := [104].  (* h *)
Definition s_true : str := [116;114;117;101].  (* true *)
Definition s_false : str := [102;97;108;115;101].  (* false *)
Definition ns_sasl_auth : str := [117;114;110;58;105;101;116;102;58;112;97;114;97;109;115;58;120;109;108;58;110;115;58;120;109;112;112;45;115;97;115;108].  (* urn:ietf:params:xml:ns:xmpp-sasl *)
Definition s_auth : str := [97;117;116;104].  (* auth *)
Definition s_mechanism : str := [109;101;99;104;97;110;105;115;109].  (* mechanism *)
Definition ns_component_accept : str := [106;97;98;98;101;114;58;99;111;109;112;111;110;101;110;116;58;97;99;99;101;112;116].  (* jabber:component:accept *)
Definition s_handshake : str := [104;97;110;100;115;104;97;107;101].  (* handshake *)
Definition s_star : str := [42].  (* * *)

(* the conditions SMFailed.UnmarshalXML knows (stanza_errors.go; "reset" since the f6 repair) *)
Definition failed_conditions : list str := [
  [98;97;100;45;102;111;114;109;97;116]  (* bad-format *);
  [98;97;100;45;110;97;109;101;115;112;97;99;101;45;112;114;101;102;105;120]  (* bad-namespace-prefix *);
  [99;111;110;102;108;105;99;116]  (* conflict *);
  [99;111;110;110;101;99;116;105;111;110;45;116;105;109;101;111;117;116]  (* connection-timeout *);
  [104;111;115;116;45;103;111;110;101]  (* host-gone *);
  [104;111;115;116;45;117;110;107;110;111;119;110]  (* host-unknown *);
  [105;109;112;114;111;112;101;114;45;97;100;100;114;101;115;115;105;110;103]  (* improper-addressing *);
  [105;110;116;101;114;110;97;108;45;115;101;114;118;101;114;45;101;114;114;111;114]  (* internal-server-error *);
  [105;110;118;97;108;105;100;45;102;114;111;109]  (* invalid-from *);
  [105;110;118;97;108;105;100;45;105;100]  (* invalid-id *);
  [105;110;118;97;108;105;100;45;110;97;109;101;115;112;97;99;101]  (* invalid-namespace *);
  [105;110;118;97;108;105;100;45;120;109;108]  (* invalid-xml *);
  [110;111;116;45;97;117;116;104;111;114;105;122;101;100]  (* not-authorized *);
  [110;111;116;45;119;101;108;108;45;102;111;114;109;101;100]  (* not-well-formed *);
  [112;111;108;105;99;121;45;118;105;111;108;97;116;105;111;110]  (* policy-violation *);
  [114;101;109;111;116;101;45;99;111;110;110;101;99;116;105;111;110;45;102;97;105;108;101;100]  (* remote-connection-failed *);
  [114;101;115;101;116]  (* reset *);
  [114;101;115;111;117;114;99;101;45;99;111;110;115;116;114;97;105;110;116]  (* resource-constraint *);
  [114;101;115;116;114;105;99;116;101;100;45;120;109;108]  (* restricted-xml *);
  [115;101;101;45;111;116;104;101;114;45;104;111;115;116]  (* see-other-host *);
  [115;121;115;116;101;109;45;115;104;117;116;100;111;119;110]  (* system-shutdown *);
  [117;110;100;101;102;105;110;101;100;45;99;111;110;100;105;116;105;111;110]  (* undefined-condition *);
  [117;110;101;120;112;101;99;116;101;100;45;114;101;113;117;101;115;116]  (* unexpected-request *);
  [117;110;115;117;112;112;111;114;116;101;100;45;101;110;99;111;100;105;110;103]  (* unsupported-encoding *);
  [117;110;115;117;112;112;111;114;116;101;100;45;115;116;97;110;122;97;45;116;121;112;101]  (* unsupported-stanza-type *);
  [117;110;115;117;112;112;111;114;116;101;100;45;118;101;114;115;105;111;110]  (* unsupported-version *);
  [120;109;108;45;110;111;116;45;119;101;108;108;45;102;111;114;109;101;100]  (* xml-not-well-formed *)
].

(* ---- strconv: decimal numbers ---- *)
Fixpoint udigits (fuel : nat) (n : N) (acc : str) : str :=
  match fuel with
  | O => acc
  | S f =>
      let acc' := (48 + n mod 10) :: acc in
      if n / 10 =? 0 then acc' else udigits f (n / 10) acc'
  end.
(* strconv.FormatUint(n, 10) *)
Definition utoa (n : N) : str := udigits (S (N.to_nat (N.size n))) n [].
(* strconv.Itoa / FormatInt(z, 10) *)
Definition itoa (z : Z) : str :=
  if (z <? 0)%Z then 45 :: utoa (Z.to_N (- z)) else utoa (Z.to_N z).

Definition is_digit (c : N) : bool := (48 <=? c) && (c <=? 57).
Definition digits_value (ds : str) : N := fold_left (fun a d => a * 10 + (d - 48)) ds 0.
Definition all_digits (s : str) : bool := nonempty s && forallb is_digit s.
(* strconv.ParseUint(s, 10, bits), on plain digit strings *)
Definition parse_uint (bits : N) (s : str) : option N :=
  if all_digits s then
    let v := digits_value s in if v <? 2 ^ bits then Some v else None
  else None.
(* strconv.ParseInt(s, 10, bits) / Atoi: optional sign, digits, range check *)
Definition parse_int (bits : N) (s : str) : option Z :=
  match s with
  | [] => None
  | c :: r =>
      if c =? 45 then
        (if all_digits r then
           let v := digits_value r in
           if v <=? 2 ^ (bits - 1) then Some (- Z.of_N v)%Z else None
         else None)
      else
        let ds := if c =? 43 then r else s in
        if all_digits ds then
          let v := digits_value ds in
          if v <? 2 ^ (bits - 1) then Some (Z.of_N v) else None
        else None
  end.
(* strings.TrimSpace: unicode.IsSpace is the White_Space property (equal to the table the
   translator reads from the running Go, C01_space_table) *)
Definition space_tab : list N :=
  [9; 10; 11; 12; 13; 32; 133; 160; 5760; 8192; 8193; 8194; 8195; 8196; 8197; 8198; 8199; 8200;
   8201; 8202; 8232; 8233; 8239; 8287; 12288].
Definition is_space (c : N) : bool := existsb (N.eqb c) space_tab.
Fixpoint drop_space (s : str) : str :=
  match s with c :: r => if is_space c then drop_space r else s | [] => [] end.
Definition trim_space (s : str) : str := rev (drop_space (rev (drop_space s))).

(* encoding/xml copyValue, numeric and bool kinds: an empty source sets the zero value,
   anything else goes through strings.TrimSpace and then strconv *)
Definition parse_uint_field (bits : N) (s : str) : option N :=
  match s with [] => Some 0 | _ => parse_uint bits (trim_space s) end.
Definition parse_int_field (bits : N) (s : str) : option Z :=
  match s with [] => Some 0%Z | _ => parse_int bits (trim_space s) end.

(* strconv.ParseBool *)
Definition parse_bool (s : str) : option bool :=
  if existsb (str_eqb s) [[49]; [116]; [84]; [84;82;85;69]; s_true; [84;114;117;101]] then Some true
  else if existsb (str_eqb s) [[48]; [102]; [70]; [70;65;76;83;69]; s_false; [70;97;108;115;101]] then Some false
  else None.
Definition parse_bool_field (s : str) : option bool :=
  match s with [] => Some false | _ => parse_bool (trim_space s) end.
Definition btoa (b : bool) : str := if b then s_true else s_false.

(* ---- the registry: (kind, namespace, local, Go type); kinds as in
        stanza.PacketType: 0 presence, 1 message, 2 iq ---- *)
Definition registry := list (Z * str * str * str).
(* GetExtensionType: the exact local name, else the wildcard entry of that namespace *)
Definition registered (reg : registry) (kind : Z) (ns l : str) : bool :=
  existsb (fun e => match e with (k, n, lo, _) =>
                      Z.eqb k kind && str_eqb n ns && (str_eqb lo l || str_eqb lo s_star)
                    end) reg.

(* ---- values ---- *)
Record attrs := mkAttrs { a_type : str; a_id : str; a_from : str; a_to : str; a_lang : str }.
Record err := mkErr { e_code : Z; e_type : str; e_reason : str; e_text : str }.
Inductive node : Type :=
| Node (ns : str) (local : str) (nattrs : list (str * str)) (content : str) (nodes : list node).
Record message := mkMessage {
  m_attrs : attrs; m_subject : str; m_body : str; m_thread : str; m_error : err;
  m_exts : list xtree }.
Record presence := mkPresence {
  p_attrs : attrs; p_show : str; p_status : str; p_priority : Z; p_error : err;
  p_exts : list xtree }.
Record iq := mkIQ {
  i_attrs : attrs; i_payload : option xtree; i_error : option err; i_any : option node }.

Inductive value : Type :=
| VMessage (m : message)
| VPresence (p : presence)
| VIQ (i : iq)
| VNode (n : node)
| VSMEnable (max : option N) (resume : option bool)
| VSMEnabled (id : str) (location : str) (resume : str) (max : N)
| VSMRequest
| VSMAnswer (h : N)
| VSMResume (previd : str) (h : option N)
| VSMResumed (previd : str) (h : option N)
| VSMFailed (h : option N) (cond : str)   (* cond: the condition child's name, [] = none *)
| VSASLAuth (mechanism : str) (val : str)
| VHandshake (val : str).

(* the Go type a value is decoded into *)
Inductive vtype : Type :=
| TMessage | TPresence | TIQ | TNode | TSMEnable | TSMEnabled | TSMRequest | TSMAnswer
| TSMResume | TSMResumed | TSMFailed | TSASLAuth | THandshake.

Definition vtype_of (v : value) : vtype :=
  match v with
  | VMessage _ => TMessage | VPresence _ => TPresence | VIQ _ => TIQ | VNode _ => TNode
  | VSMEnable _ _ => TSMEnable | VSMEnabled _ _ _ _ => TSMEnabled | VSMRequest => TSMRequest
  | VSMAnswer _ => TSMAnswer | VSMResume _ _ => TSMResume | VSMResumed _ _ => TSMResumed
  | VSMFailed _ _ => TSMFailed | VSASLAuth _ _ => TSASLAuth | VHandshake _ => THandshake
  end.

Definition zero_err : err := mkErr 0 [] [] [].

(* ---- encoding ---- *)
(* an omitempty string attribute *)
Definition opt_attr (k v : str) : list (str * str) :=
  match v with [] => [] | _ => [(k, v)] end.
(* struct Attrs: type, id, from, to, lang (tag lang,attr: written as lang, no prefix) *)
Definition enc_attrs (a : attrs) : list (str * str) :=
  opt_attr s_type (a_type a) ++ opt_attr s_id (a_id a) ++ opt_attr s_from (a_from a)
  ++ opt_attr s_to (a_to a) ++ opt_attr s_lang (a_lang a).
(* an omitempty string child element written by the reflection encoder *)
Definition opt_elem (name s : str) : list xtree :=
  match s with [] => [] | _ => [XE [] name [] [XT false s]] end.
(* xml.CharData through EncodeToken, when non-empty: LF stays raw *)
Definition text_raw (s : str) : list xtree :=
  match s with [] => [] | _ => [XT (has_nl s) s] end.
(* a string written by the reflection encoder (or verbatim, for plain text) *)
Definition text_esc (s : str) : list xtree :=
  match s with [] => [] | _ => [XT false s] end.

(* Node.MarshalXML: start (name, attrs), the children, then the content *)
Fixpoint enc_node (n : node) : xtree :=
  match n with
  | Node ns l a c ks =>
      XE ns l a
        ((fix go (l : list node) : list xtree :=
            match l with [] => [] | k :: l' => enc_node k :: go l' end) ks
         ++ text_raw c)
  end.

Definition err_empty (e : err) : bool :=
  (e_code e =? 0)%Z && isempty (e_type e) && isempty (e_reason e) && isempty (e_text e).

(* Err.MarshalXML (repaired, D2) *)
Definition enc_err (e : err) : list xtree :=
  if err_empty e then []
  else [XE [] s_error
          ((if (e_code e =? 0)%Z then [] else [(s_code, itoa (e_code e))])
           ++ opt_attr s_type (e_type e))
          ((match e_reason e with [] => [] | r => [XE ns_stanzas r [] []] end)
           ++ (match e_text e with [] => [] | t => [XE ns_stanzas s_text [] (text_raw t)] end))].

Definition enc_message (m : message) : xtree :=
  XE [] s_message (enc_attrs (m_attrs m))
    (opt_elem s_subject (m_subject m) ++ opt_elem s_body (m_body m)
     ++ opt_elem s_thread (m_thread m) ++ enc_err (m_error m) ++ m_exts m).

Definition enc_presence (p : presence) : xtree :=
  XE [] s_presence (enc_attrs (p_attrs p))
    (opt_elem s_show (p_show p) ++ opt_elem s_status (p_status p)
     ++ (if (p_priority p =? 0)%Z then [] else [XE [] s_priority [] [XT false (itoa (p_priority p))]])
     ++ enc_err (p_error p) ++ p_exts p).

Definition opt_list {A B} (o : option A) (f : A -> list B) : list B :=
  match o with None => [] | Some a => f a end.

Definition enc_iq (i : iq) : xtree :=
  XE [] s_iq (enc_attrs (i_attrs i))
    (opt_list (i_payload i) (fun t => [t]) ++ opt_list (i_error i) enc_err
     ++ opt_list (i_any i) (fun n => [enc_node n])).

Definition opt_uint_attr (k : str) (o : option N) : list (str * str) :=
  match o with None => [] | Some n => [(k, utoa n)] end.

Definition enc (v : value) : xtree :=
  match v with
  | VMessage m => enc_message m
  | VPresence p => enc_presence p
  | VIQ i => enc_iq i
  | VNode n => enc_node n
  | VSMEnable mx rs =>
      XE ns_sm3 s_enable
        (opt_uint_attr s_max mx ++ match rs with None => [] | Some b => [(s_resume, btoa b)] end) []
  | VSMEnabled id loc rs mx =>
      XE ns_sm3 s_enabled
        (opt_attr s_id id ++ opt_attr s_location loc ++ opt_attr s_resume rs
         ++ (if mx =? 0 then [] else [(s_max, utoa mx)])) []
  | VSMRequest => XE ns_sm3 s_r [] []
  | VSMAnswer h => XE ns_sm3 s_a [(s_h, utoa h)] []
  | VSMResume pid h => XE ns_sm3 s_resume (opt_attr s_previd pid ++ opt_uint_attr s_h h) []
  | VSMResumed pid h => XE ns_sm3 s_resumed (opt_attr s_previd pid ++ opt_uint_attr s_h h) []
  | VSMFailed h c =>
      XE ns_sm3 s_failed (opt_uint_attr s_h h)
        (match c with [] => [] | _ => [XE ns_stanzas c [] []] end)
  | VSASLAuth mech val => XE ns_sasl_auth s_auth [(s_mechanism, mech)] (text_esc val)
  | VHandshake val => XE ns_component_accept s_handshake [] (text_esc val)
  end.

(* ---- decoding ---- *)
(* the attribute loops assign on every match: the last occurrence wins *)
Fixpoint attr_last (k : str) (a : list (str * str)) (d : option str) : option str :=
  match a with
  | [] => d
  | (k', v) :: a' => attr_last k a' (if str_eqb k' k then Some v else d)
  end.
Definition attr_str (k : str) (a : list (str * str)) (d : str) : str :=
  match attr_last k a None with Some v => v | None => d end.

Definition dec_attrs (a : list (str * str)) : attrs :=
  mkAttrs (attr_str s_type a []) (attr_str s_id a []) (attr_str s_from a [])
          (attr_str s_to a []) (attr_str s_lang a []).

(* the concatenated direct character data of an element *)
Definition texts (kids : list xtree) : str :=
  flat_map (fun k => match k with XT _ s => s | XE _ _ _ _ => [] end) kids.

(* Node.UnmarshalXML: name, attributes other than the namespace declaration (not an
   attribute of the tree), character data, every child element as a Node *)
Fixpoint dec_node (t : xtree) : option node :=
  match t with
  | XT _ _ => None
  | XE ns l a kids =>
      match (fix go (ks : list xtree) : option (list node) :=
               match ks with
               | [] => Some []
               | XT _ _ :: ks' => go ks'
               | (XE _ _ _ _ as k) :: ks' =>
                   match dec_node k, go ks' with
                   | Some n, Some r => Some (n :: r)
                   | _, _ => None
                   end
               end) kids with
      | Some ns' => Some (Node ns l a (texts kids) ns')
      | None => None
      end
  end.

(* Err.UnmarshalXML, on an existing value [e0] *)
Definition err_child (e : err) (k : xtree) : err :=
  match k with
  | XT _ _ => e
  | XE ns l _ kids =>
      if str_eqb ns ns_stanzas && str_eqb l s_text
      then mkErr (e_code e) (e_type e) (e_reason e) (texts kids)
      else if str_eqb ns ns_stanzas && str_eqb l s_gone
      then (* a condition like the others; its character data is kept as the text
              unless a text is already there *)
           mkErr (e_code e) (e_type e) l (if isempty (e_text e) then texts kids else e_text e)
      else if str_eqb ns ns_stanzas || str_eqb ns ns_pubsub_errors
      then mkErr (e_code e) (e_type e) l (e_text e)
      else e
  end.
Definition dec_err (e0 : err) (t : xtree) : option err :=
  match t with
  | XT _ _ => None
  | XE _ _ a kids =>
      let code := match attr_last s_code a None with
                  | Some v => match parse_int 64 v with Some z => z | None => e_code e0 end
                  | None => e_code e0
                  end in
      Some (fold_left err_child kids (mkErr code (attr_str s_type a (e_type e0)) (e_reason e0) (e_text e0)))
  end.

(* Message.UnmarshalXML: one step of the child loop *)
Definition msg_child (reg : registry) (own : str) (st : option message) (k : xtree) : option message :=
  match st with
  | None => None
  | Some m =>
      match k with
      | XT _ _ => Some m
      | XE ns l _ kids =>
          if registered reg 1 ns l then
            Some (mkMessage (m_attrs m) (m_subject m) (m_body m) (m_thread m) (m_error m) (m_exts m ++ [k]))
          else if negb (str_eqb ns own) then Some m   (* another namespace: not ours, skipped *)
          else if str_eqb l s_body then
            Some (mkMessage (m_attrs m) (m_subject m) (texts kids) (m_thread m) (m_error m) (m_exts m))
          else if str_eqb l s_thread then
            Some (mkMessage (m_attrs m) (m_subject m) (m_body m) (texts kids) (m_error m) (m_exts m))
          else if str_eqb l s_subject then
            Some (mkMessage (m_attrs m) (texts kids) (m_body m) (m_thread m) (m_error m) (m_exts m))
          else if str_eqb l s_error then
            match dec_err (m_error m) k with
            | Some e => Some (mkMessage (m_attrs m) (m_subject m) (m_body m) (m_thread m) e (m_exts m))
            | None => None
            end
          else Some m    (* unknown child: skipped (d.Skip()) *)
      end
  end.
Definition dec_message (reg : registry) (t : xtree) : option message :=
  match t with
  | XT _ _ => None
  | XE own _ a kids =>
      fold_left (msg_child reg own) kids (Some (mkMessage (dec_attrs a) [] [] [] zero_err []))
  end.

Definition pres_child (reg : registry) (own : str) (st : option presence) (k : xtree) : option presence :=
  match st with
  | None => None
  | Some p =>
      match k with
      | XT _ _ => Some p
      | XE ns l _ kids =>
          if registered reg 0 ns l then
            Some (mkPresence (p_attrs p) (p_show p) (p_status p) (p_priority p) (p_error p) (p_exts p ++ [k]))
          else if negb (str_eqb ns own) then Some p   (* another namespace: not ours, skipped *)
          else if str_eqb l s_show then
            Some (mkPresence (p_attrs p) (texts kids) (p_status p) (p_priority p) (p_error p) (p_exts p))
          else if str_eqb l s_status then
            Some (mkPresence (p_attrs p) (p_show p) (texts kids) (p_priority p) (p_error p) (p_exts p))
          else if str_eqb l s_priority then
            match parse_int_field 8 (texts kids) with
            | Some z => Some (mkPresence (p_attrs p) (p_show p) (p_status p) z (p_error p) (p_exts p))
            | None => None
            end
          else if str_eqb l s_error then
            match dec_err (p_error p) k with
            | Some e => Some (mkPresence (p_attrs p) (p_show p) (p_status p) (p_priority p) e (p_exts p))
            | None => None
            end
          else Some p    (* unknown child: skipped (d.Skip()) *)
      end
  end.
Definition dec_presence (reg : registry) (t : xtree) : option presence :=
  match t with
  | XT _ _ => None
  | XE own _ a kids =>
      fold_left (pres_child reg own) kids (Some (mkPresence (dec_attrs a) [] [] 0%Z zero_err []))
  end.

(* IQ.UnmarshalXML: the error child of the iq's own namespace first, then the registry,
   else a Node *)
Definition iq_child (reg : registry) (own : str) (st : option iq) (k : xtree) : option iq :=
  match st with
  | None => None
  | Some i =>
      match k with
      | XT _ _ => Some i
      | XE ns l _ _ =>
          if str_eqb l s_error && str_eqb ns own then
            match dec_err zero_err k with
            | Some e => Some (mkIQ (i_attrs i) (i_payload i) (Some e) (i_any i))
            | None => None
            end
          else if registered reg 2 ns l then Some (mkIQ (i_attrs i) (Some k) (i_error i) (i_any i))
          else match dec_node k with
               | Some n => Some (mkIQ (i_attrs i) (i_payload i) (i_error i) (Some n))
               | None => None
               end
      end
  end.
Definition dec_iq (reg : registry) (t : xtree) : option iq :=
  match t with
  | XT _ _ => None
  | XE own _ a kids => fold_left (iq_child reg own) kids (Some (mkIQ (dec_attrs a) None None None))
  end.

(* tag-driven structs: the element name is checked, attributes by local name *)
Definition named (ns l : str) (t : xtree) : option (list (str * str) * list xtree) :=
  match t with
  | XE ns' l' a kids => if str_eqb ns' ns && str_eqb l' l then Some (a, kids) else None
  | XT _ _ => None
  end.
(* a *uint attribute: absent -> nil; present -> parsed, a parse error fails the decode *)
Definition opt_uint (k : str) (a : list (str * str)) : option (option N) :=
  match attr_last k a None with
  | None => Some None
  | Some v => match parse_uint_field 64 v with Some n => Some (Some n) | None => None end
  end.

(* the child loop of SMFailed.UnmarshalXML *)
Definition failed_cond (c : str) (k : xtree) : str :=
  match k with
  | XE ns l _ _ => if str_eqb ns ns_stanzas && existsb (str_eqb l) failed_conditions then l else c
  | XT _ _ => c
  end.

(* the attribute loop of SMFailed.UnmarshalXML *)
Fixpoint failed_h (a : list (str * str)) (d : option N) : option N :=
  match a with
  | [] => d
  | (k, v) :: a' =>
      failed_h a' (if str_eqb k s_h
                   then match parse_uint 64 v with Some n => Some n | None => d end
                   else d)
  end.

Definition dec (reg : registry) (ty : vtype) (t : xtree) : option value :=
  match ty with
  | TMessage => option_map VMessage (dec_message reg t)
  | TPresence => option_map VPresence (dec_presence reg t)
  | TIQ => option_map VIQ (dec_iq reg t)
  | TNode => option_map VNode (dec_node t)
  | TSMEnable =>
      match named ns_sm3 s_enable t with
      | Some (a, _) =>
          match opt_uint s_max a,
                (match attr_last s_resume a None with
                 | None => Some None
                 | Some v => match parse_bool_field v with Some b => Some (Some b) | None => None end
                 end) with
          | Some mx, Some rs => Some (VSMEnable mx rs)
          | _, _ => None
          end
      | None => None
      end
  | TSMEnabled =>
      match named ns_sm3 s_enabled t with
      | Some (a, _) =>
          match (match attr_last s_max a None with
                 | None => Some 0
                 | Some v => parse_uint_field 64 v
                 end) with
          | Some mx => Some (VSMEnabled (attr_str s_id a []) (attr_str s_location a []) (attr_str s_resume a []) mx)
          | None => None
          end
      | None => None
      end
  | TSMRequest =>
      match named ns_sm3 s_r t with Some _ => Some VSMRequest | None => None end
  | TSMAnswer =>
      match named ns_sm3 s_a t with
      | Some (a, _) =>
          match (match attr_last s_h a None with None => Some 0 | Some v => parse_uint_field 64 v end) with
          | Some h => Some (VSMAnswer h)
          | None => None
          end
      | None => None
      end
  | TSMResume =>
      match named ns_sm3 s_resume t with
      | Some (a, _) =>
          match opt_uint s_h a with
          | Some h => Some (VSMResume (attr_str s_previd a []) h)
          | None => None
          end
      | None => None
      end
  | TSMResumed =>
      match named ns_sm3 s_resumed t with
      | Some (a, _) =>
          match opt_uint s_h a with
          | Some h => Some (VSMResumed (attr_str s_previd a []) h)
          | None => None
          end
      | None => None
      end
  | TSMFailed =>
      (* SMFailed.UnmarshalXML: no name check; every unqualified h attribute that
         ParseUint accepts is taken (the last one wins, one it rejects is ignored);
         a child in the stanza-error namespace with a known condition name is the
         condition (the last one wins), every other child is skipped *)
      match t with
      | XE _ _ a kids => Some (VSMFailed (failed_h a None) (fold_left failed_cond kids []))
      | XT _ _ => None
      end
  | TSASLAuth =>
      match named ns_sasl_auth s_auth t with
      | Some (a, kids) =>
          (* ,chardata (f11 repair): the direct character data *)
          Some (VSASLAuth (attr_str s_mechanism a []) (texts kids))
      | None => None
      end
  | THandshake =>
      match named ns_component_accept s_handshake t with
      | Some (_, kids) =>
          Some (VHandshake (texts kids))
      | None => None
      end
  end.

(* ---- well-formed values: the domain of the round trip ---- *)
Definition wf_attrs (a : attrs) : bool :=
  all_legal (a_type a) && all_legal (a_id a) && all_legal (a_from a)
  && all_legal (a_to a) && all_legal (a_lang a).

(* Reason is the NAME of the condition element, not text.  Err.MarshalXML (repaired) returns
   an error, and xml.Marshal with it, unless the Reason is empty or an element name: *)
Definition reason_ok (e : err) : bool := isempty (e_reason e) || name_ok (e_reason e).

(* xml.Marshal v returns nil (the only error source in the modelled core) *)
Definition marshals (v : value) : bool :=
  match v with
  | VMessage m => reason_ok (m_error m)
  | VPresence p => reason_ok (p_error p)
  | VIQ i => match i_error i with Some e => reason_ok e | None => true end
  | _ => true
  end.

(* domain of Err: the code fits an int, the texts are XML characters, and the condition is
   not called text (an element <text/> in the stanza-error namespace is read back as the
   text, not as the condition: no condition of that name exists) *)
Definition wf_err (e : err) : bool :=
  ((- 2 ^ 63 <=? e_code e) && (e_code e <? 2 ^ 63))%Z
  && all_legal (e_type e) && all_legal (e_text e)
  && negb (str_eqb (e_reason e) s_text).

(* namespace-explicit generic trees; [pns] the namespace of the parent *)
Fixpoint wf_node (pns : str) (n : node) : bool :=
  match n with
  | Node ns l a c ks =>
      name_ok l && all_legal ns && (nonempty ns || isempty pns)
      && forallb attr_ok a && all_legal c
      && (fix go (l : list node) : bool :=
            match l with [] => true | k :: l' => wf_node ns k && go l' end) ks
  end.

Definition root_registered (reg : registry) (kind : Z) (t : xtree) : bool :=
  match t with XE ns l _ _ => registered reg kind ns l | XT _ _ => false end.
Definition root_is (ns l : str) (t : xtree) : bool :=
  match t with XE ns' l' _ _ => str_eqb l' l && str_eqb ns' ns | XT _ _ => false end.

(* an extension: a stand-alone well-formed element the registry dispatches on *)
Definition wf_ext (reg : registry) (kind : Z) (t : xtree) : bool :=
  wf_doc t && root_registered reg kind t.

Definition wf_message (reg : registry) (m : message) : bool :=
  wf_attrs (m_attrs m) && all_legal (m_subject m) && all_legal (m_body m)
  && all_legal (m_thread m) && wf_err (m_error m) && forallb (wf_ext reg 1) (m_exts m).

Definition wf_presence (reg : registry) (p : presence) : bool :=
  wf_attrs (p_attrs p) && all_legal (p_show p) && all_legal (p_status p)
  && ((-128 <=? p_priority p) && (p_priority p <=? 127))%Z
  && wf_err (p_error p) && forallb (wf_ext reg 0) (p_exts p).

Definition wf_iq (reg : registry) (i : iq) : bool :=
  wf_attrs (i_attrs i)
  && match i_payload i with
     | None => true
     | Some t => wf_ext reg 2 t && negb (root_is [] s_error t)
     end
  && match i_error i with
     | None => true
     | Some e => wf_err e && negb (err_empty e)   (* an empty Err is not written at all *)
     end
  && match i_any i with
     | None => true
     | Some (Node ns l _ _ _ as n) =>
         wf_node [] n && negb (registered reg 2 ns l) && negb (str_eqb l s_error && str_eqb ns [])
     end.

Definition fits64 (n : N) : bool := n <? 2 ^ 64.
Definition opt_fits64 (o : option N) : bool := match o with None => true | Some n => fits64 n end.

Definition wf_value (reg : registry) (v : value) : bool :=
  match v with
  | VMessage m => wf_message reg m
  | VPresence p => wf_presence reg p
  | VIQ i => wf_iq reg i
  | VNode n => wf_node [] n
  | VSMEnable mx _ => opt_fits64 mx
  | VSMEnabled id loc rs mx => all_legal id && all_legal loc && all_legal rs && fits64 mx
  | VSMRequest => true
  | VSMAnswer h => fits64 h
  | VSMResume pid h => all_legal pid && opt_fits64 h
  | VSMResumed pid h => all_legal pid && opt_fits64 h
  | VSMFailed h c => opt_fits64 h && (isempty c || existsb (str_eqb c) failed_conditions)
  | VSASLAuth mech val => all_legal mech && all_legal val
  | VHandshake val => all_legal val
  end.

(* the registry must not claim the un-namespaced core children *)
Definition reg_ok (reg : registry) : bool :=
  negb (registered reg 1 [] s_subject) && negb (registered reg 1 [] s_body)
  && negb (registered reg 1 [] s_thread) && negb (registered reg 1 [] s_error)
  && negb (registered reg 0 [] s_show) && negb (registered reg 0 [] s_status)
  && negb (registered reg 0 [] s_priority) && negb (registered reg 0 [] s_error).

(* ---- blanking: every free-text position replaced by a fixed text of the same
        emptiness; names, namespaces, numbers and opaque extensions kept ---- *)
Definition blank_str (s : str) : str := match s with [] => [] | _ => [120] end.
Definition blank_attrs (a : attrs) : attrs :=
  mkAttrs (blank_str (a_type a)) (blank_str (a_id a)) (blank_str (a_from a))
          (blank_str (a_to a)) (blank_str (a_lang a)).
Definition blank_err (e : err) : err :=
  mkErr (e_code e) (blank_str (e_type e)) (e_reason e) (blank_str (e_text e)).
Fixpoint blank_node (n : node) : node :=
  match n with
  | Node ns l a c ks =>
      Node ns l (map (fun kv => (fst kv, [])) a) (blank_str c)
        ((fix go (l : list node) : list node :=
            match l with [] => [] | k :: l' => blank_node k :: go l' end) ks)
  end.
Definition blank (v : value) : value :=
  match v with
  | VMessage m => VMessage (mkMessage (blank_attrs (m_attrs m)) (blank_str (m_subject m))
                              (blank_str (m_body m)) (blank_str (m_thread m)) (blank_err (m_error m)) (m_exts m))
  | VPresence p => VPresence (mkPresence (blank_attrs (p_attrs p)) (blank_str (p_show p))
                                (blank_str (p_status p)) (p_priority p) (blank_err (p_error p)) (p_exts p))
  | VIQ i => VIQ (mkIQ (blank_attrs (i_attrs i)) (i_payload i) (option_map blank_err (i_error i))
                       (option_map blank_node (i_any i)))
  | VNode n => VNode (blank_node n)
  | VSMEnabled id loc rs mx => VSMEnabled (blank_str id) (blank_str loc) (blank_str rs) mx
  | VSMResume pid h => VSMResume (blank_str pid) h
  | VSMResumed pid h => VSMResumed (blank_str pid) h
  | VSASLAuth mech val => VSASLAuth [] (blank_str val)
  | VHandshake val => VHandshake (blank_str val)
  | other => other
  end.

(* ---- what the encoder makes of characters outside the XML range: every text position
        with such characters replaced by U+FFFD (XmlText.sanitize); names, namespaces,
        numbers and opaque extensions kept.  The bytes written for v and for
        sanitize_value v are the same (CodecP.print_sanitize_value). ---- *)
Definition san (s : str) : str := map sanitize s.
Definition san_attrs (a : attrs) : attrs :=
  mkAttrs (san (a_type a)) (san (a_id a)) (san (a_from a)) (san (a_to a)) (san (a_lang a)).
Definition san_err (e : err) : err :=
  mkErr (e_code e) (san (e_type e)) (e_reason e) (san (e_text e)).
Fixpoint san_node (n : node) : node :=
  match n with
  | Node ns l a c ks =>
      Node ns l (map (fun kv => (fst kv, san (snd kv))) a) (san c)
        ((fix go (l : list node) : list node :=
            match l with [] => [] | k :: l' => san_node k :: go l' end) ks)
  end.
Definition sanitize_value (v : value) : value :=
  match v with
  | VMessage m => VMessage (mkMessage (san_attrs (m_attrs m)) (san (m_subject m))
                              (san (m_body m)) (san (m_thread m)) (san_err (m_error m)) (m_exts m))
  | VPresence p => VPresence (mkPresence (san_attrs (p_attrs p)) (san (p_show p))
                                (san (p_status p)) (p_priority p) (san_err (p_error p)) (p_exts p))
  | VIQ i => VIQ (mkIQ (san_attrs (i_attrs i)) (i_payload i) (option_map san_err (i_error i))
                       (option_map san_node (i_any i)))
  | VNode n => VNode (san_node n)
  | VSMEnabled id loc rs mx => VSMEnabled (san id) (san loc) (san rs) mx
  | VSMResume pid h => VSMResume (san pid) h
  | VSMResumed pid h => VSMResumed (san pid) h
  | VSASLAuth mech val => VSASLAuth (san mech) (san val)
  | VHandshake val => VHandshake (san val)
  | other => other
  end.
