(* Lock-level model of concurrent senders on one Client (C08): Client.Send /
   SendRaw take sendMu, number and queue the packet, write it, drop it again when
   the write failed, release sendMu (client.go); SendMissingStz retransmits under
   the same lock (router.go) and is just one more sender here.

   Unlike the coarse LTS of Model/Send.v (one step = one whole write), a write of
   a string is SEVERAL transport steps here: the socket takes the accepted bytes
   chunk by chunk, and any other sender may run between two chunks.  Whether the
   senders take the lock is a parameter [ul] of the step relation, so that the
   same relation shows what the lock buys (Proofs/SendLockP.v): with it the wire
   is a concatenation of whole strings in lock order, without it a torn wire is
   reachable.

   The socket's fault oracle is indexed by the write's number (the order in which
   the writes begin, which under the lock is the order in which they happen).
   Byte strings; definitions and inductive relations only. *)
From Coq Require Import List ZArith NArith Bool Arith.
From XV Require Import Lib.Sx Model.Queue Model.Send.
Import ListNotations.

(* where a sender is: between calls, or inside Send/SendRaw after the push, with
   the outcome [r] the socket will give this write and the bytes still to go *)
Inductive lpc := PIdle | PWriting (hold : bool) (r : wres) (rest : str).

(* ls_todo: the (data, is it held when stream management is active) of the calls
   still to make; ls_res: nil? of the calls made *)
Record lsender := mkLS { ls_pc : lpc; ls_todo : list (str * bool); ls_res : list bool }.

(* ghost log: the writes in the order they began *)
Record lentry := mkE { e_sender : nat; e_data : str; e_hold : bool; e_res : wres }.
Definition e_ok (e : lentry) : bool := negb (w_is_err (e_res e)).

Record lstate := mkL {
  l_lock : bool;            (* sendMu is held *)
  l_snd : list lsender;
  l_wire : str;             (* the bytes the socket has taken, in order *)
  l_queue : qstate;         (* the unacknowledged queue *)
  l_log : list lentry }.

Inductive lstep (ul : bool) (so : oracle) : lstate -> lstate -> Prop :=
(* Lock (only when free, if the senders lock at all); Push; the write begins *)
| ls_begin : forall lk pre post p h todo res w q lg,
    (ul = true -> lk = false) ->
    lstep ul so
      (mkL lk (pre ++ mkLS PIdle ((p, h) :: todo) res :: post) w q lg)
      (mkL ul (pre ++ mkLS (PWriting h (so (length lg)) (accepted (so (length lg)) p)) todo res :: post)
           w (if h then q_push q p else q)
           (lg ++ [mkE (length pre) p h (so (length lg))]))
(* the socket takes the next chunk *)
| ls_chunk : forall lk pre post h r b rest todo res w q lg,
    b <> [] ->
    lstep ul so
      (mkL lk (pre ++ mkLS (PWriting h r (b ++ rest)) todo res :: post) w q lg)
      (mkL lk (pre ++ mkLS (PWriting h r rest) todo res :: post) (w ++ b) q lg)
(* Write returns; DropLast when it failed; Unlock; the call returns *)
| ls_end : forall lk pre post h r todo res w q lg,
    lstep ul so
      (mkL lk (pre ++ mkLS (PWriting h r []) todo res :: post) w q lg)
      (mkL false (pre ++ mkLS PIdle todo (res ++ [negb (w_is_err r)]) :: post) w
           (if h && w_is_err r then q_drop_last q else q) lg).

Inductive lreach (ul : bool) (so : oracle) : lstate -> lstate -> Prop :=
| lr_refl : forall s, lreach ul so s s
| lr_step : forall s1 s2 s3, lstep ul so s1 s2 -> lreach ul so s2 s3 -> lreach ul so s1 s3.

Definition linit (todos : list (list (str * bool))) : lstate :=
  mkL false (map (fun t => mkLS PIdle t []) todos) [] q_init [].

Definition idle (s : lsender) : Prop := ls_pc s = PIdle.
Definition quiescent (st : lstate) : Prop := Forall idle (l_snd st).
Definition lall_done (st : lstate) : Prop :=
  Forall (fun s => ls_pc s = PIdle /\ ls_todo s = []) (l_snd st).

(* what the log says is on the wire: the accepted bytes of each write, in order *)
Definition lwire_of (lg : list lentry) : str :=
  concat (map (fun e => accepted (e_res e) (e_data e)) lg).

(* what the log says is held: push, and drop again when the write failed *)
Definition settle (q : qstate) (e : lentry) : qstate :=
  if e_hold e then
    if w_is_err (e_res e) then q_drop_last (q_push q (e_data e)) else q_push q (e_data e)
  else q.
Definition lqueue_of (lg : list lentry) : qstate := fold_left settle lg q_init.

(* sender i's calls as the log has them *)
Definition lproj (i : nat) (lg : list lentry) : list lentry :=
  filter (fun e => Nat.eqb (e_sender e) i) lg.
