(* Character-data escaping of Go's encoding/xml, as the library relies on it (C01).

   Strings are lists of Unicode code points ([str = list N]).

   [esc_char nl c] is the table of encoding/xml's escapeText / printer.EscapeString:
       dquote -> &#34;    apostrophe -> &#39;    &  -> &amp;    <  -> &lt;    >  -> &gt;
       TAB -> &#x9;   CR -> &#xD;    LF -> &#xA; (only when [nl] is true)
       a character outside the XML character range -> U+FFFD
   [nl = true]  : attribute values and string fields written by the reflection
                  encoder (printer.EscapeString);
   [nl = false] : xml.CharData handed to Encoder.EncodeToken (escapeText(..., false)),
                  which is what Node.MarshalXML and Err.MarshalXML do.

   [unescape] is the inverse for exactly the entities of the table; it refuses
   '<', a bare '&', unknown entities and characters outside the XML range (as
   Go's decoder does).  Executable definitions only. *)
From Coq Require Import List NArith Bool.
From XV Require Import Lib.Sx.
Import ListNotations.
Open Scope N_scope.

(* encoding/xml isInCharacterRange *)
Definition legal (c : N) : bool :=
  (c =? 9) || (c =? 10) || (c =? 13)
  || ((32 <=? c) && (c <=? 55295))          (* U+0020 .. U+D7FF *)
  || ((57344 <=? c) && (c <=? 65533))       (* U+E000 .. U+FFFD *)
  || ((65536 <=? c) && (c <=? 1114111)).    (* U+10000 .. U+10FFFF *)

Definition all_legal (s : str) : bool := forallb legal s.

Definition replacement : N := 65533.        (* U+FFFD *)
Definition sanitize (c : N) : N := if legal c then c else replacement.

Definition e_quot : str := [38;35;51;52;59].    (* &#34; *)
Definition e_apos : str := [38;35;51;57;59].    (* &#39; *)
Definition e_amp  : str := [38;97;109;112;59].  (* &amp; *)
Definition e_lt   : str := [38;108;116;59].     (* &lt;  *)
Definition e_gt   : str := [38;103;116;59].     (* &gt;  *)
Definition e_tab  : str := [38;35;120;57;59].   (* &#x9; *)
Definition e_nl   : str := [38;35;120;65;59].   (* &#xA; *)
Definition e_cr   : str := [38;35;120;68;59].   (* &#xD; *)

Definition esc_char (nl : bool) (c : N) : str :=
  if c =? 34 then e_quot
  else if c =? 39 then e_apos
  else if c =? 38 then e_amp
  else if c =? 60 then e_lt
  else if c =? 62 then e_gt
  else if c =? 9 then e_tab
  else if c =? 10 then (if nl then e_nl else [10])
  else if c =? 13 then e_cr
  else if legal c then [c]
  else [replacement].

Definition escape (nl : bool) (s : str) : str := flat_map (esc_char nl) s.

(* the text between '&' and ';' of the entities the table produces *)
Definition entity_value (b : str) : option N :=
  if str_eqb b [35;51;52] then Some 34
  else if str_eqb b [35;51;57] then Some 39
  else if str_eqb b [97;109;112] then Some 38
  else if str_eqb b [108;116] then Some 60
  else if str_eqb b [103;116] then Some 62
  else if str_eqb b [35;120;57] then Some 9
  else if str_eqb b [35;120;65] then Some 10
  else if str_eqb b [35;120;68] then Some 13
  else None.

(* [st = Some acc]: inside an entity, [acc] = what was read after '&' *)
Fixpoint unesc (st : option str) (l : str) : option str :=
  match l with
  | [] => match st with None => Some [] | Some _ => None end
  | c :: r =>
      match st with
      | None =>
          if c =? 38 then unesc (Some []) r
          else if c =? 60 then None
          else if legal c then
            match unesc None r with Some o => Some (c :: o) | None => None end
          else None
      | Some acc =>
          if c =? 59 then
            match entity_value acc with
            | Some v => match unesc None r with Some o => Some (v :: o) | None => None end
            | None => None
            end
          else unesc (Some (acc ++ [c])) r
      end
  end.

Definition unescape (l : str) : option str := unesc None l.

(* ---- predicates used by the injection theorems ---- *)

(* the four characters that delimit markup or attribute values *)
Definition is_delim (c : N) : bool := (c =? 60) || (c =? 62) || (c =? 34) || (c =? 39).

Fixpoint prefixb (p l : str) : bool :=
  match p, l with
  | [], _ => true
  | x :: p', y :: l' => (x =? y) && prefixb p' l'
  | _ :: _, [] => false
  end.

(* what may follow an '&' in escaped text: the rest of one of the eight entities *)
Definition entity_tails : list str :=
  [tl e_quot; tl e_apos; tl e_amp; tl e_lt; tl e_gt; tl e_tab; tl e_nl; tl e_cr].

(* every '&' of [l] starts one of the table's entities *)
Fixpoint amp_ok (l : str) : bool :=
  match l with
  | [] => true
  | c :: r => (if c =? 38 then existsb (fun e => prefixb e r) entity_tails else true) && amp_ok r
  end.

Definition has_char (c : N) (l : str) : bool := existsb (N.eqb c) l.
Definition has_nl (l : str) : bool := has_char 10 l.

(* text made only of characters the table leaves alone (written verbatim) *)
Definition plain_char (c : N) : bool :=
  legal c && negb (existsb (N.eqb c) [34; 39; 38; 60; 62; 9; 10; 13]).
Definition plain (s : str) : bool := forallb plain_char s.
