(* Model of auth.go: Credential (Password / OAuthToken), authSASL, authPlain,
   isSupportedMech.  Strings are BYTES (Go strings are byte strings; nothing in
   this path looks at code points).  Executable definitions only.

   What is abstract: the server's reply is given by its kind (what
   stanza.NextPacket returns), and the socket's answer to the single Write. *)
From Coq Require Import List NArith Bool.
From XV Require Import Lib.Sx Model.Base64.
Import ListNotations.
Open Scope N_scope.

Definition s_PLAIN : str := [80; 76; 65; 73; 78].                 (* "PLAIN" *)
Definition s_XOAUTH2 : str := [88; 45; 79; 65; 85; 84; 72; 50].   (* "X-OAUTH2" *)

(* xmpp.Password(s) / xmpp.OAuthToken(s): Credential.mechanisms *)
Inductive cred_kind := CPassword | COAuthToken.
Definition cred_mechs (k : cred_kind) : list str :=
  match k with CPassword => [s_PLAIN] | COAuthToken => [s_XOAUTH2] end.

(* ---- which children of the features element advertise a mechanism ----
   stanza.saslMechanisms: the <mechanism/> children of
   <mechanisms xmlns="urn:ietf:params:xml:ns:xmpp-sasl"/> THAT ARE THEMSELVES IN THE
   SASL NAMESPACE, in document order, each by its character data (trimmed, see below).  A child in
   another namespace (an extension element that happens to be called "mechanism")
   advertises nothing. *)
Definition s_ns_sasl : str :=   (* urn:ietf:params:xml:ns:xmpp-sasl *)
  [117; 114; 110; 58; 105; 101; 116; 102; 58; 112; 97; 114; 97; 109; 115; 58; 120; 109;
   108; 58; 110; 115; 58; 120; 109; 112; 112; 45; 115; 97; 115; 108].
Definition s_mechanism : str := [109; 101; 99; 104; 97; 110; 105; 115; 109].   (* mechanism *)

(* a child element of <mechanisms/>: (namespace, local name, character data) *)
Definition fchild := (str * str * str)%type.
Definition is_sasl_mech (c : fchild) : bool :=
  let '(ns, local, _) := c in str_eqb ns s_ns_sasl && str_eqb local s_mechanism.
(* The name a <mechanism/> element advertises is its character data WITHOUT the XML white space
   (space, tab, CR, LF) around it: the element is an xs:NMTOKEN (RFC 6120, appendix A.4), so a
   server that writes its features indented advertises the same names (isSupportedMech trims
   before it compares). *)
Definition is_xml_ws (c : N) : bool := (c =? 32) || (c =? 9) || (c =? 13) || (c =? 10).
Fixpoint trim_left (l : str) : str :=
  match l with
  | c :: r => if is_xml_ws c then trim_left r else l
  | [] => []
  end.
Definition trim (l : str) : str := rev (trim_left (rev (trim_left l))).
Definition advertised (children : list fchild) : list str :=
  map (fun c : fchild => trim (snd c)) (filter is_sasl_mech children).

(* One level up: the children of <stream:features/> themselves, each with its own element
   children: (namespace, local name, children).  stanza.StreamFeatures decodes the field
   Mechanisms from every child element {urn:ietf:params:xml:ns:xmpp-sasl}mechanisms (a
   second such element appends to the same slice); a <mechanisms/> element in any other
   namespace, a <mechanism/> standing directly under the features, or a SASL list nested
   inside some other child advertise nothing. *)
Definition s_mechanisms : str := [109; 101; 99; 104; 97; 110; 105; 115; 109; 115].   (* mechanisms *)
Definition fnode := (str * str * list fchild)%type.
Definition is_sasl_list (n : fnode) : bool :=
  let '(ns, local, _) := n in str_eqb ns s_ns_sasl && str_eqb local s_mechanisms.
Definition advertised_in (nodes : list fnode) : list str :=
  flat_map (fun n : fnode => advertised (snd n)) (filter is_sasl_list nodes).

(* isSupportedMech *)
Definition is_supported_mech (m : str) (server : list str) : bool :=
  existsb (str_eqb m) server.

(* the loop of authSASL: first credential mechanism the server also offers *)
Fixpoint choose_mech (creds server : list str) : option str :=
  match creds with
  | [] => None
  | m :: creds' =>
      if is_supported_mech m server then Some m else choose_mech creds' server
  end.

(* switch matchingMech { case "PLAIN", "X-OAUTH2": ... } *)
Definition plain_family (m : str) : bool := str_eqb m s_PLAIN || str_eqb m s_XOAUTH2.

(* raw := "\x00" + user + "\x00" + secret; base64.StdEncoding.Encode *)
Definition plain_raw (user secret : str) : str := 0 :: user ++ 0 :: secret.
Definition plain_payload (user secret : str) : str := b64_encode (plain_raw user secret).

(* xml.Marshal(stanza.SASLAuth{Mechanism: mech, Value: payload}):
     <auth xmlns="urn:ietf:params:xml:ns:xmpp-sasl" mechanism="MECH">PAYLOAD</auth>
   Value is a ",chardata" field; the payload consists of base64 characters only, which the
   encoder writes verbatim (Props/C14.v, C14_b64_alphabet).  The mechanism attribute is
   written verbatim here; auth_sasl only reaches this with PLAIN or X-OAUTH2,
   which the encoder does not escape. *)
Definition auth_open : str :=   (* <auth xmlns="urn:ietf:params:xml:ns:xmpp-sasl" mechanism= and the opening quote *)
  [60; 97; 117; 116; 104; 32; 120; 109; 108; 110; 115; 61; 34; 117; 114; 110; 58; 105;
   101; 116; 102; 58; 112; 97; 114; 97; 109; 115; 58; 120; 109; 108; 58; 110; 115; 58;
   120; 109; 112; 112; 45; 115; 97; 115; 108; 34; 32; 109; 101; 99; 104; 97; 110; 105;
   115; 109; 61; 34].
Definition auth_mid : str := [34; 62].                             (* closing quote, > *)
Definition auth_close : str := [60; 47; 97; 117; 116; 104; 62].    (* </auth> *)
Definition auth_element (mech payload : str) : str :=
  auth_open ++ mech ++ auth_mid ++ payload ++ auth_close.

(* what stanza.NextPacket returned after the write *)
Inductive reply :=
| RSuccess                    (* stanza.SASLSuccess *)
| RFailure (reason : str)     (* stanza.SASLFailure; reason only reaches the message *)
| ROther                      (* any other packet *)
| RReadErr.                   (* NextPacket returned an error *)

(* what socket.Write answered *)
Inductive wres := WOk | WErr | WZero.

Inductive result :=
| Ok                          (* nil *)
| ErrPermanent                (* ConnError{Permanent: true} *)
| ErrOther.                   (* any other error *)

Definition classify (r : reply) : result :=
  match r with
  | RSuccess => Ok
  | RFailure _ => ErrPermanent
  | ROther => ErrOther
  | RReadErr => ErrOther
  end.

(* (write calls made on the socket, returned error) *)
Definition outcome := (list str * result)%type.

Definition auth_plain (mech user secret : str) (w : wres) (r : reply) : outcome :=
  let data := auth_element mech (plain_payload user secret) in
  match w with
  | WErr => ([data], ErrOther)
  | WZero => ([data], ErrOther)
  | WOk => ([data], classify r)
  end.

Definition auth_sasl_mechs (creds server : list str) (user secret : str)
  (w : wres) (r : reply) : outcome :=
  match choose_mech creds server with
  | Some m =>
      if plain_family m then auth_plain m user secret w r else ([], ErrPermanent)
  | None => ([], ErrPermanent)
  end.

Definition auth_sasl (k : cred_kind) (server : list str) (user secret : str)
  (w : wres) (r : reply) : outcome :=
  auth_sasl_mechs (cred_mechs k) server user secret w r.

(* authSASL on the children of the features element as the server sent them *)
Definition auth_sasl_nodes (k : cred_kind) (nodes : list fnode) (user secret : str)
  (w : wres) (r : reply) : outcome :=
  auth_sasl k (advertised_in nodes) user secret w r.

(* authSASL on the children of the SASL <mechanisms/> element as the server sent them *)
Definition auth_sasl_features (k : cred_kind) (children : list fchild) (user secret : str)
  (w : wres) (r : reply) : outcome :=
  auth_sasl k (advertised children) user secret w r.

(* ---- the receiving side: what a server reads out of the element ----
   (used to state that the element cannot be broken by its content) *)
Fixpoint strip_prefix (pre l : str) : option str :=
  match pre, l with
  | [], _ => Some l
  | p :: pre', x :: l' => if p =? x then strip_prefix pre' l' else None
  | _ :: _, [] => None
  end.

(* split before the first occurrence of c *)
Fixpoint take_until (c : N) (l : str) : str * str :=
  match l with
  | [] => ([], [])
  | x :: l' => if x =? c then ([], l) else let '(a, b) := take_until c l' in (x :: a, b)
  end.

(* (mechanism attribute, character data) of an <auth/> element as written above *)
Definition parse_auth (l : str) : option (str * str) :=
  do l1 <- strip_prefix auth_open l;
  let '(mech, l2) := take_until 34 l1 in          (* up to the closing quote *)
  do l3 <- strip_prefix auth_mid l2;
  let '(text, l4) := take_until 60 l3 in          (* up to the next '<' *)
  if str_eqb l4 auth_close then Some (mech, text) else None.

(* what the server recovers: mechanism, user, secret *)
Definition split_raw (raw : str) : option (str * str) :=
  match raw with
  | 0 :: r => let '(u, r') := take_until 0 r in
              match r' with _ :: s => Some (u, s) | [] => None end
  | _ => None
  end.
