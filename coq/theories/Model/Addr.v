(* Model of ensurePort (network.go), NewClientTransport / NewComponentTransport
   (transport.go, the choice of transport and of the dial address only),
   extractParams / NewChecker (cert_checker.go) and a
   transcription of Go's net.SplitHostPort (net/ipsock.go), used as the
   specification of "a valid host:port that net.Dial accepts syntactically".
   The transport choice and the checker are modelled as REPAIRED (a scheme is
   ws / wss in any letter case followed by "://"; the checker normalises with
   ensurePort + net.SplitHostPort; an address with an empty port gets the default port).
   Strings are byte strings (str = list N, one element per byte).
   Executable definitions only. *)
From Coq Require Import List ZArith NArith Bool.
From XV Require Import Lib.Sx.
Import ListNotations.
Open Scope Z_scope.

Definition c_colon : N := 58%N.   (* ':' *)
Definition c_lbr   : N := 91%N.   (* '[' *)
Definition c_rbr   : N := 93%N.   (* ']' *)
Definition c_minus : N := 45%N.   (* '-' *)
Definition c_slash : N := 47%N.   (* '/' *)
Definition sch_ws  : str := [119; 115]%N.        (* "ws"  *)
Definition sch_wss : str := [119; 115; 115]%N.   (* "wss" *)
Definition s_sep   : str := [58; 47; 47]%N.      (* "://" *)

Definition len (s : str) : Z := Z.of_nat (length s).

(* strings.HasPrefix *)
Fixpoint has_prefix (p s : str) : bool :=
  match p, s with
  | [], _ => true
  | a :: p', b :: s' => N.eqb a b && has_prefix p' s'
  | _ :: _, [] => false
  end.

(* strings.Index / bytealg.IndexByteString for a single byte: -1 when absent *)
Fixpoint index (c : N) (s : str) : Z :=
  match s with
  | [] => -1
  | x :: s' =>
      if N.eqb x c then 0
      else let r := index c s' in if r <? 0 then -1 else 1 + r
  end.

(* strings.LastIndex / bytealg.LastIndexByteString for a single byte *)
Fixpoint last_index (c : N) (s : str) : Z :=
  match s with
  | [] => -1
  | x :: s' =>
      let r := last_index c s' in
      if 0 <=? r then 1 + r else if N.eqb x c then 0 else -1
  end.

(* strings.Count for a one-byte separator *)
Fixpoint count (c : N) (s : str) : nat :=
  match s with
  | [] => O
  | x :: s' => ((if N.eqb x c then 1 else 0) + count c s')%nat
  end.

Definition has (c : N) (s : str) : bool := existsb (N.eqb c) s.

(* ---- strconv.Itoa ---- *)
(* decimal digits of n, most significant first, prepended to acc; the fuel is
   the number of binary digits + 1, never less than the number of decimal digits *)
Fixpoint udigits (fuel : nat) (n : N) (acc : str) : str :=
  match fuel with
  | O => acc
  | S f =>
      let acc' := (48 + n mod 10)%N :: acc in
      if (n / 10 =? 0)%N then acc' else udigits f (n / 10)%N acc'
  end.
Definition utoa (n : N) : str := udigits (S (N.size_nat n)) n [].
Definition itoa (z : Z) : str :=
  if z <? 0 then c_minus :: utoa (Z.to_N (- z)) else utoa (Z.to_N z).

(* ---- ensurePort (network.go) ---- *)
(* strings.HasSuffix(addr, ":") *)
Definition ends_colon (s : str) : bool :=
  match s with [] => false | _ => N.eqb (last s 0%N) c_colon end.

(* REPAIRED (hunt2 C20/f1): a trailing ':' with nothing after it ("host:", "[::1]:") gives
   no port - the default is appended (the unrepaired code returned such an address
   unchanged and net.Dial made TCP port 0 of the empty port). *)
Definition ensure_port (addr : str) (port : Z) : str :=
  if has_prefix [c_lbr] addr then
    if last_index c_colon addr <=? last_index c_rbr addr
    then addr ++ c_colon :: itoa port
    else if ends_colon addr then addr ++ itoa port
    else addr
  else
    match count c_colon addr with
    | O => addr ++ c_colon :: itoa port
    | S O => if ends_colon addr then addr ++ itoa port else addr
    | _ => c_lbr :: addr ++ c_rbr :: c_colon :: itoa port
    end.

(* ---- transport choice (transport.go) ---- *)
Inductive transport :=
| WebSocket (addr : str)      (* *WebsocketTransport, Config.Address = addr *)
| Tcp (addr : str)            (* *XMPPTransport,      Config.Address = addr *)
| NotSupported.               (* error wrapping ErrTransportProtocolNotSupported *)

(* ASCII lower case of one byte *)
Definition lower (c : N) : N :=
  if (65 <=? c)%N && (c <=? 90)%N then (c + 32)%N else c.

(* hasURLScheme (transport.go): len(addr) >= n+3 && EqualFold(addr[:n], scheme) &&
   addr[n:n+3] == "://", for a lower-case ASCII scheme.
   strings.EqualFold is Unicode simple folding, [map lower] ASCII only.  They agree on
   every byte string here: addr[:n] is n = 2 or 3 BYTES; a non-ASCII rune that folds to
   's' or 'k' (U+017F, U+212A) takes at least 2 bytes, which leaves too few bytes for
   the remaining letters of "ws" / "wss", and EqualFold ends with a length comparison.
   (The harness carries these corner inputs: "w\u017f://a", "w\u017fs://a", "\u212aws://a".) *)
Definition has_url_scheme (addr scheme : str) : bool :=
  let n := length scheme in
  Nat.leb (n + 3) (length addr)
  && str_eqb (map lower (firstn n addr)) scheme
  && str_eqb (firstn 3 (skipn n addr)) s_sep.

(* isWebsocketAddress *)
Definition scheme_prefixed (addr : str) : bool :=
  has_url_scheme addr sch_ws || has_url_scheme addr sch_wss.

Definition client_transport (addr : str) : transport :=
  if scheme_prefixed addr then WebSocket addr else Tcp (ensure_port addr 5222).

Definition component_transport (addr : str) : transport :=
  if scheme_prefixed addr then NotSupported else Tcp (ensure_port addr 5222).

(* ---- net.SplitHostPort (net/ipsock.go), branch by branch ---- *)
Inductive split_err :=
| MissingPort        (* "missing port in address" *)
| TooManyColons      (* "too many colons in address" *)
| MissingRbr         (* "missing ']' in address" *)
| UnexpectedLbr      (* "unexpected '[' in address" *)
| UnexpectedRbr.     (* "unexpected ']' in address" *)

Inductive split_res :=
| SplitOk (host port : str)
| SplitErr (e : split_err).

(* s[a:b] *)
Definition slice (s : str) (a b : Z) : str :=
  firstn (Z.to_nat (b - a)) (skipn (Z.to_nat a) s).
(* s[k] == c *)
Definition byte_is (s : str) (k : Z) (c : N) : bool :=
  match nth_error s (Z.to_nat k) with Some x => N.eqb x c | None => false end.

Definition split_host_port (hp : str) : split_res :=
  let i := last_index c_colon hp in
  if i <? 0 then SplitErr MissingPort else
  let finish (host : str) (j k : Z) : split_res :=
    if 0 <=? index c_lbr (skipn (Z.to_nat j) hp) then SplitErr UnexpectedLbr else
    if 0 <=? index c_rbr (skipn (Z.to_nat k) hp) then SplitErr UnexpectedRbr else
    SplitOk host (skipn (Z.to_nat (i + 1)) hp) in
  if has_prefix [c_lbr] hp then
    let e := index c_rbr hp in
    if e <? 0 then SplitErr MissingRbr else
    if e + 1 =? len hp then SplitErr MissingPort else
    if e + 1 =? i then finish (slice hp 1 e) 1 (e + 1) else
    if byte_is hp (e + 1) c_colon then SplitErr TooManyColons else SplitErr MissingPort
  else
    let host := firstn (Z.to_nat i) hp in
    if 0 <=? index c_colon host then SplitErr TooManyColons else finish host 0 0.

(* ---- cert_checker.go: extractParams as used by NewChecker ---- *)
(* net.JoinHostPort *)
Definition join_host_port (h p : str) : str :=
  if 0 <=? index c_colon h then c_lbr :: h ++ c_rbr :: c_colon :: p else h ++ c_colon :: p.

(* Some (address to dial, host) or None for an error *)
Definition checker_params (addr : str) : option (str * str) :=
  let full := ensure_port addr 5222 in
  match split_host_port full with
  | SplitErr _ => None
  | SplitOk h p =>
      Some (match p with [] => join_host_port h (itoa 5222) | _ => full end, h)
  end.

(* ---- host / port forms, as boolean predicates ---- *)
Definition nonempty (s : str) : bool := match s with [] => false | _ => true end.
Definition no_brackets (s : str) : bool := negb (has c_lbr s) && negb (has c_rbr s).

(* DNS name or IPv4 literal: non-empty, no ':', no '[' / ']' *)
Definition name_or_v4 (h : str) : bool :=
  nonempty h && negb (has c_colon h) && no_brackets h.
(* IPv6 literal without brackets (zone allowed): at least two ':', no '[' / ']' *)
Definition v6 (x : str) : bool := Nat.leb 2 (count c_colon x) && no_brackets x.
(* explicit port: non-empty, no ':', no '[' / ']' (digit strings in particular) *)
Definition port_ok (p : str) : bool :=
  nonempty p && negb (has c_colon p) && no_brackets p.
Definition is_digit (c : N) : bool := (48 <=? c)%N && (c <=? 57)%N.
Definition digits (p : str) : bool := nonempty p && forallb is_digit p.

(* ---- XMPPTransport.Connect on ONE transport object, several times (a client keeps its
   transport for its whole life: Client.Connect, Client.Resume and the StreamManager call
   transport.Connect() again for every reconnection).  The state that matters is
   Config.Address; each Connect dials it (net.DialTimeout("tcp", t.Config.Address, ..)) and
   leaves it alone, whatever the attempt's outcome - the peer address reached (Some r) or a
   failure (None) - which is an input the model ignores. ---- *)
Definition connect_step (address : str) (reached : option str) : str * str :=
  (address, address).        (* (Config.Address afterwards, the address dialled) *)

Fixpoint connects (address : str) (outcomes : list (option str)) : list str :=
  match outcomes with
  | [] => []
  | o :: t => let '(a', dialled) := connect_step address o in dialled :: connects a' t
  end.

(* the addresses dialled by the successive Connects of the transport a constructor returns *)
Definition client_dials (addr : str) (outcomes : list (option str)) : list str :=
  match client_transport addr with
  | Tcp a => connects a outcomes
  | _ => []
  end.
Definition component_dials (addr : str) (outcomes : list (option str)) : list str :=
  match component_transport addr with
  | Tcp a => connects a outcomes
  | _ => []
  end.
