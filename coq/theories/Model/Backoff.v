(* Model of backoff (backoff.go): setDefault / durationForAttempt / duration / reset.
   Executable definitions only.

   Numbers are Z.  Go's [int] fields are int64 on the supported platform; the only
   place where the model wraps is the one where the code can really overflow inside
   the domain below: [time.Duration(d) * time.Millisecond] ([to_duration]).  The
   float64 computation [min(float64(Cap), float64(Base) * Pow(float64(Factor),
   float64(attempt)))] followed by [int(Trunc(.))] is modelled by exact integer
   arithmetic ([expo]); that the two agree is checked differentially by the
   correspondence run (DESIGN.md 6.C19, "Partial").

   Domain of the model (the correspondence glue rejects everything else):
   Base, Factor >= 0, attempt >= 0 (0 fields take the defaults); Cap any integer
   (a negative Cap is the "malformed" stream: it is how [rand.Intn] gets a
   non-positive argument and panics).  [attempt++] is modelled without the int64
   wrap (2^63 consecutive failures). *)
From Coq Require Import List ZArith Bool.
From XV Require Import Gen.Generated.
Import ListNotations.
Open Scope Z_scope.

Record backoff := mkBackoff {
  no_jitter : bool;
  base : Z;          (* ms *)
  factor : Z;
  cap : Z;           (* ms *)
  attempt : Z        (* lastDuration is never read or written by the code: omitted *)
}.

(* const ( defaultBase; defaultFactor; defaultCap ): the model follows the constants
   regenerated from the code on every run (Gen/Generated.v, written by harness/gen.go
   from VerifBackoffDefaults()).  What the property needs of them -- positive, within
   the bound, default cap at most three minutes -- is Proofs/BackoffP.v defaults_ok,
   re-proved against the live constants on every run. *)
Definition dflt_base : Z := default_base.
Definition dflt_factor : Z := default_factor.
Definition dflt_cap : Z := default_cap.

(* setDefault: each zero field takes its default (it writes the fields) *)
Definition set_default (b : backoff) : backoff :=
  mkBackoff (no_jitter b)
            (if base b =? 0 then dflt_base else base b)
            (if factor b =? 0 then dflt_factor else factor b)
            (if cap b =? 0 then dflt_cap else cap b)
            (attempt b).

(* ---- specification of the delay in ms: min(cap, base * factor^n) ---- *)
Definition expo (b : backoff) (n : Z) : Z := Z.min (cap b) (base b * factor b ^ n).

(* ---- the same value computed without building factor^n: multiply until the cap
   is reached or n multiplications are done.  With factor >= 2 and base >= 1 at most
   log2_up cap multiplications are needed, which is what the fuel provides; with
   factor = 1 the value is min(cap, base).  (Proved equal to [expo] for positive
   base/factor/cap and n >= 0: Proofs/BackoffP.v, expo_exec_spec.) ---- *)
Fixpoint sat_loop (fuel : nat) (f c acc k : Z) : Z :=
  match fuel with
  | O => Z.min c acc
  | S fuel' =>
      if (k <=? 0) || (c <=? acc) then Z.min c acc
      else sat_loop fuel' f c (acc * f) (k - 1)
  end.

Definition expo_fuel (c : Z) : nat := Z.to_nat (Z.log2_up c).

Definition expo_exec (b : backoff) (n : Z) : Z :=
  if factor b =? 1 then Z.min (cap b) (base b)
  else sat_loop (expo_fuel (cap b)) (factor b) (cap b) (base b) n.

(* ---- time.Duration(d) * time.Millisecond: int64 multiplication, wraps ---- *)
Definition millisecond : Z := 1000000.   (* ns *)
Definition wrap64 (z : Z) : Z := (z + 2 ^ 63) mod 2 ^ 64 - 2 ^ 63.
Definition to_duration (d : Z) : Z := wrap64 (d * millisecond).

(* result of a call: a time.Duration in ns, or a panic of the random draw *)
Inductive outcome := Dur (ns : Z) | Panic.

(* The delay.  Without jitter: d ms converted to a Duration.  With jitter ("full
   jitter"): some Duration in [0, d ms), chosen by the global math/rand source, which
   the model takes as an oracle argument [r] ranging over ALL of Z: the result is
   r mod (d ms in ns).  This deliberately abstracts HOW the draw is made -- the code
   draws whole milliseconds (rand.Intn(d) * time.Millisecond, the values k * 10^6 with
   0 <= k < d, reached by r = k * 10^6: Proofs/BackoffP.v ms_draw_admissible); drawing
   at nanosecond resolution is equally within the property ("between zero and that
   value").  A draw from an empty range (d <= 0, only possible with a non-positive
   Cap) panics in the code (rand.Intn: "invalid argument to Intn"). *)
Definition delay (b : backoff) (n r : Z) : outcome :=
  let d := expo_exec b n in
  if no_jitter b then Dur (to_duration d)
  else if d <=? 0 then Panic
  else Dur (r mod to_duration d).

(* durationForAttempt(attempt) -- repaired behaviour: uses its parameter (D5).
   Returns the receiver after setDefault and the outcome. *)
Definition dur_for_attempt (b : backoff) (n r : Z) : backoff * outcome :=
  let b' := set_default b in (b', delay b' n r).

(* duration(): durationForAttempt(b.attempt); attempt++ (not reached on panic) *)
Definition duration (b : backoff) (r : Z) : backoff * outcome :=
  let '(b', o) := dur_for_attempt b (attempt b) r in
  match o with
  | Panic => (b', Panic)
  | Dur _ => (mkBackoff (no_jitter b') (base b') (factor b') (cap b') (attempt b' + 1), o)
  end.

Definition reset (b : backoff) : backoff :=
  mkBackoff (no_jitter b) (base b) (factor b) (cap b) 0.

(* consecutive duration() calls, one oracle value each; a panic ends the sequence *)
Fixpoint dur_seq (b : backoff) (rs : list Z) : backoff * list outcome :=
  match rs with
  | [] => (b, [])
  | r :: rs' =>
      let '(b1, o) := duration b r in
      match o with
      | Panic => (b1, [Panic])
      | Dur _ => let '(b2, os) := dur_seq b1 rs' in (b2, o :: os)
      end
  end.

(* a freshly constructed value: backoff{NoJitter: nj, Base: b, Factor: f, Cap: c} *)
Definition fresh (nj : bool) (b f c : Z) : backoff := mkBackoff nj b f c 0.

(* StreamManager.resume(): every outage (loss of the session until the next successful
   Resume) runs its retry loop on a fresh local backoff value -- which is what reset()
   amounts to.  [outages b ms]: for each outage with m failed attempts, the m waits. *)
Definition zeros (n : Z) : list Z := repeat 0 (Z.to_nat n).

Fixpoint outages (b : backoff) (ms : list Z) : list (list outcome) :=
  match ms with
  | [] => []
  | m :: ms' => let '(b1, os) := dur_seq (reset b) (zeros m) in os :: outages b1 ms'
  end.
