(* Model of backoff (backoff.go): setDefault / durationForAttempt / duration / reset.
   Executable definitions only.

   Numbers are Z.  Go's [int] fields are int64 on the supported platform.  The float64
   computation [min(float64(Cap), float64(Base) * Pow(float64(Factor), float64(attempt)))],
   saturated at maxMs and converted to int64, is modelled by exact integer arithmetic
   ([expo], [max_ms]).  That the two agree is NOT proved from a float64 semantics.  What is
   proved (Props/C19.v C19_float_robust): the result is the integer one for ANY rounding
   that (i) is exact on values below 2^53 and (ii) leaves values >= 2^53 at or above 2^52
   (+Inf included), because everything above max_ms (about 2^43.07) saturates.  That
   float64(int), * and math.Pow meet (i) and (ii) is trusted and checked differentially
   by the correspondence run (DESIGN.md 6.C19, "Partial").  The conversion [time.Duration(d) * time.Millisecond]
   is written with its int64 wrap ([to_duration]) and proved not to wrap.

   Domain (what the property quantifies over; the correspondence glue answers a constant
   for everything else): Base, Factor, Cap positive after the defaults (0 fields take the
   defaults), attempt >= 0.  [attempt++] is modelled without the int64 wrap (2^63
   consecutive failures). *)
From Coq Require Import List ZArith Bool.
From XV Require Import Gen.Generated.
Import ListNotations.
Open Scope Z_scope.

Record backoff := mkBackoff {
  no_jitter : bool;
  base : Z;          (* ms *)
  factor : Z;
  cap : Z;           (* ms *)
  attempt : Z        (* lastDuration is never read or written by the code: omitted *)
}.

(* const ( defaultBase; defaultFactor; defaultCap ): the model follows the constants
   regenerated from the code on every run (Gen/Generated.v, written by harness/gen.go
   from VerifBackoffDefaults()).  What the property needs of them -- positive, within
   the bound, default cap at most three minutes -- is Proofs/BackoffP.v defaults_ok,
   re-proved against the live constants on every run. *)
Definition dflt_base : Z := default_base.
Definition dflt_factor : Z := default_factor.
Definition dflt_cap : Z := default_cap.

(* setDefault: each zero field takes its default (it writes the fields) *)
Definition set_default (b : backoff) : backoff :=
  mkBackoff (no_jitter b)
            (if base b =? 0 then dflt_base else base b)
            (if factor b =? 0 then dflt_factor else factor b)
            (if cap b =? 0 then dflt_cap else cap b)
            (attempt b).

(* ---- specification of the delay in ms: min(cap, base * factor^n) ---- *)
Definition expo (b : backoff) (n : Z) : Z := Z.min (cap b) (base b * factor b ^ n).

(* ---- the same value computed without building factor^n: multiply until the cap
   is reached or n multiplications are done.  With factor >= 2 and base >= 1 at most
   log2_up cap multiplications are needed, which is what the fuel provides; with
   factor = 1 the value is min(cap, base).  (Proved equal to [expo] for positive
   base/factor/cap and n >= 0: Proofs/BackoffP.v, expo_exec_spec.) ---- *)
Fixpoint sat_loop (fuel : nat) (f c acc k : Z) : Z :=
  match fuel with
  | O => Z.min c acc
  | S fuel' =>
      if (k <=? 0) || (c <=? acc) then Z.min c acc
      else sat_loop fuel' f c (acc * f) (k - 1)
  end.

Definition expo_fuel (c : Z) : nat := Z.to_nat (Z.log2_up c).

Definition expo_exec (b : backoff) (n : Z) : Z :=
  if factor b =? 1 then Z.min (cap b) (base b)
  else sat_loop (expo_fuel (cap b)) (factor b) (cap b) (base b) n.

(* ---- time.Duration(d) * time.Millisecond: int64 multiplication, wraps ---- *)
Definition millisecond : Z := 1000000.   (* ns *)
Definition wrap64 (z : Z) : Z := (z + 2 ^ 63) mod 2 ^ 64 - 2 ^ 63.
Definition to_duration (d : Z) : Z := wrap64 (d * millisecond).

(* const maxMs = MaxInt64 / int64(time.Millisecond): the largest whole number of ms a
   time.Duration can hold.  The repaired code (D22) saturates there, in the float domain,
   before any integer conversion, so the multiplication above never wraps. *)
Definition max_ms : Z := 9223372036854.

(* result of a call: a time.Duration in ns *)
Inductive outcome := Dur (ns : Z).

(* The delay (repaired behaviour, D22: saturation at max_ms; "d < 1 => return 0", which
   only a negative attempt number reaches).  Without jitter: d ms converted to a Duration.
   With jitter ("full jitter"): some Duration in [0, d ms), chosen by the global math/rand
   source, which the model takes as an oracle argument [r] ranging over ALL of Z: the
   result is r mod (d ms in ns).  This deliberately abstracts HOW the draw is made -- the
   code draws whole milliseconds (rand.Int63n(d) * time.Millisecond, the values k * 10^6
   with 0 <= k < d, reached by r = k * 10^6: Proofs/BackoffP.v ms_draw_admissible);
   drawing at nanosecond resolution is equally within the property ("between zero and
   that value").  Since d >= 1 where a draw is made, the draw cannot panic. *)
Definition delay (b : backoff) (n r : Z) : outcome :=
  let d := Z.min max_ms (expo_exec b n) in
  if d <? 1 then Dur 0
  else if no_jitter b then Dur (to_duration d)
  else Dur (r mod to_duration d).

(* durationForAttempt(attempt) -- repaired behaviour: uses its parameter (D5).
   Returns the receiver after setDefault and the outcome. *)
Definition dur_for_attempt (b : backoff) (n r : Z) : backoff * outcome :=
  let b' := set_default b in (b', delay b' n r).

(* duration(): durationForAttempt(b.attempt); attempt++ *)
Definition duration (b : backoff) (r : Z) : backoff * outcome :=
  let '(b', o) := dur_for_attempt b (attempt b) r in
  (mkBackoff (no_jitter b') (base b') (factor b') (cap b') (attempt b' + 1), o).

Definition reset (b : backoff) : backoff :=
  mkBackoff (no_jitter b) (base b) (factor b) (cap b) 0.

(* consecutive duration() calls, one oracle value each *)
Fixpoint dur_seq (b : backoff) (rs : list Z) : backoff * list outcome :=
  match rs with
  | [] => (b, [])
  | r :: rs' =>
      let '(b1, o) := duration b r in
      let '(b2, os) := dur_seq b1 rs' in (b2, o :: os)
  end.

(* a freshly constructed value: backoff{NoJitter: nj, Base: b, Factor: f, Cap: c} *)
Definition fresh (nj : bool) (b f c : Z) : backoff := mkBackoff nj b f c 0.

(* StreamManager.resume() (stream_manager.go): every outage (loss of the session
   until the next successful Resume) runs its retry loop on a fresh local value
   [var backoff backoff] -- NoJitter false, Base/Factor/Cap unset -- which is what reset()
   amounts to.  [outages_r b rss]: for each outage, given the oracle values rs of its
   failed attempts (one jitter draw per wait), the waits.  [outages b ms] is the same with
   the oracle fixed to 0 and only the NUMBER m of failed attempts of each outage given
   (used with NoJitter = true by the correspondence glue to compute upper bounds). *)
Definition zeros (n : Z) : list Z := repeat 0 (Z.to_nat n).

Fixpoint outages_r (b : backoff) (rss : list (list Z)) : list (list outcome) :=
  match rss with
  | [] => []
  | rs :: rss' => let '(b1, os) := dur_seq (reset b) rs in os :: outages_r b1 rss'
  end.

Definition outages (b : backoff) (ms : list Z) : list (list outcome) :=
  outages_r b (map zeros ms).

(* the value resume() declares (stream_manager.go: var backoff backoff) *)
Definition stream_manager_backoff : backoff := mkBackoff false 0 0 0 0.

(* ONE backoff value driven through its three operations in any order (the header of
   backoff.go: "Keep the attempt counter on your end and use durationForAttempt(int)" -
   the per-attempt query may be asked for any attempt number at any time, between waits and
   resets).  [run_ops b ops]: the value after the operations and the delay of every call
   that returns one. *)
Inductive op :=
| OQuery (n r : Z)     (* durationForAttempt(n), oracle value r *)
| OWait (r : Z)        (* duration() *)
| OReset.              (* reset() *)

Fixpoint run_ops (b : backoff) (ops : list op) : backoff * list outcome :=
  match ops with
  | [] => (b, [])
  | OQuery n r :: t =>
      let '(b1, o) := dur_for_attempt b n r in
      let '(b2, os) := run_ops b1 t in (b2, o :: os)
  | OWait r :: t =>
      let '(b1, o) := duration b r in
      let '(b2, os) := run_ops b1 t in (b2, o :: os)
  | OReset :: t => run_ops (reset b) t
  end.
