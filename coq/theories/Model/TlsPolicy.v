(* C04: the TLS policy of the client AS THE CODE DECIDES IT.

   1. [start_tls]: XMPPTransport.StartTLS (xmpp_transport.go): the configuration handed to
      crypto/tls (ServerName defaulting to the configured domain, InsecureSkipVerify), the
      handshake, and the second check VerifyHostname(Config.Domain) unless InsecureSkipVerify.
      What crypto/x509 decides about a certificate is abstract: [c_trusted] (the chain verifies
      against the roots in force and the certificate is within its validity period) and
      [c_names] (the names the certificate is valid for).

   2. [connect_fl]: Client.connect + NewSession with the TLS gate decided by the FLAGS the code
      reads -- transport.IsSecure() (XMPPTransport.isSecure, [p_code_secure]) and
      Session.TlsEnabled ([p_tls_enabled]) -- which live on objects re-used by every connection
      of a Client.  [reset]: the two assignments that make a new connection start from cleared
      flags (xmpp_transport.go Connect: t.isSecure = false; session.go NewSession: s.TlsEnabled =
      false).  [connect_fl true] is the code; it is proved equal to Session.connect (which has the
      same branch structure with the flag tests evaluated away).  [connect_fl false] is the code
      before fix 98e9755, kept for the recorded negative (D12).  The ghost [o_tls] of every write
      is the state of the real channel: false on a new TCP connection, true from a successful
      StartTLS on -- never derived from the flags.

   Executable definitions only. *)
From Coq Require Import List ZArith NArith Bool.
From XV Require Import Lib.Sx Model.Session.
Import ListNotations.

(* ------------------------------------------------------------------ the certificate decision *)
Record cert := {
  c_trusted : bool;             (* chain up to a root of the configuration in force, not expired *)
  c_names : list str }.         (* DNS names of the certificate *)

Record tlsconf := {
  t_skip : bool;                (* Config.TLSConfig.InsecureSkipVerify *)
  t_servername : str;           (* Config.TLSConfig.ServerName, [] when unset (or no TLSConfig) *)
  t_domain : str }.             (* Config.Domain *)

Definition valid_for (c : cert) (host : str) : bool := mem_str host (c_names c).

(* tlsConn.Handshake(): crypto/tls verifies chain and ServerName unless InsecureSkipVerify *)
Definition handshake_ok (t : tlsconf) (c : cert) : bool :=
  let sn := match t_servername t with [] => t_domain t | n => n end in   (* ServerName defaulting *)
  t_skip t || (c_trusted c && valid_for c sn).

(* StartTLS: handshake, then VerifyHostname(Config.Domain) unless InsecureSkipVerify; isSecure = true
   only after both *)
Definition start_tls (t : tlsconf) (c : cert) : bool :=
  handshake_ok t c && (t_skip t || valid_for c (t_domain t)).

(* With a ClientSessionCache in the TLS configuration crypto/tls may RESUME a session of an earlier
   connection of the client ([resumed]; the session is cached at handshake time, i.e. also when the
   domain check then refused the certificate).  On resumption crypto/tls checks the cached chain
   against ServerName again; StartTLS runs VerifyHostname(Domain) whether or not the session was
   resumed.  [skip_on_resume] = true is the variant that trusts a resumed session (not the code). *)
Definition start_tls_on (skip_on_resume : bool) (t : tlsconf) (c : cert) (resumed : bool) : bool :=
  handshake_ok t c && (t_skip t || (skip_on_resume && resumed) || valid_for c (t_domain t)).
Definition start_tls_r (t : tlsconf) (c : cert) (resumed : bool) : bool := start_tls_on false t c resumed.

(* ------------------------------------------------------------------ the gate, by the flags *)
(* s.startTlsIfSupported.  Result: what was written, the real channel afterwards, the flags, s.err
   (Some cut: set; cut = the connection was lost), the rest of the script, and what the client has
   consumed since its last request. *)
Definition start_tls_step (cfg : config) (tls_ok : bool) (p : persist) (f : features)
  (s2 seen : list sitem) : list out * bool * persist * option bool * list sitem * list sitem :=
  match f_tls f with
  | TlsNone =>
      (* not advertised: an error unless clear text was allowed *)
      ([], false, p, if c_insecure cfg then None else Some false, s2, seen)
  | _ =>
      let w := [o false RStartTls seen] in
      match read_proceed s2 with
      | None => (w, false, p, Some (is_cut s2), s2, seen)
      | Some s3 =>
          if tls_ok
          then (w, true, set_flags p true true, None, s3, [SProceed])  (* isSecure, TlsEnabled := true *)
          else (w, false, set_flags p false (p_tls_enabled p), Some false, s3, [SProceed])
      end
  end.

Definition connect_fl (reset : bool) (cfg : config) (dial_ok tls_ok : bool) (p0 : persist)
  (s : list sitem) : list out * result * persist :=
  if negb dial_ok then ([], Err true false, p0) else
  (* XMPPTransport.Connect: a new TCP connection; "t.isSecure = false" *)
  let p := if reset then set_flags p0 false (p_tls_enabled p0) else p0 in
  let w0 := [o false ROpen []] in
  match read_header s with
  | None => (w0, Err true false, p)
  | Some (id0, s1) =>
      (* NewSession: a new Session has TlsEnabled = false; a re-used one gets "s.TlsEnabled = false" *)
      let p := if reset || negb (p_has_session p) then set_flags p (p_code_secure p) false else p in
      match read_features s1 with
      | None => (w0, Err true (negb (is_cut s1)), drop_session p)
      | Some (f, s2) =>
          let seen0 := [SHeader id0; SFeatures f] in
          (* if !c.transport.IsSecure() { s.startTlsIfSupported(c.config) } *)
          let '(w1, chan, p, serr, s3, seen) :=
            if negb (p_code_secure p) then start_tls_step cfg tls_ok p f s2 seen0
            else ([], false, p, None, s2, seen0) in
          (* if !c.transport.IsSecure() && !c.config.Insecure { return nil, ConnError } *)
          if negb (p_code_secure p) && negb (c_insecure cfg) then
            (w0 ++ w1, Err true (negb (match serr with Some cut => cut | None => false end)), drop_session p)
          else
            (* if s.TlsEnabled { s.reset() }: restart the stream, read the features again *)
            let '(w2, serr, f, s4, seen) :=
              if p_tls_enabled p then
                let w := [o chan ROpen seen] in
                match read_header s3 with
                | None => (w, Some (Err true false), f, s3, seen)
                | Some (id1, s4) =>
                    match read_features s4 with
                    | None => (w, Some (Err false false), f, s4, seen)
                    | Some (f1, s5) => (w, None, f1, s5, [SHeader id1; SFeatures f1])
                    end
                end
              else ([], match serr with Some _ => Some (Err false false) | None => None end, f, s3, seen) in
            (* s.auth and everything after it do nothing once s.err is set *)
            match serr with
            | Some e => (w0 ++ w1 ++ w2, e, with_session p)
            | None =>
                let '(w, r, p') := step_auth cfg chan (with_session p) f s4 seen in
                (w0 ++ w1 ++ w2 ++ w, r, p')
            end
      end
  end.

Fixpoint run_conns_fl (reset : bool) (cfg : config) (p : persist) (cs : list conn)
  : list (list out * result * persist) :=
  match cs with
  | [] => []
  | c :: cs' =>
      let '(w, r, p1) := connect_fl reset cfg (k_dial c) (k_tls c) p (k_script c) in
      let p2 := match r with Ok => add_inbound p1 (k_traffic c) | _ => p1 end in
      (w, r, p2) :: run_conns_fl reset cfg p2 cs'
  end.

(* the flag says "secure" although no TLS was established on this connection *)
Definition stale_secure (w : list out) (p : persist) : bool := p_code_secure p && negb (existsb o_tls w).
Definition stale_tls_enabled (w : list out) (p : persist) : bool := p_tls_enabled p && negb (existsb o_tls w).
