(* Model of Go's encoding/base64.StdEncoding (RFC 4648 alphabet, '=' padding) as
   auth.go uses it: Encode over a whole byte string, and DecodeString (what a
   server does with the payload it receives).  Strings are BYTES (list N, every
   element < 256).  Executable definitions only.

   Encode: three bytes -> four characters, a trailing group of one or two bytes
   is padded with "==" / "=".
   Decode (non-strict, like StdEncoding without .Strict()): '\r' and '\n' are
   skipped wherever they occur; the rest must be groups of four alphabet
   characters, the last group possibly "xx==" or "xxx="; unused low bits of a
   padded group are ignored; anything else is CorruptInputError (None). *)
From Coq Require Import List NArith Bool.
From XV Require Import Lib.Sx.
Import ListNotations.
Open Scope N_scope.

Definition b64_pad : N := 61.  (* '=' *)

(* 6-bit value -> character of "A-Za-z0-9+/" *)
Definition b64_char (n : N) : N :=
  if n <? 26 then 65 + n            (* 'A' + n *)
  else if n <? 52 then 71 + n       (* 'a' + (n - 26) *)
  else if n <? 62 then n - 4        (* '0' + (n - 52) *)
  else if n =? 62 then 43           (* '+' *)
  else 47.                          (* '/' *)

(* character -> 6-bit value (decodeMap; None = 0xff) *)
Definition b64_val (c : N) : option N :=
  if (65 <=? c) && (c <=? 90) then Some (c - 65)
  else if (97 <=? c) && (c <=? 122) then Some (c - 71)
  else if (48 <=? c) && (c <=? 57) then Some (c + 4)
  else if c =? 43 then Some 62
  else if c =? 47 then Some 63
  else None.

Fixpoint b64_encode (l : str) : str :=
  match l with
  | [] => []
  | [a] => [b64_char (a / 4); b64_char ((a mod 4) * 16); b64_pad; b64_pad]
  | [a; b] =>
      [b64_char (a / 4); b64_char ((a mod 4) * 16 + b / 16);
       b64_char ((b mod 16) * 4); b64_pad]
  | a :: b :: c :: r =>
      b64_char (a / 4) :: b64_char ((a mod 4) * 16 + b / 16)
      :: b64_char ((b mod 16) * 4 + c / 64) :: b64_char (c mod 64)
      :: b64_encode r
  end.

(* a full group: four alphabet characters -> three bytes *)
Definition dec_full (a b c d : N) : option str :=
  do va <- b64_val a; do vb <- b64_val b; do vc <- b64_val c; do vd <- b64_val d;
  Some [va * 4 + vb / 16; (vb mod 16) * 16 + vc / 4; (vc mod 4) * 64 + vd].

(* the last group when its fourth character is '=' *)
Definition dec_padded (a b c : N) : option str :=
  do va <- b64_val a; do vb <- b64_val b;
  if c =? b64_pad then Some [va * 4 + vb / 16]
  else do vc <- b64_val c; Some [va * 4 + vb / 16; (vb mod 16) * 16 + vc / 4].

Fixpoint dec_groups (l : str) : option str :=
  match l with
  | [] => Some []
  | a :: b :: c :: d :: r =>
      if d =? b64_pad then
        match r with
        | [] => dec_padded a b c
        | _ :: _ => None                 (* data after the padding *)
        end
      else
        do x <- dec_full a b c d; do rest <- dec_groups r; Some (x ++ rest)
  | _ => None                            (* length not a multiple of four *)
  end.

Definition is_newline (c : N) : bool := (c =? 10) || (c =? 13).

Definition b64_decode (l : str) : option str :=
  dec_groups (filter (fun c => negb (is_newline c)) l).

(* the characters base64 text is made of: A-Z a-z 0-9 + / = *)
Definition is_b64_text (c : N) : bool :=
  ((65 <=? c) && (c <=? 90)) || ((97 <=? c) && (c <=? 122)) ||
  ((48 <=? c) && (c <=? 57)) || (c =? 43) || (c =? 47) || (c =? 61).

(* a byte string: every element below 256 *)
Definition is_bytes (l : str) : bool := forallb (fun x => x <? 256) l.
