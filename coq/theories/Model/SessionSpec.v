(* Declarative reading of RFC 6120 sections 4-7 + XEP-0198: which server behaviours
   complete a negotiation.  Independent of Model/Session.v's step functions;
   Proofs/SessionSpecP.v shows that [connect] succeeds exactly on these. *)
From Coq Require Import List ZArith NArith Bool.
From XV Require Import Lib.Sx Model.Session.
Import ListNotations.

Definition has_id (p : persist) : bool := negb (str_eqb (p_sm_id p) []).

(* stream management enabling, when requested and offered *)
Definition enable_completes (en : bool) (f : features) (s : list sitem) : Prop :=
  if f_sm f && en then exists id r rest, s = SEnabled id r :: rest else True.

(* legacy session, when mandatory *)
Definition session_completes (en : bool) (f : features) (s : list sitem) : Prop :=
  match f_sess f with
  | SessMandatory => exists pl e s3, s = SIq TResult pl e :: s3 /\ enable_completes en f s3
  | _ => enable_completes en f s
  end.

(* bind result carrying a bind payload *)
Definition bind_completes (en : bool) (f : features) (s : list sitem) : Prop :=
  exists jid e s2, s = SIq TResult (PlBind jid) e :: s2 /\ session_completes en f s2.

(* after the post-authentication restart: a matching resumption, or (after a refusal
   when resumption was attempted) bind, session, enable *)
Definition tail_completes (p : persist) (f : features) (s : list sitem) : Prop :=
  if f_sm f && has_id p then
    (exists rest, s = SResumed (p_sm_id p) :: rest) \/
    (exists s1, s = SFailed :: s1 /\ bind_completes (p_sm_enable p) f s1)
  else bind_completes (p_sm_enable p) f s.

(* SASL with a mechanism both sides support, success, stream restart *)
Definition auth_completes (cfg : config) (p : persist) (f : features) (s : list sitem) : Prop :=
  exists m, choose_mech (c_mechs cfg) (f_mechs f) = Some m /\ implemented m = true /\
  exists id f2 s3, s = SSuccess :: SHeader id :: SFeatures f2 :: s3 /\ tail_completes p f2 s3.

(* stream open; TLS when offered (mandatory unless Insecure); then the rest *)
Definition completes (cfg : config) (dial tls : bool) (p : persist) (s : list sitem) : Prop :=
  dial = true /\
  exists id f s2, s = SHeader id :: SFeatures f :: s2 /\
    match f_tls f with
    | TlsNone => c_insecure cfg = true /\ auth_completes cfg p f s2
    | _ => tls = true /\ exists id1 f1 s5,
             s2 = SProceed :: SHeader id1 :: SFeatures f1 :: s5 /\ auth_completes cfg p f1 s5
    end.

(* over the WebSocket transport: stream open, no STARTTLS (the transport is secure from the
   start or not at all: then only with Insecure), then the rest *)
Definition completes_ws (cfg : config) (dial secure : bool) (p : persist) (s : list sitem) : Prop :=
  dial = true /\ (secure = true \/ c_insecure cfg = true) /\
  exists id f s2, s = SHeader id :: SFeatures f :: s2 /\ auth_completes cfg p f s2.

(* the order in which requests may appear (RFC 6120 order), as a recogniser:
   open [starttls open] [auth [open [resume] [bind [session] [enable]]]] *)
Definition after_bind (l : list creq) : bool :=
  match l with
  | [] | [RSession _] | [REnable _] | [RSession _; REnable _] => true
  | _ => false
  end.
Definition from_bind (l : list creq) : bool :=
  match l with
  | [] => true
  | RBind _ _ :: l' => after_bind l'
  | _ => false
  end.
Definition ordered_tail (l : list creq) : bool :=
  match l with
  | RResume _ _ :: l' => from_bind l'
  | _ => from_bind l
  end.
Definition ordered_auth (l : list creq) : bool :=
  match l with
  | [] => true
  | [RAuth _] => true
  | RAuth _ :: ROpen :: l' => ordered_tail l'
  | _ => false
  end.
Definition ordered (l : list creq) : bool :=
  match l with
  | [] => true
  | ROpen :: RStartTls :: ROpen :: l' => ordered_auth l'
  | [ROpen; RStartTls] => true
  | ROpen :: l' => ordered_auth l'
  | _ => false
  end.

(* ---- which requests the client has any business sending (C03) ----
   relative to its configuration, the state it holds and what this server offered:
   <starttls/> only when offered; <auth/> only with a mechanism of the credential that the
   code implements and that some features element of this script lists; <resume/> only with
   the id and count held, on a stream offering stream management; the bind request carries
   the configured resource; the legacy session only when a features element makes it
   mandatory; <enable/> only when the application asked for stream management and the
   server offers it, with the resume flag the application wished for unless an earlier
   <enabled/> of this Client's history did not grant resumption ([resume_wish]). *)
Definition offered (script : list sitem) (P : features -> Prop) : Prop :=
  exists f, In (SFeatures f) script /\ P f.
Definition justified (cfg : config) (p : persist) (script : list sitem) (r : creq) : Prop :=
  match r with
  | ROpen => True
  | RStartTls => offered script (fun f => f_tls f <> TlsNone)
  | RAuth m => In m (c_mechs cfg) /\ implemented m = true /\ offered script (fun f => In m (f_mechs f))
  | RResume prev h => prev = p_sm_id p /\ prev <> [] /\ h = p_inbound p /\ offered script (fun f => f_sm f = true)
  | RBind x _ => x = c_resource cfg
  | RSession _ => offered script (fun f => f_sess f = SessMandatory)
  | REnable b => p_sm_enable p = true /\ b = resume_wish cfg p /\ offered script (fun f => f_sm f = true)
  end.

(* ---- the inbound count across a history of connections (C09) ---- *)
Open Scope N_scope.
Definition no_bind (w : list out) : Prop := forall x i, ~ In (RBind x i) (reqs w).
Definition has_enable (w : list out) : Prop := exists b, In (REnable b) (reqs w).
Definition has_resume (w : list out) : Prop := exists prev h, In (RResume prev h) (reqs w).
Definition is_bind (r : creq) : bool := match r with RBind _ _ => true | _ => false end.
Definition has_bindb (w : list out) : bool := existsb is_bind (reqs w).

(* what one connection can have done to the stream-management state held on the Client:
   (A) nothing is held afterwards (and the count is zero, or no id was held before either and
   the count is untouched) - and then, unless nothing was held before, the client had got as
   far as sending <resume/> or a bind request: a failure before that (refused dial, TLS,
   authentication, features that never arrive) never costs the state; (B) a fresh session: the id is one this server handed out
   in an <enabled/> of this very connection, the count starts at zero, a bind was made and
   the negotiation succeeded; (C) the state held before is kept (id, count, queue): then no
   bind request was made, and if a <resume/> was sent at all, either the negotiation succeeded
   and the server's reply to it was <resumed/> with exactly the id held, or the connection
   went away before any reply arrived (then the negotiation failed). *)
Definition issued (s : list sitem) (id : str) : Prop := exists r, In (SEnabled id r) s.
Definition confirmed (s : list sitem) (id : str) : Prop := exists pre rest, s = pre ++ SResumed id :: rest.
(* the connection went away where the answer to <resume/> was awaited: the script ends (or the
   connection is closed) right there - at this step, or, seen from a whole connection, right
   after a features element *)
Definition unanswered (s : list sitem) : Prop :=
  conn_lost s = true \/ exists pre f rest, s = pre ++ SFeatures f :: rest /\ conn_lost rest = true.
Definition sm_dropped (p : persist) (w : list out) (p1 : persist) : Prop :=
  p_sm_id p1 = [] /\ (p_inbound p1 = 0 \/ (p_sm_id p = [] /\ p_inbound p1 = p_inbound p)) /\
  ((has_resume w \/ has_bindb w = true) \/ (p_sm_id p = [] /\ p_inbound p1 = p_inbound p)).
Definition sm_fresh (s : list sitem) (w : list out) (r : result) (p1 : persist) : Prop :=
  issued s (p_sm_id p1) /\ p_inbound p1 = 0 /\ p_has_queue p1 = true /\ r = Ok /\ has_bindb w = true /\
  has_enable w.
Definition sm_kept (p : persist) (s : list sitem) (w : list out) (r : result) (p1 : persist) : Prop :=
  p_sm_id p1 = p_sm_id p /\ p_inbound p1 = p_inbound p /\ p_has_queue p1 = p_has_queue p /\
  has_bindb w = false /\
  (has_resume w -> (r = Ok /\ confirmed s (p_sm_id p)) \/ (r <> Ok /\ unanswered s)).
Definition sm_outcome (p : persist) (s : list sitem) (w : list out) (r : result) (p1 : persist) : Prop :=
  sm_dropped p w p1 \/ sm_fresh s w r p1 \/ sm_kept p s w r p1.

Fixpoint hist_ok (p : persist) (cs : list conn) (rs : list (list out * result * persist)) : Prop :=
  match cs, rs with
  | [], [] => True
  | c :: cs', (w, r, p2) :: rs' =>
      (* every <resume/> of this connection carries the id and the count held *)
      (forall prev h, In (RResume prev h) (reqs w) -> prev = p_sm_id p /\ h = p_inbound p) /\
      (* the session was resumed: the count held afterwards is the old one plus what was received on it *)
      (r = Ok -> no_bind w -> p_inbound p2 = p_inbound p + k_traffic c /\ p_sm_id p2 = p_sm_id p) /\
      (* stream management newly enabled: the count held afterwards is what was received on the new session *)
      (r = Ok -> has_enable w -> p_inbound p2 = k_traffic c) /\
      (* a new session without stream management: no id is held, nothing will be reported to anybody *)
      (r = Ok -> has_bindb w = true -> ~ has_enable w -> p_sm_id p2 = []) /\
      (* a failed attempt: the id and the count are both as before - always when the failure came before the
         client had sent <resume/> or a bind request (refused dial, features that never arrive, TLS,
         authentication, stream restart: the transient failures) - or nothing is held any more, which takes a
         <resume/> or a bind request on this connection *)
      (r <> Ok -> (p_sm_id p2 = p_sm_id p /\ p_inbound p2 = p_inbound p) \/
                  (p_sm_id p2 = [] /\ p_inbound p2 = 0 /\ (has_resume w \/ has_bindb w = true))) /\
      hist_ok p2 cs' rs'
  | _, _ => False
  end.

(* The count of the stream-managed session so far, computed from the history alone (which
   connections succeeded, which of them bound a new session, how many stanzas arrived on
   each) and NOT from the client's state: a connection that binds starts a new session
   (its count is what arrives on that connection), one that succeeds without a bind
   continues the session, a failed attempt receives nothing.  [session_counts a cs rs]
   lists, for every connection, the count BEFORE it. *)
Fixpoint session_counts (a : N) (cs : list conn) (rs : list (list out * result * persist)) : list N :=
  match cs, rs with
  | c :: cs', (w, r, _) :: rs' =>
      a :: session_counts (match r with
                           | Ok => if has_bindb w then k_traffic c else a + k_traffic c
                           | Err _ _ => a
                           end) cs' rs'
  | _, _ => []
  end.

(* ---- resumption over a history of connections (C11) ---- *)
Fixpoint hist11 (p : persist) (cs : list conn) (rs : list (list out * result * persist)) : Prop :=
  match cs, rs with
  | [], [] => True
  | c :: cs', (w, r, p2) :: rs' =>
      (forall prev h, In (RResume prev h) (reqs w) ->
         prev = p_sm_id p /\ p_sm_id p <> [] /\ h = p_inbound p) /\
      (exists p1, p2 = match r with Ok => add_inbound p1 (k_traffic c) | Err _ _ => p1 end /\
                  sm_outcome p (k_script c) w r p1) /\
      hist11 p2 cs' rs'
  | _, _ => False
  end.
