(* Declarative reading of RFC 6120 sections 4-7 + XEP-0198: which server behaviours
   complete a negotiation.  Independent of Model/Session.v's step functions;
   Proofs/SessionSpecP.v shows that [connect] succeeds exactly on these. *)
From Coq Require Import List ZArith NArith Bool.
From XV Require Import Lib.Sx Model.Session.
Import ListNotations.

Definition has_id (p : persist) : bool := negb (str_eqb (p_sm_id p) []).

(* stream management enabling, when requested and offered *)
Definition enable_completes (en : bool) (f : features) (s : list sitem) : Prop :=
  if f_sm f && en then exists id r rest, s = SEnabled id r :: rest else True.

(* legacy session, when mandatory *)
Definition session_completes (en : bool) (f : features) (s : list sitem) : Prop :=
  match f_sess f with
  | SessMandatory => exists pl e s3, s = SIq TResult pl e :: s3 /\ enable_completes en f s3
  | _ => enable_completes en f s
  end.

(* bind result carrying a bind payload *)
Definition bind_completes (en : bool) (f : features) (s : list sitem) : Prop :=
  exists jid e s2, s = SIq TResult (PlBind jid) e :: s2 /\ session_completes en f s2.

(* after the post-authentication restart: a matching resumption, or (after a refusal
   when resumption was attempted) bind, session, enable *)
Definition tail_completes (p : persist) (f : features) (s : list sitem) : Prop :=
  if f_sm f && has_id p then
    (exists rest, s = SResumed (p_sm_id p) :: rest) \/
    (exists s1, s = SFailed :: s1 /\ bind_completes (p_sm_enable p) f s1)
  else bind_completes (p_sm_enable p) f s.

(* SASL with a mechanism both sides support, success, stream restart *)
Definition auth_completes (cfg : config) (p : persist) (f : features) (s : list sitem) : Prop :=
  exists m, choose_mech (c_mechs cfg) (f_mechs f) = Some m /\ implemented m = true /\
  exists id f2 s3, s = SSuccess :: SHeader id :: SFeatures f2 :: s3 /\ tail_completes p f2 s3.

(* stream open; TLS when offered (mandatory unless Insecure); then the rest *)
Definition completes (cfg : config) (dial tls : bool) (p : persist) (s : list sitem) : Prop :=
  dial = true /\
  exists id f s2, s = SHeader id :: SFeatures f :: s2 /\
    match f_tls f with
    | TlsNone => c_insecure cfg = true /\ auth_completes cfg p f s2
    | _ => tls = true /\ exists id1 f1 s5,
             s2 = SProceed :: SHeader id1 :: SFeatures f1 :: s5 /\ auth_completes cfg p f1 s5
    end.

(* the order in which requests may appear (RFC 6120 order), as a recogniser:
   open [starttls open] [auth [open [resume] [bind [session] [enable]]]] *)
Definition after_bind (l : list creq) : bool :=
  match l with
  | [] | [RSession _] | [REnable _] | [RSession _; REnable _] => true
  | _ => false
  end.
Definition from_bind (l : list creq) : bool :=
  match l with
  | [] => true
  | RBind _ _ :: l' => after_bind l'
  | _ => false
  end.
Definition ordered_tail (l : list creq) : bool :=
  match l with
  | RResume _ _ :: l' => from_bind l'
  | _ => from_bind l
  end.
Definition ordered_auth (l : list creq) : bool :=
  match l with
  | [] => true
  | [RAuth _] => true
  | RAuth _ :: ROpen :: l' => ordered_tail l'
  | _ => false
  end.
Definition ordered (l : list creq) : bool :=
  match l with
  | [] => true
  | ROpen :: RStartTls :: ROpen :: l' => ordered_auth l'
  | [ROpen; RStartTls] => true
  | ROpen :: l' => ordered_auth l'
  | _ => false
  end.

(* ---- the inbound count across a history of connections (C09) ---- *)
Open Scope N_scope.
Definition no_bind (w : list out) : Prop := forall x i, ~ In (RBind x i) (reqs w).
Definition has_enable (w : list out) : Prop := exists b, In (REnable b) (reqs w).
Fixpoint hist_ok (p : persist) (cs : list conn) (rs : list (list out * result * persist)) : Prop :=
  match cs, rs with
  | [], [] => True
  | c :: cs', (w, r, p2) :: rs' =>
      (* every <resume/> of this connection carries the id and the count held *)
      (forall prev h, In (RResume prev h) (reqs w) -> prev = p_sm_id p /\ h = p_inbound p) /\
      (* the session was resumed: the count held afterwards is the old one plus what was received on it *)
      (r = Ok -> no_bind w -> p_inbound p2 = p_inbound p + k_traffic c /\ p_sm_id p2 = p_sm_id p) /\
      (* stream management newly enabled: the count held afterwards is what was received on the new session *)
      (r = Ok -> has_enable w -> p_inbound p2 = k_traffic c) /\
      hist_ok p2 cs' rs'
  | _, _ => False
  end.

