(* Model of the send path (C08): Client.Send / SendRaw / SendIQ (client.go),
   Component.Send / SendRaw / SendIQ (component.go), XMPPTransport.Write
   (xmpp_transport.go) and streamLogger.Write (stream_logger.go).

   Strings are BYTE strings.  The serialisation xml.Marshal(packet) is an INPUT
   (the [data] field of an op): the codec is C01's subject, this model is about
   what the send path does with the bytes.

   Executable definitions and inductive relations only; proofs in Proofs/SendP.v. *)
From Coq Require Import List ZArith NArith Bool Arith.
From XV Require Import Lib.Sx Model.Queue.
Import ListNotations.

(* ------------------------------------------------------------------ writers *)

(* What one call of an io.Writer does with its argument p:
   WOk      : takes all of p, returns (len p, nil)
   WErr n   : takes the first n bytes, returns (n, err) with err != nil
   WShort n : takes the first n bytes, returns (n, nil).  For n < len p this
              breaks the io.Writer contract; streamLogger checks for it, the
              bare transport does not (the byte count is ignored by
              sendWithWriter). *)
Inductive wres := WOk | WErr (n : nat) | WShort (n : nat).

(* write-fault oracle: outcome of the k-th call (0-based) of one writer *)
Definition oracle := nat -> wres.

Definition accepted (r : wres) (p : str) : str :=
  match r with WOk => p | WErr n => firstn n p | WShort n => firstn n p end.
Definition w_is_err (r : wres) : bool :=
  match r with WErr _ => true | _ => false end.
(* n == len(p) *)
Definition w_whole (r : wres) (p : str) : bool :=
  Nat.eqb (length (accepted r p)) (length p).

(* the bytes a writer has taken, given the arguments of its calls (oldest
   first), the first of them being call number k *)
Fixpoint stream (o : oracle) (k : nat) (calls : list str) : str :=
  match calls with
  | [] => []
  | p :: rest => accepted (o k) p ++ stream o (S k) rest
  end.

(* ------------------------------------------------------------------ state *)

(* s_sock / s_log: arguments of every Write call made on the socket / on the
   log file so far, oldest first; s_queue: the UnAckQueue object (Model/Queue.v: entries and lastId). *)
Record state := mkS { s_sock : list str; s_log : list str; s_queue : qstate }.

Definition st0 : state := mkS [] [] q_init.

Definition sock_write (so : oracle) (st : state) (p : str) : state * wres :=
  (mkS (s_sock st ++ [p]) (s_log st) (s_queue st), so (length (s_sock st))).
Definition log_write (lo : oracle) (st : state) (p : str) : state * wres :=
  (mkS (s_sock st) (s_log st ++ [p]) (s_queue st), lo (length (s_log st))).

(* the error value a failed transport write returns *)
Inductive werr :=
| ESock    (* the socket's own error *)
| ELog     (* the log file's own error *)
| EShort   (* io.ErrShortWrite *)
| ENoRW.   (* XMPPTransport.Write before Connect: "cannot write: not connected, no readwriter" *)

Definition log_prefix : str := [83; 69; 78; 68; 58; 10]%N.   (* "SEND:\n" *)
Definition log_sep : str := [10; 10]%N.                       (* "\n\n" *)

(* streamLogger.Write: prefix to the log (result ignored); then for w in
   [socket, logFile]: n, err = w.Write(p); err => return; n != len p =>
   io.ErrShortWrite; finally the separator to the log (result ignored). *)
Definition logger_write (so lo : oracle) (st : state) (p : str) : state * option werr :=
  let '(st1, _) := log_write lo st log_prefix in
  let '(st2, r) := sock_write so st1 p in
  if w_is_err r then (st2, Some ESock) else
  if negb (w_whole r p) then (st2, Some EShort) else
  let '(st3, r') := log_write lo st2 p in
  if w_is_err r' then (st3, Some ELog) else
  if negb (w_whole r' p) then (st3, Some EShort) else
  let '(st4, _) := log_write lo st3 log_sep in
  (st4, None).

(* ------------------------------------------------------------------ config *)

Inductive role := RClient | RComponent.

(* the transport field: nil (a Component before Connect) / a transport that was
   never connected (what NewClient leaves: readWriter == nil) / connected *)
Inductive conn := CNone | CFresh | CUp.
Definition is_up (c : conn) : bool := match c with CUp => true | _ => false end.

(* c_sm: the stream management bookkeeping is active: Config.StreamManagementEnable
   and the client has a session object (before Connect and after a failed Connect or
   Resume there is none: nothing is held then and the write goes ahead; clients
   only); c_log: a log file is set (readWriter = streamLogger).  CFresh stands for
   any transport object without a connection: XMPPTransport with readWriter == nil,
   WebsocketTransport with wsConn == nil; both return an error and write nothing. *)
Record config := mkC { c_role : role; c_sm : bool; c_log : bool; c_conn : conn; c_ws : bool }.
(* c_ws: the transport is the WebsocketTransport (clients only), whose Write is
   its own: see ws_write.  CFresh also stands for a client whose send gate is
   closed (a connection attempt is in progress or has failed: ErrNoSession):
   an error, nothing written, the held packet dropped again. *)

(* WebsocketTransport.Write: with a log file, ONE log write "SEND:\n" ++ p ++ "\n\n"
   BEFORE the socket, its result ignored; then one text message carrying p
   (wsConn.Write); the byte count returned is len(p) whatever happened, the error
   is the socket's.  No short-write check: there is no count to check.  s_sock
   is then the list of MESSAGES. *)
Definition ws_write (logging : bool) (so lo : oracle) (st : state) (p : str)
  : state * option werr :=
  let st1 := if logging then fst (log_write lo st (log_prefix ++ p ++ log_sep)) else st in
  let '(st2, r) := sock_write so st1 p in
  (st2, if w_is_err r then Some ESock else None).

(* XMPPTransport.Write = readWriter.Write (an error when readWriter is nil);
   without a logger readWriter is the
   socket and sendWithWriter looks at the error only. *)
Definition transport_write (cfg : config) (so lo : oracle) (st : state) (p : str)
  : state * option werr :=
  if is_up (c_conn cfg) then
    if c_ws cfg then ws_write (c_log cfg) so lo st p else
    if c_log cfg then logger_write so lo st p
    else let '(st', r) := sock_write so st p in
         (st', if w_is_err r then Some ESock else None)
  else (st, Some ENoRW).

(* ------------------------------------------------------------------ ops *)

(* TOther: result, error, anything else (ErrCanOnlySendGetOrSetIq); TPending: get or
   set, but a request with the same id is still awaiting its response
   (ErrIQIdAlreadyPending): neither registers nor writes anything *)
Inductive iqtype := TGet | TSet | TOther | TPending.
Definition iq_refused (t : iqtype) : bool :=
  match t with TGet | TSet => false | TOther | TPending => true end.

Inductive op :=
(* nonza: the packet is NOT a stanza: its serialisation (the raw string) does not begin
   with a message, presence or iq element of the client namespace - an acknowledgement
   request or answer, another nonza, a white space keepalive, the empty string, a nil
   packet (client.go isStanza).  Stream management holds and numbers exactly the stanzas,
   which is what the server counts. *)
| OSend (data : str) (nonza : bool)
| OSendRaw (s : str) (nonza : bool)
| OSendIQ (data : str) (t : iqtype).

Definition op_data (o : op) : str :=
  match o with OSend d _ => d | OSendRaw s _ => s | OSendIQ d _ => d end.

Inductive result :=
| RNil                  (* nil *)
| RErr (e : werr)       (* the transport's error, returned as is *)
| RWrapped (e : werr)   (* Component.Send: "cannot send packet " + err *)
| RReject               (* ErrCanOnlySendGetOrSetIq / ErrIQIdAlreadyPending *)
| RNotConn.             (* "client/component is not connected" *)

Definition push_if (b : bool) (st : state) (data : str) : state :=
  if b then mkS (s_sock st) (s_log st) (q_push (s_queue st) data) else st.

(* UnAckQueue.DropLast: the entry of the last Push leaves the queue again and its
   sequence number is free for the next stanza *)
Definition q_drop_last (q : qstate) : qstate :=
  match rev (fst q) with
  | (i, _) :: _ => if Z.eqb i (snd q) then (removelast (fst q), Z.pred (snd q)) else q
  | [] => q
  end.
Definition drop_if (b : bool) (st : state) : state :=
  if b then mkS (s_sock st) (s_log st) (q_drop_last (s_queue st)) else st.

(* Client.writeHeld after the push (all under sendMu): a packet the transport
   refuses was not sent on the session and leaves the queue again *)
Definition hold_write (cfg : config) (so lo : oracle) (st : state) (hold : bool) (data : str)
  : state * option werr :=
  let st1 := push_if hold st data in
  let '(st2, e) := transport_write cfg so lo st1 data in
  match e with
  | None => (st2, None)
  | Some e' => (drop_if hold st2, Some e')
  end.

(* Client.Send / Component.Send after xml.Marshal *)
Definition send (cfg : config) (so lo : oracle) (st : state) (data : str) (nonza : bool)
  : state * result :=
  match c_conn cfg with CNone => (st, RNotConn) | _ =>
  match c_role cfg with
  | RClient =>
      let '(st2, e) := hold_write cfg so lo st (c_sm cfg && negb nonza) data in
      (st2, match e with None => RNil | Some e' => RErr e' end)
  | RComponent =>
      let '(st2, e) := hold_write cfg so lo st false data in
      (st2, match e with None => RNil | Some e' => RWrapped e' end)
  end end.

(* Client.SendRaw / Component.SendRaw *)
Definition send_raw (cfg : config) (so lo : oracle) (st : state) (s : str) (nonza : bool)
  : state * result :=
  match c_conn cfg with CNone => (st, RNotConn) | _ =>
  match c_role cfg with
  | RClient =>
      let '(st2, e) := hold_write cfg so lo st (c_sm cfg && negb nonza) s in
      (st2, match e with None => RNil | Some e' => RErr e' end)
  | RComponent =>
      let '(st2, e) := hold_write cfg so lo st false s in
      (st2, match e with None => RNil | Some e' => RErr e' end)
  end end.

Definition step (cfg : config) (so lo : oracle) (st : state) (o : op) : state * result :=
  match o with
  | OSend d nz => send cfg so lo st d nz
  | OSendRaw s nz => send_raw cfg so lo st s nz
  | OSendIQ d t =>
      if iq_refused t then (st, RReject) else send cfg so lo st d false
  end.

Fixpoint run (cfg : config) (so lo : oracle) (st : state) (ops : list op)
  : list result * state :=
  match ops with
  | [] => ([], st)
  | o :: rest =>
      let '(st1, r) := step cfg so lo st o in
      let '(rs, st2) := run cfg so lo st1 rest in
      (r :: rs, st2)
  end.

(* does the op reach a socket write? *)
Definition attempts (cfg : config) (o : op) : bool :=
  match o with
  | OSendIQ _ t => negb (iq_refused t) && is_up (c_conn cfg)
  | _ => is_up (c_conn cfg)
  end.

(* does the op get as far as transport.Write (after the queue push)? *)
Definition reaches (cfg : config) (o : op) : bool :=
  match o with
  | OSendIQ _ t => negb (iq_refused t) && match c_conn cfg with CNone => false | _ => true end
  | _ => match c_conn cfg with CNone => false | _ => true end
  end.

(* the transport writes a sender's op list stands for *)
Definition writes_of (cfg : config) (ops : list op) : list str :=
  map op_data (filter (attempts cfg) ops).

(* would the transport write of p succeed in state st? *)
Definition write_ok (cfg : config) (so lo : oracle) (st : state) (p : str) : bool :=
  let rs := so (length (s_sock st)) in
  if c_ws cfg then negb (w_is_err rs) else
  if c_log cfg then
    let rl := lo (S (length (s_log st))) in
    negb (w_is_err rs) && w_whole rs p && negb (w_is_err rl) && w_whole rl p
  else negb (w_is_err rs).

(* does the transport itself check the byte count of the socket write?  Only the
   stream logger of the TCP transport does. *)
Definition checks_count (cfg : config) : bool := negb (c_ws cfg) && c_log cfg.

(* a writer that honours the io.Writer contract never returns n < len p with a
   nil error *)
Definition conforming (o : oracle) : Prop :=
  forall k, match o k with WShort _ => False | _ => True end.
Definition healthy (o : oracle) : Prop := forall k, o k = WOk.

(* per-op observation for the correspondence: result, socket calls and log
   calls the op caused *)
Fixpoint run_obs (cfg : config) (so lo : oracle) (st : state) (ops : list op)
  : list (result * list str * list str) * state :=
  match ops with
  | [] => ([], st)
  | o :: rest =>
      let '(st1, r) := step cfg so lo st o in
      let '(rs, st2) := run_obs cfg so lo st1 rest in
      ((r, skipn (length (s_sock st)) (s_sock st1), skipn (length (s_log st)) (s_log st1)) :: rs, st2)
  end.

(* ------------------------------------------------------------------ concurrency *)

(* n senders, sender i still has the list (nth i) of whole strings to write;
   the wire is the list of transport Write calls made so far.  One step = one
   sender's next WHOLE write (transport writes are atomic: net.Conn.Write /
   tls.Conn.Write / websocket Conn.Write serialise concurrent callers). *)
Definition cstate (A : Type) : Type := (list (list A) * list A)%type.

Inductive cstep {A : Type} : cstate A -> cstate A -> Prop :=
| cstep_write : forall pre x rest post w,
    cstep (pre ++ (x :: rest) :: post, w) (pre ++ rest :: post, w ++ [x]).

Inductive creach {A : Type} : cstate A -> cstate A -> Prop :=
| creach_refl : forall s, creach s s
| creach_step : forall s1 s2 s3, cstep s1 s2 -> creach s2 s3 -> creach s1 s3.

Definition all_done {A : Type} (ls : list (list A)) : Prop := Forall (fun l => l = []) ls.

(* w is a merge of the lists ls: every element of every list exactly once,
   each list's own order kept *)
Inductive interleavings {A : Type} : list (list A) -> list A -> Prop :=
| il_done : forall ls, all_done ls -> interleavings ls []
| il_pick : forall pre x rest post w,
    interleavings (pre ++ rest :: post) w ->
    interleavings (pre ++ (x :: rest) :: post) (x :: w).

(* executable run of the LTS under a schedule (list of sender indexes) *)
Fixpoint take_at {A : Type} (i : nat) (ls : list (list A)) {struct ls}
  : option (A * list (list A)) :=
  match ls with
  | [] => None
  | l :: ls' =>
      match i with
      | O => match l with [] => None | x :: r => Some (x, r :: ls') end
      | S j => match take_at j ls' with
               | None => None
               | Some (x, ls'') => Some (x, l :: ls'')
               end
      end
  end.

(* (wire, what is left, schedule was executable) *)
Fixpoint run_sched {A : Type} (ls : list (list A)) (sched : list nat)
  : list A * list (list A) * bool :=
  match sched with
  | [] => ([], ls, true)
  | i :: s' =>
      match take_at i ls with
      | None => ([], ls, false)
      | Some (x, ls') =>
          let '(w, r, ok) := run_sched ls' s' in (x :: w, r, ok)
      end
  end.

Definition all_doneb {A : Type} (ls : list (list A)) : bool :=
  forallb (fun l => match l with [] => true | _ => false end) ls.

(* the byte stream the peer reads *)
Definition wire_bytes (w : list str) : str := concat w.
