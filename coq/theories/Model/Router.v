(* Model of the packet router (router.go): Router.route / Router.Match / Route.Match,
   nameMatcher / nsTypeMatcher / nsIQMatcher with their builder methods
   Packet / StanzaType / IQNamespaces, iqNotImplemented and IQ.MakeError
   (stanza/iq.go).  Executable definitions only.

   Strings are BYTES (Go compares strings with ==, i.e. byte-wise).  Packet and
   StanzaType lower-case their arguments with strings.ToLower; the model lower-cases
   ASCII letters only, so the model is faithful for ASCII arguments ([ascii], the stated
   domain of the matcher theorems).  Go's simple case mapping also sends some non-ASCII
   letters to ASCII ones (U+0130 to i, U+212A KELVIN SIGN to k, U+017F LONG S to s), so
   Packet("\u0130Q") accepts IQs: for a non-ASCII argument the harness hands the model the
   string as strings.ToLower returns it (the lower-casing is then Go's, the matching the
   model's) and the direct oracle judges it by strings.ToLower.  IQNamespaces keeps its arguments verbatim:
   namespace names are case-sensitive.  Packet fields are arbitrary bytes: they are
   only ever compared, never transformed.

   Every route has a handler: a route registered without one (NewRoute() or Packet(..)
   alone) is a nil-interface call when it is the first match - a configuration error outside
   the property's "the handler of the first registered route".
   stanza.SMAnswer is a POther like any other non-stanza packet for every Sender but a
   *Client, for which route() first retransmits unacknowledged stanzas (C10, not through
   Sender.Send) and then routes it the same way.  Out of this model: the concurrency of the
   IQ-result table (C07: here the table is a plain list of pending ids). *)
From Coq Require Import List ZArith NArith Bool.
From XV Require Import Lib.Sx.
Import ListNotations.
Open Scope N_scope.

(* ---- strings ---- *)
Definition lower_byte (c : N) : N :=
  if (65 <=? c) && (c <=? 90) then c + 32 else c.
Definition lower (s : str) : str := map lower_byte s.
(* the domain on which [lower] is strings.ToLower *)
Definition ascii (s : str) : Prop := Forall (fun c => c < 128) s.

Definition s_message : str := [109;101;115;115;97;103;101].
Definition s_iq : str := [105;113].
Definition s_presence : str := [112;114;101;115;101;110;99;101].
Definition s_normal : str := [110;111;114;109;97;108].
Definition s_get : str := [103;101;116].
Definition s_set : str := [115;101;116].
Definition s_error : str := [101;114;114;111;114].
Definition s_result : str := [114;101;115;117;108;116].
Definition s_feature_not_implemented : str :=
  [102;101;97;116;117;114;101;45;110;111;116;45;105;109;112;108;101;109;101;110;116;101;100].

(* ---- packets ---- *)
(* stanza.Attrs (Lang plays no role in routing and is left untouched by MakeError) *)
Record attrs := { a_type : str; a_id : str; a_from : str; a_to : str }.

Inductive pkt :=
| PMessage (a : attrs)                  (* stanza.Message (value) *)
| PPresence (a : attrs)                 (* stanza.Presence (value) *)
| PIQ (a : attrs) (ns : option str) (any : option str)
    (* *stanza.IQ; ns = Some (Payload.Namespace()) when Payload is non-nil, None when
       Payload is nil; any = Some (Any.Namespace()) when the generic Any node (a payload
       whose type is not in the stanza registry) is non-nil *)
| POther (k : N).                       (* any other packet: SMRequest, SMAnswer (for a Sender that is not a *Client),
                                           StreamFeatures, StreamError, ...; k only
                                           tells the harness which one *)

(* ---- matchers: what the builder methods store ---- *)
Inductive matcher :=
| MName (s : str)          (* nameMatcher *)
| MType (l : list str)     (* nsTypeMatcher *)
| MNs (l : list str).      (* nsIQMatcher *)

(* Route.Packet / Route.StanzaType (lower-cased) / Route.IQNamespaces (verbatim) *)
Definition b_packet (name : str) : matcher := MName (lower name).
Definition b_stanza_type (types : list str) : matcher := MType (map lower types).
Definition b_iq_namespaces (nss : list str) : matcher := MNs nss.   (* verbatim copy *)

Definition route := list matcher.      (* the handler is identified by the position in the table *)
Definition table := list route.

(* matchInArray *)
Fixpoint in_arr (arr : list str) (v : str) : bool :=
  match arr with
  | [] => false
  | s :: arr' => if str_eqb s v then true else in_arr arr' v
  end.

(* nameMatcher.Match: the type switch leaves name "" for everything else *)
Definition kind_name (p : pkt) : str :=
  match p with
  | PMessage _ => s_message
  | PIQ _ _ _ => s_iq
  | PPresence _ => s_presence
  | POther _ => []
  end.

(* nsTypeMatcher.Match: the stanza type looked up, None = "default: return false" *)
Definition stanza_type (p : pkt) : option str :=
  match p with
  | PIQ a _ _ => Some (a_type a)
  | PPresence a => Some (a_type a)
  | PMessage a => Some (match a_type a with [] => s_normal | _ => a_type a end)
  | POther _ => None
  end.

(* the namespace of an IQ's payload: the typed Payload if there is one, else the
   generic Any node *)
Definition iq_namespace (ns any : option str) : option str :=
  match ns with Some n => Some n | None => any end.

Definition m_match (m : matcher) (p : pkt) : bool :=
  match m with
  | MName n => str_eqb (kind_name p) n
  | MType l => match stanza_type p with Some t => in_arr l t | None => false end
  | MNs l =>
      match p with
      | PIQ _ ns any =>
          match iq_namespace ns any with
          | Some n => in_arr l n
          | None => false     (* no payload at all *)
          end
      | _ => false            (* not an IQ *)
      end
  end.

(* Route.Match: every matcher must agree; no matcher = match *)
Fixpoint route_match (r : route) (p : pkt) : bool :=
  match r with
  | [] => true
  | m :: r' => if m_match m p then route_match r' p else false
  end.

(* Router.Match: index of the first route that matches *)
Fixpoint router_match (t : table) (p : pkt) : option nat :=
  match t with
  | [] => None
  | r :: t' =>
      if route_match r p then Some O
      else match router_match t' p with Some i => Some (S i) | None => None end
  end.

(* ---- the automatic error reply ---- *)
(* What is handed to Sender.Send, as far as C06 speaks about it: an IQ with these
   attributes and this error condition (the name of the defined-condition child of
   <error/>).  The rest of the reply — legacy code, error type, an optional
   human-readable <text/>, the echoed request payload, whether the reply is the
   received object rewritten in place or a copy — is not fixed by the property and
   not modelled. *)
Record reply := { rp_attrs : attrs; rp_condition : option str }.

(* IQ.MakeError: type := "error", from/to swapped, Error := &xerror; id kept *)
Definition make_error (a : attrs) (condition : str) : reply :=
  {| rp_attrs := {| a_type := s_error; a_id := a_id a; a_from := a_to a; a_to := a_from a |};
     rp_condition := Some condition |}.

(* iqNotImplemented *)
Definition err_reply (a : attrs) : reply := make_error a s_feature_not_implemented.

(* ---- Router.route ---- *)
Inductive event :=
| EDeliver (a : attrs)     (* IQ result/error copied to the channel of the pending SendIQ request with its id *)
| EHandle (i : nat)        (* HandlePacket of route i called *)
| ESend (r : reply).       (* Sender.Send called by the router itself *)

(* delete(r.IQResultRoutes, id) *)
Fixpoint remove_id (id : str) (pend : list str) : list str :=
  match pend with
  | [] => []
  | x :: pend' => if str_eqb x id then remove_id id pend' else x :: remove_id id pend'
  end.

Definition is_request (t : str) : bool := str_eqb t s_get || str_eqb t s_set.
(* only a response can answer a pending request *)
Definition is_response (t : str) : bool := str_eqb t s_result || str_eqb t s_error.

Definition pending_hit (pend : list str) (p : pkt) : bool :=
  match p with
  | PIQ a _ _ => if is_response (a_type a) then in_arr pend (a_id a) else false
  | _ => false
  end.

(* the part of route() after the IQ-result lookup *)
Definition route_ordinary (t : table) (p : pkt) : list event :=
  match router_match t p with
  | Some i => [EHandle i]
  | None =>
      match p with
      | PIQ a ns any => if is_request (a_type a) then [ESend (err_reply a)] else []
      | _ => []
      end
  end.

(* events, and the pending ids left in the table *)
Definition do_route (t : table) (pend : list str) (p : pkt) : list event * list str :=
  match p with
  | PIQ a _ _ =>
      if pending_hit pend p then ([EDeliver a], remove_id (a_id a) pend)
      else (route_ordinary t p, pend)
  | _ => (route_ordinary t p, pend)
  end.

(* With requests whose context has ENDED (cancelled, timed out) but whose entry their clean-up
   has not removed yet ([ended], ids disjoint from [pend] - the table has one entry per id):
   a response carrying such an id takes the entry away (its channel is closed without a value)
   and is then routed like any other packet.  Events, live ids left, ended ids left. *)
Definition do_route_e (t : table) (pend ended : list str) (p : pkt)
  : list event * list str * list str :=
  if pending_hit pend p then (fst (do_route t pend p), snd (do_route t pend p), ended)
  else if pending_hit ended p
       then (route_ordinary t p, pend,
             match p with PIQ a _ _ => remove_id (a_id a) ended | _ => ended end)
       else (route_ordinary t p, pend, ended).

Definition handler_log (ev : list event) : list nat :=
  flat_map (fun e => match e with EHandle i => [i] | _ => [] end) ev.
Definition replies (ev : list event) : list reply :=
  flat_map (fun e => match e with ESend r => [r] | _ => [] end) ev.
Definition deliveries (ev : list event) : list attrs :=
  flat_map (fun e => match e with EDeliver a => [a] | _ => [] end) ev.

(* (handler that ran, replies the router sent) *)
Definition route_pkt (t : table) (pend : list str) (p : pkt) : option nat * list reply :=
  let ev := fst (do_route t pend p) in (hd_error (handler_log ev), replies ev).

(* ---- histories: the route table grows while the router is in use ---- *)
(* Routes are registered after dispatching has begun: [HAdd r] from outside a dispatch (another
   goroutine, between two packets or while a handler is still running), [HDispatch p ins] a packet
   whose handler - the one of the first accepting route, when there is one - itself registers the
   routes [ins] (re-entrant NewRoute / HandleFunc).  The table is a value: a packet is dispatched on
   the table as it is when its dispatch begins, a route registered during packet k is at the end of
   the table packet k+1 sees.  No pending requests here (route_ordinary). *)
Inductive hop :=
| HAdd (r : route)
| HDispatch (p : pkt) (ins : table).

Definition after_dispatch (t : table) (p : pkt) (ins : table) : table :=
  match router_match t p with Some _ => t ++ ins | None => t end.

(* the events of every dispatch, in order *)
Fixpoint run_hist (t : table) (h : list hop) : list (list event) :=
  match h with
  | [] => []
  | HAdd r :: h' => run_hist (t ++ [r]) h'
  | HDispatch p ins :: h' => route_ordinary t p :: run_hist (after_dispatch t p ins) h'
  end.

(* the table each dispatch of the history is made on, with its packet *)
Fixpoint dispatches (t : table) (h : list hop) : list (table * pkt) :=
  match h with
  | [] => []
  | HAdd r :: h' => dispatches (t ++ [r]) h'
  | HDispatch p ins :: h' => (t, p) :: dispatches (after_dispatch t p ins) h'
  end.

Definition hist_packets (h : list hop) : list pkt :=
  flat_map (fun o => match o with HDispatch p _ => [p] | HAdd _ => [] end) h.
