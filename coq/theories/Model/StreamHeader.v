(* Byte-level model of what stanza.InitStream (stanza/parser.go) makes of the server's
   stream header: the first start tag on the connection, read by encoding/xml, and the
   stream id taken from it.  Executable definitions only; strings are UTF-8 bytes.

   Language covered (everything else yields None, i.e. "InitStream returns an error"):
     white space, <?...?> and <!--...--> before the tag;
     <name (ws* attr)* ws* [/]>  with  attr ::= name ws* = ws* ('...' | "...");
     names: runs of  A-Z a-z 0-9 _ : . -  and bytes >= 0x80, not starting with a digit, '-'
       or '.', at most one colon (encoding/xml nsname: "p:l" with both parts non-empty is
       prefix p, local l; anything else is an unprefixed name);
     attribute values as Decoder.text(quote) reads them: '<' and a raw "]]>" are errors;
       &lt; &gt; &amp; &apos; &quot;, &#D; and &#xH; are resolved (a surrogate code point
       becomes U+FFFD, as string(rune(n)) does; other non-characters and anything else after
       '&' are errors); a raw CR or CR LF becomes LF; the decoded value must not contain a
       control character other than TAB, LF, CR.
   Not modelled (never sent by the harness; disclosed): validity of raw UTF-8 sequences
   and raw U+FFFE/U+FFFF, Unicode name characters, the content of the XML declaration,
   <!DOCTYPE>, character data before the tag.

   One structurally recursive pass over the bytes (an explicit state machine): no fuel. *)
From Coq Require Import List NArith Bool.
From XV Require Import Lib.Sx.
Import ListNotations.
Open Scope N_scope.

(* a raw attribute: prefix ("" when unprefixed), local name, decoded value *)
Definition rattr := (str * str * str)%type.
Definition ra_prefix (a : rattr) : str := fst (fst a).
Definition ra_local (a : rattr) : str := snd (fst a).
Definition ra_value (a : rattr) : str := snd a.

Definition is_ws (c : N) : bool := (c =? 32) || (c =? 9) || (c =? 10) || (c =? 13).
Definition is_digit (c : N) : bool := (48 <=? c) && (c <=? 57).
Definition is_alpha (c : N) : bool :=
  ((65 <=? c) && (c <=? 90)) || ((97 <=? c) && (c <=? 122)).
Definition is_hex (c : N) : bool :=
  is_digit c || ((65 <=? c) && (c <=? 70)) || ((97 <=? c) && (c <=? 102)).
(* encoding/xml isNameByte, plus the bytes of multi-byte characters *)
Definition is_name_byte (c : N) : bool :=
  is_alpha c || is_digit c || (c =? 95) || (c =? 58) || (c =? 46) || (c =? 45) || (128 <=? c).
Definition is_name_start (c : N) : bool :=
  is_name_byte c && negb (is_digit c || (c =? 45) || (c =? 46)).

(* ---- names ---- *)
Fixpoint count_colon (s : str) : nat :=
  match s with [] => O | c :: r => (if c =? 58 then 1 else 0)%nat + count_colon r end.

Fixpoint cut_colon (s : str) : option (str * str) :=
  match s with
  | [] => None
  | c :: r => if c =? 58 then Some ([], r)
              else match cut_colon r with Some (a, b) => Some (c :: a, b) | None => None end
  end.

(* nsname: None = not a name *)
Definition split_name (s : str) : option (str * str) :=
  match s with
  | [] => None
  | _ =>
    if Nat.ltb 1 (count_colon s) then None
    else match cut_colon s with
         | Some (p :: pr, l :: lr) => Some (p :: pr, l :: lr)
         | _ => Some ([], s)
         end
  end.

(* ---- character references ---- *)
Definition hex_val (c : N) : N :=
  if is_digit c then c - 48 else if c <=? 70 then c - 55 else c - 87.
Definition dec_num (ds : str) : N := fold_left (fun acc c => acc * 10 + (c - 48)) ds 0.
Definition hex_num (ds : str) : N := fold_left (fun acc c => acc * 16 + hex_val c) ds 0.

Definition utf8 (n : N) : str :=
  if n <? 128 then [n]
  else if n <? 2048 then [192 + n / 64; 128 + n mod 64]
  else if n <? 65536 then [224 + n / 4096; 128 + (n / 64) mod 64; 128 + n mod 64]
  else [240 + n / 262144; 128 + (n / 4096) mod 64; 128 + (n / 64) mod 64; 128 + n mod 64].

(* string(rune(n)) followed by the character-range check, for n above 0x7f;
   below, the final check on the decoded bytes decides *)
Definition char_ref (n : N) : option str :=
  if 1114111 <? n then None
  else if (55296 <=? n) && (n <=? 57343) then Some (utf8 65533)
  else if (n =? 65534) || (n =? 65535) then None
  else Some (utf8 n).

Definition e_lt : str := [108; 116].
Definition e_gt : str := [103; 116].
Definition e_amp : str := [97; 109; 112].
Definition e_apos : str := [97; 112; 111; 115].
Definition e_quot : str := [113; 117; 111; 116].

(* what stands between '&' and ';' *)
Definition resolve_entity (b : str) : option str :=
  match b with
  | 35 :: 120 :: d :: ds =>
      if forallb is_hex (d :: ds) then char_ref (hex_num (d :: ds)) else None
  | 35 :: d :: ds =>
      if forallb is_digit (d :: ds) then char_ref (dec_num (d :: ds)) else None
  | _ =>
      if str_eqb b e_lt then Some [60]
      else if str_eqb b e_gt then Some [62]
      else if str_eqb b e_amp then Some [38]
      else if str_eqb b e_apos then Some [39]
      else if str_eqb b e_quot then Some [34]
      else None
  end.

Definition ent_byte (c : N) : bool := is_alpha c || is_digit c || (c =? 35).

(* isInCharacterRange on the single-byte characters *)
Definition value_byte_ok (c : N) : bool := (32 <=? c) || (c =? 9) || (c =? 10) || (c =? 13).

(* ---- the scanner ---- *)
Record vstate := VState {
  v_quote : N;                (* the delimiter *)
  v_out : str;                (* decoded bytes, latest first *)
  v_b0 : N; v_b1 : N;         (* the two previous raw bytes (0 after an entity) *)
  v_ent : option str }.       (* Some acc: inside &...; *)

Inductive state :=
| SMisc                                   (* before the tag *)
| SOpen                                   (* just after '<' *)
| SPI (q : bool)                          (* in <?...?>; q: previous byte was '?' *)
| SBang (k : nat)                         (* after "<!" and k dashes (k < 2) *)
| SComment (dashes : nat)                 (* in a comment; trailing dashes seen, capped at 2 *)
| SName (acc : str)                       (* element name, latest byte first *)
| SBetween (en : str) (attrs : list rattr)       (* attrs latest first *)
| SSlash (en : str) (attrs : list rattr)
| SAttrName (en : str) (attrs : list rattr) (acc : str)
| SAfterName (en : str) (attrs : list rattr) (an : str)
| SBeforeVal (en : str) (attrs : list rattr) (an : str)
| SVal (en : str) (attrs : list rattr) (an : str) (v : vstate).

Inductive outcome :=
| Go (s : state)
| Done (en : str) (attrs : list rattr)    (* the tag is complete; attrs in document order *)
| Fail.

(* the state after the element or attribute name, looking at the byte that ended it *)
Definition between (en : str) (attrs : list rattr) (c : N) : outcome :=
  if is_ws c then Go (SBetween en attrs)
  else if c =? 47 then Go (SSlash en attrs)
  else if c =? 62 then Done en (rev attrs)
  else if is_name_start c then Go (SAttrName en attrs [c])
  else Fail.

Definition after_name (en : str) (attrs : list rattr) (an : str) (c : N) : outcome :=
  if is_ws c then Go (SAfterName en attrs an)
  else if c =? 61 then Go (SBeforeVal en attrs an)
  else Fail.

Definition finish_value (en : str) (attrs : list rattr) (an : str) (v : vstate) : outcome :=
  let value := rev (v_out v) in
  if forallb value_byte_ok value then
    match split_name an with
    | Some (p, l) => Go (SBetween en ((p, l, value) :: attrs))
    | None => Fail
    end
  else Fail.

Definition value_step (en : str) (attrs : list rattr) (an : str) (v : vstate) (c : N) : outcome :=
  match v_ent v with
  | Some acc =>
      if c =? 59 then
        match resolve_entity acc with
        | Some bs => Go (SVal en attrs an (VState (v_quote v) (rev bs ++ v_out v) 0 0 None))
        | None => Fail
        end
      else if ent_byte c then
        Go (SVal en attrs an (VState (v_quote v) (v_out v) 0 0 (Some (acc ++ [c]))))
      else Fail
  | None =>
      if (c =? 62) && (v_b0 v =? 93) && (v_b1 v =? 93) then Fail
      else if c =? 60 then Fail
      else if c =? v_quote v then finish_value en attrs an v
      else if c =? 38 then Go (SVal en attrs an (VState (v_quote v) (v_out v) 0 0 (Some [])))
      else if c =? 13 then
        Go (SVal en attrs an (VState (v_quote v) (10 :: v_out v) (v_b1 v) c None))
      else if (c =? 10) && (v_b1 v =? 13) then
        Go (SVal en attrs an (VState (v_quote v) (v_out v) (v_b1 v) c None))
      else Go (SVal en attrs an (VState (v_quote v) (c :: v_out v) (v_b1 v) c None))
  end.

Definition step (s : state) (c : N) : outcome :=
  match s with
  | SMisc => if is_ws c then Go SMisc else if c =? 60 then Go SOpen else Fail
  | SOpen =>
      if c =? 63 then Go (SPI false)
      else if c =? 33 then Go (SBang 0)
      else if is_name_start c then Go (SName [c])
      else Fail
  | SPI q => if q && (c =? 62) then Go SMisc else Go (SPI (c =? 63))
  | SBang k =>
      if c =? 45 then (match k with O => Go (SBang 1) | _ => Go (SComment 0) end) else Fail
  | SComment d =>
      if c =? 45 then Go (SComment (match d with O => 1 | _ => 2 end)%nat)
      else if (c =? 62) && Nat.eqb d 2 then Go SMisc
      else Go (SComment 0)
  | SName acc =>
      if is_name_byte c then Go (SName (c :: acc)) else between (rev acc) [] c
  | SBetween en attrs => between en attrs c
  | SSlash en attrs => if c =? 62 then Done en (rev attrs) else Fail
  | SAttrName en attrs acc =>
      if is_name_byte c then Go (SAttrName en attrs (c :: acc))
      else after_name en attrs (rev acc) c
  | SAfterName en attrs an => after_name en attrs an c
  | SBeforeVal en attrs an =>
      if is_ws c then Go (SBeforeVal en attrs an)
      else if (c =? 34) || (c =? 39) then Go (SVal en attrs an (VState c [] 0 0 None))
      else Fail
  | SVal en attrs an v => value_step en attrs an v c
  end.

(* the first start tag: raw element name and raw attributes; None = error or input exhausted *)
Fixpoint scan (s : state) (l : str) : option (str * list rattr) :=
  match l with
  | [] => None
  | c :: r =>
      match step s c with
      | Go s' => scan s' r
      | Done en attrs => Some (en, attrs)
      | Fail => None
      end
  end.

Definition start_tag (l : str) : option (str * list rattr) := scan SMisc l.

(* the state reached after a prefix that neither completes the tag nor fails *)
Fixpoint steps (s : state) (p : str) : option state :=
  match p with
  | [] => Some s
  | c :: r => match step s c with Go s' => steps s' r | _ => None end
  end.

(* ---- name spaces (Decoder.Token: the declarations of the tag itself apply to it) ---- *)
Definition s_xmlns : str := [120; 109; 108; 110; 115].
Definition s_xml : str := [120; 109; 108].
Definition s_id : str := [105; 100].
Definition xml_url : str :=   (* http://www.w3.org/XML/1998/namespace *)
  [104;116;116;112;58;47;47;119;119;119;46;119;51;46;111;114;103;47;88;77;76;47;49;57;57;56;
   47;110;97;109;101;115;112;97;99;101].

(* the last declaration of [prefix] ("" = the default name space) *)
Definition declared (prefix : str) (attrs : list rattr) : option str :=
  fold_left (fun acc a =>
    match prefix with
    | [] => if match ra_prefix a with [] => true | _ => false end && str_eqb (ra_local a) s_xmlns
            then Some (ra_value a) else acc
    | _ => if str_eqb (ra_prefix a) s_xmlns && str_eqb (ra_local a) prefix
           then Some (ra_value a) else acc
    end) attrs None.

Definition element_space (prefix : str) (attrs : list rattr) : str :=
  if str_eqb prefix s_xmlns then s_xmlns
  else if str_eqb prefix s_xml then xml_url
  else match declared prefix attrs with Some v => v | None => prefix end.

(* InitStream's loop over elem.Attr: the unqualified id; the last one wins; "" if none *)
Definition unqualified_id (a : rattr) : bool :=
  match ra_prefix a with [] => str_eqb (ra_local a) s_id | _ => false end.

Definition stream_id (attrs : list rattr) : str :=
  fold_left (fun acc a => if unqualified_id a then ra_value a else acc) attrs [].

Definition ns_stream : str :=   (* http://etherx.jabber.org/streams *)
  [104;116;116;112;58;47;47;101;116;104;101;114;120;46;106;97;98;98;101;114;46;111;114;103;47;
   115;116;114;101;97;109;115].
Definition ns_framing : str :=  (* urn:ietf:params:xml:ns:xmpp-framing *)
  [117;114;110;58;105;101;116;102;58;112;97;114;97;109;115;58;120;109;108;58;110;115;58;120;109;
   112;112;45;102;114;97;109;105;110;103].
Definition s_stream : str := [115; 116; 114; 101; 97; 109].
Definition s_open : str := [111; 112; 101; 110].

(* InitStream: the stream id, or None when it returns an error *)
Definition init_stream (hdr : str) : option str :=
  match start_tag hdr with
  | None => None
  | Some (en, attrs) =>
      match split_name en with
      | None => None
      | Some (p, l) =>
          let ns := element_space p attrs in
          if (str_eqb ns ns_stream && str_eqb l s_stream) || (str_eqb ns ns_framing && str_eqb l s_open)
          then Some (stream_id attrs) else None
      end
  end.
