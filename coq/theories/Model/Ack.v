(* Model of the stream-management send path of the client: Client.Send / SendRaw
   pushing on the UnAckQueue (client.go) and SendMissingStz on an inbound <a h/>
   (router.go), with the queue of Model/Queue.v.  Executable definitions only. *)
From Coq Require Import List ZArith NArith Bool.
From XV Require Import Lib.Sx Model.Queue.
Import ListNotations.
Open Scope Z_scope.

Inductive pkind := KStanza | KRequest | KAnswer.   (* what Send was given *)

Inductive aop :=
| ASend (k : pkind) (data : str)    (* Client.Send(packet); data = its serialisation *)
| ASendRaw (data : str)             (* Client.SendRaw(string) *)
| AAck (h : Z).                     (* <a h='h'/> from the server, routed *)

Inductive witem := WData (s : str) | WRequest.   (* what goes on the wire *)

(* Send: stanzas are pushed (ack requests and answers are not), then written *)
Definition a_send (st : qstate) (k : pkind) (data : str) : qstate * list witem :=
  match k with
  | KStanza => (q_push st data, [WData data])
  | KRequest => (st, [WRequest])
  | KAnswer => (st, [WData data])
  end.

(* SendMissingStz(h): drop every entry numbered <= h; if entries remain, write them
   again in order (they stay queued under their numbers) and ask for a new ack *)
Definition a_ack (st : qstate) (h : Z) : qstate * list witem :=
  match fst st with
  | [] => (st, [])
  | (first, _) :: _ =>
      let '(_, q') := q_popn (fst st) (h - first + 1) in
      match q' with
      | [] => ((q', snd st), [])
      | _ => ((q', snd st), map (fun e => WData (snd e)) q' ++ [WRequest])
      end
  end.

Definition a_step (st : qstate) (o : aop) : qstate * list witem :=
  match o with
  | ASend k d => a_send st k d
  | ASendRaw d => (q_push st d, [WData d])
  | AAck h => a_ack st h
  end.

Fixpoint a_run (st : qstate) (ops : list aop) : list (list witem * queue) :=
  match ops with
  | [] => []
  | o :: ops' => let '(st', w) := a_step st o in (w, fst st') :: a_run st' ops'
  end.

(* ---- specification: absolute numbering of the stanzas sent on the session ---- *)
Record spec := { sp_sent : list str; sp_acked : nat }.   (* acked <= length sent *)
Definition sp_init : spec := {| sp_sent := []; sp_acked := 0 |}.
Definition sp_held (s : spec) : list str := skipn (sp_acked s) (sp_sent s).

Definition sp_step (s : spec) (o : aop) : spec * list witem :=
  match o with
  | ASend KStanza d | ASendRaw d =>
      ({| sp_sent := sp_sent s ++ [d]; sp_acked := sp_acked s |}, [WData d])
  | ASend KRequest _ => (s, [WRequest])
  | ASend KAnswer d => (s, [WData d])
  | AAck h =>
      (* the h oldest stanzas of the session are delivered; an ack never un-delivers *)
      let a := Nat.max (sp_acked s) (Nat.min (Z.to_nat h) (length (sp_sent s))) in
      let s' := {| sp_sent := sp_sent s; sp_acked := a |} in
      match sp_held s' with
      | [] => (s', [])
      | held => (s', map WData held ++ [WRequest])
      end
  end.

Fixpoint sp_run (s : spec) (ops : list aop) : list (list witem * list str) :=
  match ops with
  | [] => []
  | o :: ops' => let '(s', w) := sp_step s o in (w, sp_held s') :: sp_run s' ops'
  end.
