(* Model of the stream-management send path of the client: Client.Send / SendRaw
   pushing on the UnAckQueue (client.go) and SendMissingStz on an inbound <a h/>
   (router.go), with the queue of Model/Queue.v.  Executable definitions only. *)
From Coq Require Import List ZArith NArith Bool.
From XV Require Import Lib.Sx Model.Queue.
Import ListNotations.
Open Scope Z_scope.

(* what the packet is, for Send (its serialisation) as for SendRaw (the string), by its first element:
   KStanza: message / presence / iq in jabber:client or without a namespace of its own - what the server counts;
   KRequest / KAnswer: {urn:xmpp:sm:3}r / a; KOther: anything else (another nonza such as client state
   indication, an element of a foreign namespace, white space, the empty string, a nil packet) *)
Inductive pkind := KStanza | KRequest | KAnswer | KOther.

Inductive aop :=
| ASend (k : pkind) (data : str)    (* Client.Send(packet); data = its serialisation *)
| ASendRaw (k : pkind) (data : str) (* Client.SendRaw(string); Connect's initial presence is one *)
| ARefused (k : pkind) (data : str) (* Send or SendRaw whose write the transport refuses (error to the caller) *)
| AAck (h : Z)                      (* <a h='h'/> from the server, routed; h is unsigned on the wire and
                                       clamped to the largest int before SendMissingStz, which is not
                                       visible here: sequence numbers are unbounded integers *)
| AAckRefused (h : Z) (j : nat)     (* the same, but write number j (from 0) of the retransmission it causes is
                                       refused (the transport fails, or sendWithWriter answers ErrNoSession because
                                       a reconnection has started): SendMissingStz stops there *)
| AFailedAttempt                   (* a connection attempt on this client that fails (before the features, while TLS is
                                       negotiated, while the answer to <resume/> is awaited, ...): the session is still
                                       alive on the server, what is held stays held *)
| AResumed                         (* a connection attempt on which the server resumes the session (<resumed/>): the queue
                                       goes on; nothing is written (its h is not read: DESIGN 10.6) *)
| AEnabled (resume : bool).         (* a new session on which the server enabled stream management
                                       (Session.EnableStreamManagement reading <enabled/>); resume: its resume
                                       attribute reads as true (strconv.ParseBool) *)

Inductive witem := WData (s : str) | WRequest.   (* what goes on the wire *)

(* The client: the queue object of the session and Config.StreamManagementEnable, which Send and SendRaw
   consult on every call.  It is the application's setting: the library does not change it (an <enabled/>
   that does not grant resumption only clears streamManagementResume). *)
Notation astate := ((list (Z * str) * Z) * bool)%type (only parsing).
Definition a_queue (st : astate) : qstate := fst st.
Definition a_hold (st : astate) : bool := snd st.

(* a client configured with stream management, at the start of a session on which it is enabled *)
Definition a_init : astate := (q_init, true).

(* Send / SendRaw, under the client's send lock: while the flag is set stanzas are pushed (ack requests and
   answers are not), then written; number and write are one step, so the queue order is the wire order *)
Definition a_send (st : astate) (k : pkind) (data : str) : astate * list witem :=
  match k with
  | KStanza => if snd st then ((q_push (fst st) data, true), [WData data]) else (st, [WData data])
  | KRequest => (st, [WRequest])
  | KAnswer | KOther => (st, [WData data])
  end.

(* a refused write: what was pushed is taken back (UnAckQueue.DropLast, Model/Queue.v); nothing reached the wire *)
Definition a_refused (st : astate) (k : pkind) (data : str) : astate * list witem :=
  match k with
  | KStanza => if snd st then ((q_droplast (q_push (fst st) data), true), []) else (st, [])
  | _ => (st, [])
  end.

(* SendMissingStz(h), under the same lock: drop every entry numbered <= h; if entries remain,
   write them again in order (they stay queued under their numbers) and ask for a new ack *)
Definition q_ack (st : qstate) (h : Z) : qstate * list witem :=
  match fst st with
  | [] => (st, [])
  | (first, _) :: _ =>
      let '(_, q') := q_popn (fst st) (h - first + 1) in
      match q' with
      | [] => ((q', snd st), [])
      | _ => ((q', snd st), map (fun e => WData (snd e)) q' ++ [WRequest])
      end
  end.
Definition a_ack (st : astate) (h : Z) : astate * list witem :=
  let '(q', w) := q_ack (fst st) h in ((q', snd st), w).

(* ... cut short at the first refused write: the loop over the held entries returns at the first error and
   the request is not written; a refused request (its error is ignored) leaves the same trace.  The entries
   stay queued either way. *)
Definition a_ack_refused (st : astate) (h : Z) (j : nat) : astate * list witem :=
  let '(st', w) := a_ack st h in (st', firstn j w).

(* EnableStreamManagement on <enabled/>: the session gets a new queue; whether the server grants resumption
   (recorded elsewhere, for Resume) makes no difference to what is held *)
Definition a_enabled (st : astate) (resume : bool) : astate * list witem :=
  ((q_init, snd st), []).

Definition a_step (st : astate) (o : aop) : astate * list witem :=
  match o with
  | ASend k d => a_send st k d
  | ASendRaw k d => a_send st k d
  | ARefused k d => a_refused st k d
  | AAck h => a_ack st h
  | AAckRefused h j => a_ack_refused st h j
  | AFailedAttempt | AResumed => (st, [])
  | AEnabled r => a_enabled st r
  end.

Fixpoint a_run (st : astate) (ops : list aop) : list (list witem * queue) :=
  match ops with
  | [] => []
  | o :: ops' => let '(st', w) := a_step st o in (w, fst (fst st')) :: a_run st' ops'
  end.

(* the state after a history *)
Definition a_exec (st : astate) (ops : list aop) : astate := fold_left (fun s o => fst (a_step s o)) ops st.

(* ---- specification: absolute numbering of the stanzas sent on the session ---- *)
(* sp_on: the client is configured with stream management (stanzas sent are held) *)
Record spec := { sp_sent : list str; sp_acked : nat; sp_on : bool }.   (* acked <= length sent *)
Definition sp_init : spec := {| sp_sent := []; sp_acked := 0; sp_on := true |}.
Definition sp_held (s : spec) : list str := skipn (sp_acked s) (sp_sent s).

(* the h oldest stanzas of the session are delivered; an ack never un-delivers; what remains held is
   written again in order, followed by a request *)
Definition sp_ack (s : spec) (h : Z) : spec * list witem :=
  let a := Nat.max (sp_acked s) (Nat.min (Z.to_nat h) (length (sp_sent s))) in
  let s' := {| sp_sent := sp_sent s; sp_acked := a; sp_on := sp_on s |} in
  match sp_held s' with
  | [] => (s', [])
  | held => (s', map WData held ++ [WRequest])
  end.

Definition sp_step (s : spec) (o : aop) : spec * list witem :=
  match o with
  | ASend KStanza d | ASendRaw KStanza d =>
      if sp_on s then ({| sp_sent := sp_sent s ++ [d]; sp_acked := sp_acked s; sp_on := true |}, [WData d])
      else (s, [WData d])   (* written; not a stanza of a session that holds *)
  | ASend KRequest _ | ASendRaw KRequest _ => (s, [WRequest])
  | ASend KAnswer d | ASendRaw KAnswer d => (s, [WData d])
  | ASend KOther d | ASendRaw KOther d => (s, [WData d])   (* written; the server does not count it either *)
  | AFailedAttempt | AResumed => (s, [])   (* the same session: sent, delivered and held as before *)
  | ARefused _ _ => (s, [])   (* not sent on the session: neither held nor counted *)
  | AAck h => sp_ack s h
  | AAckRefused h j => let '(s', w) := sp_ack s h in (s', firstn j w)   (* delivered and held as for AAck *)
  | AEnabled _ => ({| sp_sent := []; sp_acked := 0; sp_on := sp_on s |}, [])   (* a new session, resumable or not *)
  end.

Fixpoint sp_run (s : spec) (ops : list aop) : list (list witem * list str) :=
  match ops with
  | [] => []
  | o :: ops' => let '(s', w) := sp_step s o in (w, sp_held s') :: sp_run s' ops'
  end.
Definition sp_exec (s : spec) (ops : list aop) : spec := fold_left (fun s o => fst (sp_step s o)) ops s.

(* the first transmissions of a history, in the order of the steps *)
Definition first_tx (o : aop) : list str :=
  match o with ASend KStanza d | ASendRaw KStanza d => [d] | _ => [] end.
Definition is_enabled (o : aop) : bool := match o with AEnabled _ => true | _ => false end.
(* the h of an acknowledgement step *)
Definition ack_h (o : aop) : option Z :=
  match o with AAck h | AAckRefused h _ => Some h | _ => None end.
(* the same history with every <enabled/> granting resumption *)
Definition grant_resume (o : aop) : aop := match o with AEnabled _ => AEnabled true | _ => o end.
