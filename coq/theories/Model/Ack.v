(* Model of the stream-management send path of the client: Client.Send / SendRaw
   pushing on the UnAckQueue (client.go) and SendMissingStz on an inbound <a h/>
   (router.go), with the queue of Model/Queue.v.  Executable definitions only. *)
From Coq Require Import List ZArith NArith Bool.
From XV Require Import Lib.Sx Model.Queue.
Import ListNotations.
Open Scope Z_scope.

(* what the packet is: Send decides on its Go type (stanza.SMRequest / stanza.SMAnswer, by value
   or by pointer), SendRaw on the first element of the string ({urn:xmpp:sm:3}r / a) *)
Inductive pkind := KStanza | KRequest | KAnswer.

Inductive aop :=
| ASend (k : pkind) (data : str)    (* Client.Send(packet); data = its serialisation *)
| ASendRaw (k : pkind) (data : str) (* Client.SendRaw(string); Connect's initial presence is one *)
| ARefused (k : pkind) (data : str) (* Send or SendRaw whose write the transport refuses (error to the caller) *)
| AAck (h : Z).                     (* <a h='h'/> from the server, routed; h is unsigned on the wire and
                                       clamped to the largest int before SendMissingStz, which is not
                                       visible here: sequence numbers are unbounded integers *)

Inductive witem := WData (s : str) | WRequest.   (* what goes on the wire *)

(* Send / SendRaw, under the client's send lock: stanzas are pushed (ack requests and answers are
   not), then written; number and write are one step, so the queue order is the wire order *)
Definition a_send (st : qstate) (k : pkind) (data : str) : qstate * list witem :=
  match k with
  | KStanza => (q_push st data, [WData data])
  | KRequest => (st, [WRequest])
  | KAnswer => (st, [WData data])
  end.

(* UnAckQueue.DropLast: the tail entry leaves the queue, with its number, when it is the entry
   of the last Push *)
Definition q_drop_last (st : qstate) : qstate :=
  match last_id (fst st) with
  | Some i => if i =? snd st then (removelast (fst st), snd st - 1) else st
  | None => st
  end.

(* a refused write: what was pushed is taken back; nothing reached the wire *)
Definition a_refused (st : qstate) (k : pkind) (data : str) : qstate * list witem :=
  match k with
  | KStanza => (q_drop_last (q_push st data), [])
  | _ => (st, [])
  end.

(* SendMissingStz(h), under the same lock: drop every entry numbered <= h; if entries remain,
   write them again in order (they stay queued under their numbers) and ask for a new ack *)
Definition a_ack (st : qstate) (h : Z) : qstate * list witem :=
  match fst st with
  | [] => (st, [])
  | (first, _) :: _ =>
      let '(_, q') := q_popn (fst st) (h - first + 1) in
      match q' with
      | [] => ((q', snd st), [])
      | _ => ((q', snd st), map (fun e => WData (snd e)) q' ++ [WRequest])
      end
  end.

Definition a_step (st : qstate) (o : aop) : qstate * list witem :=
  match o with
  | ASend k d => a_send st k d
  | ASendRaw k d => a_send st k d
  | ARefused k d => a_refused st k d
  | AAck h => a_ack st h
  end.

Fixpoint a_run (st : qstate) (ops : list aop) : list (list witem * queue) :=
  match ops with
  | [] => []
  | o :: ops' => let '(st', w) := a_step st o in (w, fst st') :: a_run st' ops'
  end.

(* ---- specification: absolute numbering of the stanzas sent on the session ---- *)
Record spec := { sp_sent : list str; sp_acked : nat }.   (* acked <= length sent *)
Definition sp_init : spec := {| sp_sent := []; sp_acked := 0 |}.
Definition sp_held (s : spec) : list str := skipn (sp_acked s) (sp_sent s).

Definition sp_step (s : spec) (o : aop) : spec * list witem :=
  match o with
  | ASend KStanza d | ASendRaw KStanza d =>
      ({| sp_sent := sp_sent s ++ [d]; sp_acked := sp_acked s |}, [WData d])
  | ASend KRequest _ | ASendRaw KRequest _ => (s, [WRequest])
  | ASend KAnswer d | ASendRaw KAnswer d => (s, [WData d])
  | ARefused _ _ => (s, [])   (* not sent on the session: neither held nor counted *)
  | AAck h =>
      (* the h oldest stanzas of the session are delivered; an ack never un-delivers *)
      let a := Nat.max (sp_acked s) (Nat.min (Z.to_nat h) (length (sp_sent s))) in
      let s' := {| sp_sent := sp_sent s; sp_acked := a |} in
      match sp_held s' with
      | [] => (s', [])
      | held => (s', map WData held ++ [WRequest])
      end
  end.

Fixpoint sp_run (s : spec) (ops : list aop) : list (list witem * list str) :=
  match ops with
  | [] => []
  | o :: ops' => let '(s', w) := sp_step s o in (w, sp_held s') :: sp_run s' ops'
  end.
