(* Model of stanza.NextPacket on a token cursor (C02).  Executable definitions only.

   Mirrors, in /repo/stanza:
     parser.go      NextXmppToken (next_token), NextPacket + decodeStream / decodeSASL /
                    decodeClient / decodeComponent (next_packet)
     stream_management.go  smDecoder.decode, SMFailed.UnmarshalXML (failed_child)
     message.go / presence.go / iq.go   the UnmarshalXML token loops (stanza_child, iq_child)
     error.go       Err.UnmarshalXML (err_elem), node.go Node (skip: tag-driven alias decode)
     stream_features.go  StreamFeatures (tag-driven) with TlsStartTLS.UnmarshalXML (tls_elem)
     component.go   Delegation (tag-driven) with Forwarded.UnmarshalXML (fwd_elem)
     pres_muc.go    History.UnmarshalXML's attribute conversions (muc_ok)

   Where Go calls DecodeElement on a tag-driven struct, on Node, or d.Skip(), the model
   consumes the rest of the element by depth counting ([skip] / [take_subtree]).  Where Go
   runs a hand-written loop "for { t := d.Token(); switch ... case EndElement: if tt ==
   start.End() return }" the model runs [loop]: it inspects whatever token comes next and
   stops at the first end token whose NAME equals the element's own name, at whatever depth
   it happens to be looking.  encoding/xml's unmarshalInterface then checks that the method
   consumed exactly its element ("did not consume entire <x> element"): [consume].

   [repaired = true]  is the tree after "fix: skip unknown children when decoding message
   and presence" (and the same repair of Forwarded): an unrecognised child is consumed whole
   with d.Skip().  [repaired = false] is the unchanged tree: the loop just goes on reading
   tokens, so descendants of an unknown child are inspected as if they were children (D3).

   Strings are UTF-8 bytes. *)
From Coq Require Import List ZArith NArith Bool String Ascii.
From XV Require Import Lib.Sx Model.XmlTree Gen.Generated.
Import ListNotations.
Local Open Scope N_scope.

(* ---- names the code compares against ---- *)
Definition s_stream := bytes_of "stream".
Definition s_error := bytes_of "error".
Definition s_features := bytes_of "features".
Definition s_success := bytes_of "success".
Definition s_failure := bytes_of "failure".
Definition s_message := bytes_of "message".
Definition s_presence := bytes_of "presence".
Definition s_iq := bytes_of "iq".
Definition s_handshake := bytes_of "handshake".
Definition s_enabled := bytes_of "enabled".
Definition s_resumed := bytes_of "resumed".
Definition s_resume := bytes_of "resume".
Definition s_r := bytes_of "r".
Definition s_a := bytes_of "a".
Definition s_failed := bytes_of "failed".
Definition s_body := bytes_of "body".
Definition s_thread := bytes_of "thread".
Definition s_subject := bytes_of "subject".
Definition s_show := bytes_of "show".
Definition s_status := bytes_of "status".
Definition s_priority := bytes_of "priority".
Definition s_star := bytes_of "*".
Definition s_type := bytes_of "type".
Definition s_id := bytes_of "id".
Definition s_from := bytes_of "from".
Definition s_to := bytes_of "to".
Definition s_lang := bytes_of "lang".
Definition s_h := bytes_of "h".
Definition s_max := bytes_of "max".
Definition s_history := bytes_of "history".
Definition s_maxchars := bytes_of "maxchars".
Definition s_maxstanzas := bytes_of "maxstanzas".
Definition s_seconds := bytes_of "seconds".

Definition ns_tls := bytes_of "urn:ietf:params:xml:ns:xmpp-tls".
Definition ns_stanzas := bytes_of "urn:ietf:params:xml:ns:xmpp-stanzas".
Definition ns_forward := bytes_of "urn:xmpp:forward:0".
Definition ns_delegation := bytes_of "urn:xmpp:delegation:1".
Definition ns_muc := bytes_of "http://jabber.org/protocol/muc".
Definition ns_xml := bytes_of "http://www.w3.org/XML/1998/namespace".
Definition s_xml := bytes_of "xml".
Definition ns_commands := bytes_of "http://jabber.org/protocol/commands".
Definition ns_xdata := bytes_of "jabber:x:data".
Definition s_x := bytes_of "x".

Definition stream_name : name := (ns_stream, s_stream).
Definition starttls_name : name := (ns_tls, bytes_of "starttls").
Definition forwarded_name : name := (ns_forward, bytes_of "forwarded").
Definition delegation_name : name := (ns_delegation, bytes_of "delegation").
Definition muc_x_name : name := (ns_muc, bytes_of "x").
Definition command_name : name := (ns_commands, bytes_of "command").

(* the case labels of SMFailed.UnmarshalXML's switch on tt.Name.Local *)
Definition sm_conditions : list str := map bytes_of
  [ "bad-format"; "bad-namespace-prefix"; "conflict"; "connection-timeout"; "host-gone";
    "host-unknown"; "improper-addressing"; "internal-server-error"; "invalid-from";
    "invalid-id"; "invalid-namespace"; "invalid-xml"; "not-authorized"; "not-well-formed";
    "policy-violation"; "remote-connection-failed"; "resource-constraint"; "restricted-xml";
    "see-other-host"; "system-shutdown"; "undefined-condition"; "unexpected-request";
    "unsupported-encoding"; "unsupported-stanza-type"; "unsupported-version";
    "xml-not-well-formed" ]%string.

Definition mem (s : str) (l : list str) : bool := existsb (str_eqb s) l.

(* ---- results ---- *)
Inductive kind := KPresence | KMessage | KIQ.
(* stanza.PacketType: PKTPresence = 0, PKTMessage = 1, PKTIQ = 2 *)
Definition kind_z (k : kind) : Z :=
  match k with KPresence => 0%Z | KMessage => 1%Z | KIQ => 2%Z end.

Inductive errk :=
| EEof          (* "connection closed" / read error: the tokens ran out *)
| EUnknownNs    (* "unknown namespace ..." *)
| EUnexpected   (* "unexpected XMPP packet ..." *)
| EDecode       (* the element's decoder returned an error *)
| EFuel.        (* model artefact; proved unreachable *)

Record sattrs := { a_type : str; a_id : str; a_from : str; a_to : str; a_lang : str }.

Inductive result :=
| PMessage (a : sattrs) | PPresence (a : sattrs) | PIQ (a : sattrs)
| PFeatures | PStreamError | PSaslSuccess | PSaslFailure | PHandshake
| PSmEnabled | PSmResumed | PSmResume | PSmR | PSmA | PSmFailed
| PClose
| Err (e : errk).

Definition is_err (p : result) : bool := match p with Err _ => true | _ => false end.

(* ---- attributes ---- *)
Definition is_nil {A} (l : list A) : bool := match l with [] => true | _ => false end.

(* Message / Presence / IQ.UnmarshalXML (after 957396a): an attribute is looked at only if
   it is UNQUALIFIED (attr.Name.Space == ""), or is lang in the XML namespace (Space "xml"
   or the XML namespace URI, i.e. xml:lang). *)
Definition attr_accepted (x : attr) : bool :=
  let ns := fst (fst x) in
  is_nil ns || ((str_eqb ns s_xml || str_eqb ns ns_xml) && str_eqb (snd (fst x)) s_lang).

(* "for _, attr := range start.Attr { ...; if attr.Name.Local == X { f = attr.Value } }":
   among the accepted attributes the last one with that local name wins. *)
Definition get_attr (local : str) (a : list attr) : str :=
  fold_left (fun acc (x : attr) =>
               if attr_accepted x && str_eqb (snd (fst x)) local then snd x else acc) a [].

Definition stanza_attrs (k : kind) (a : list attr) : sattrs :=
  {| a_type := get_attr s_type a; a_id := get_attr s_id a; a_from := get_attr s_from a;
     a_to := get_attr s_to a; a_lang := get_attr s_lang a |}.

Definition stanza_pkt (k : kind) (a : list attr) : result :=
  match k with
  | KMessage => PMessage (stanza_attrs k a)
  | KPresence => PPresence (stanza_attrs k a)
  | KIQ => PIQ (stanza_attrs k a)
  end.

(* ---- numeric conversions encoding/xml and the code apply to attribute values ---- *)
Definition is_digit (c : N) : bool := (48 <=? c) && (c <=? 57).
Definition all_digits (s : str) : bool := forallb is_digit s.
Definition dec_val (s : str) : N := fold_left (fun acc c => acc * 10 + (c - 48)) s 0.
(* strings.TrimSpace restricted to ASCII white space (the generator's values are ASCII) *)
Definition is_sp (c : N) : bool := ((9 <=? c) && (c <=? 13)) || (c =? 32).
Fixpoint drop_sp (s : str) : str :=
  match s with c :: r => if is_sp c then drop_sp r else s | [] => [] end.
Definition trim (s : str) : str := rev (drop_sp (rev (drop_sp s))).

(* copyValue for uint fields: empty => 0, else ParseUint(TrimSpace(v), 10, 64) *)
Definition uint_ok (s : str) : bool :=
  match s with
  | [] => true
  | _ => let t := trim s in negb (is_nil t) && all_digits t && (dec_val t <? 2 ^ 64)
  end.

(* strconv.Atoi (64-bit int): optional sign, at least one digit, in range *)
Definition atoi_ok (s : str) : bool :=
  match s with
  | 43 :: r => negb (is_nil r) && all_digits r && (dec_val r <? 2 ^ 63)
  | 45 :: r => negb (is_nil r) && all_digits r && (dec_val r <=? 2 ^ 63)
  | _ => negb (is_nil s) && all_digits s && (dec_val s <? 2 ^ 63)
  end.

(* every UNQUALIFIED attribute whose local name is [local] converts.  (encoding/xml matches
   a tag "local,attr" in any namespace, but smDecoder.decode and History.UnmarshalXML drop
   or skip every attribute with a non-empty namespace first.) *)
Definition attrs_conv (ok : str -> bool) (local : str) (a : list attr) : bool :=
  forallb (fun x : attr =>
             if is_nil (fst (fst x)) && str_eqb (snd (fst x)) local then ok (snd x) else true) a.

(* ---- the generic hand-written loop ---- *)
Inductive lres :=
| LDone (r : list token)   (* returned nil at an end token equal to start.End() *)
| LErr                     (* a child decoder failed *)
| LEof                     (* d.Token() returned an error *)
| LFuel.

(* [h n a r]: what the loop does after reading the child start tag (n, a), with the cursor
   at r: Some r' = went on at r', None = returned an error. *)
Definition handler := name -> list attr -> list token -> option (list token).

Fixpoint loop (fuel : nat) (h : handler) (self : name) (ts : list token) : lres :=
  match fuel with
  | O => LFuel
  | S f =>
      match ts with
      | [] => LEof
      | TStart n a :: r =>
          match h n a r with
          | Some r' => loop f h self r'
          | None => LErr
          end
      | TEnd n :: r => if name_eqb n self then LDone r else loop f h self r
      | _ :: r => loop f h self r
      end
  end.

(* DecodeElement(v, &start): the cursor is at r just after the start tag; [lp] is what v's
   decoding did from there.  It succeeds only if that stopped exactly after the matching end
   tag (pushEOF / popEOF in unmarshalInterface; trivially so for tag-driven structs, which
   stop by depth); the decoder then stands after that end tag. *)
Definition consume (r : list token) (lp : lres) : option (list token) :=
  match lp, skip r with
  | LDone r1, Some r0 => if Nat.eqb (List.length r1) (List.length r0) then Some r0 else None
  | _, _ => None
  end.

Definition run_loop (h : handler) (self : name) (r : list token) : option (list token) :=
  consume r (loop (S (List.length r)) h self r).

(* children decoded into Node (tag-driven alias type, recursive through ",any"),
   into a plain field, or skipped: the whole sub-tree *)
Definition skip_h : handler := fun _ _ r => skip r.

(* Err.UnmarshalXML, TlsStartTLS.UnmarshalXML: every child -> DecodeElement into Node *)
Definition err_elem (self : name) (r : list token) := run_loop skip_h self r.
Definition tls_elem (self : name) (r : list token) := run_loop skip_h self r.

(* copyValue for int fields of [bits] bits (int8: presence priority; *int: result sets):
   empty character data => 0, else ParseInt(TrimSpace(v), 10, bits): optional sign, at least
   one digit, -2^(bits-1) <= value < 2^(bits-1) *)
Definition int_ok (bits : N) (s : str) : bool :=
  match s with
  | [] => true
  | _ =>
      match trim s with
      | 43 :: r => negb (is_nil r) && all_digits r && (dec_val r <? 2 ^ (bits - 1))
      | 45 :: r => negb (is_nil r) && all_digits r && (dec_val r <=? 2 ^ (bits - 1))
      | t => negb (is_nil t) && all_digits t && (dec_val t <? 2 ^ (bits - 1))
      end
  end.

(* the character data a scalar field is decoded from: the text tokens (CharData, CDATA) that
   are DIRECT content of the element, concatenated; nested elements are skipped *)
Fixpoint direct_text (depth : nat) (ts : list token) : str :=
  match ts with
  | [] => []
  | TStart _ _ :: r => direct_text (S depth) r
  | TEnd _ :: r => direct_text (pred depth) r
  | TText s :: r => match depth with O => s ++ direct_text depth r | S _ => direct_text depth r end
  | TMisc :: r => direct_text depth r
  end.

(* direct child elements of a content token list, each with its own content *)
Fixpoint direct_elems (fuel : nat) (ts : list token) : list (name * list attr * list token) :=
  match fuel with
  | O => []
  | S f =>
      match ts with
      | [] => []
      | TStart n a :: r =>
          match take_subtree r with
          | Some (inner, r') => (n, a, inner) :: direct_elems f r'
          | None => []
          end
      | _ :: r => direct_elems f r
      end
  end.
Definition children_of (ts : list token) := direct_elems (S (List.length ts)) ts.

(* ResultSet (XEP-0059, results_sets.go): count / index / max are *int elements, first has an
   *int attribute index; encoding/xml matches these tags by local name in any namespace *)
Definition ns_rsm := bytes_of "http://jabber.org/protocol/rsm".
Definition rsm_set_name : name := (ns_rsm, bytes_of "set").
Definition rsm_set_ok (inner : list token) : bool :=
  forallb (fun c : name * list attr * list token =>
             let '(n, a, ci) := c in
             if mem (snd n) (map bytes_of ["count"; "index"; "max"]%string)
             then int_ok 64 (direct_text 0 ci)
             else if str_eqb (snd n) (bytes_of "first")
             then forallb (fun x : attr =>
                             if str_eqb (snd (fst x)) (bytes_of "index") then int_ok 64 (snd x)
                             else true) a
             else true)
          (children_of inner).
(* every direct child <set xmlns='http://jabber.org/protocol/rsm'> of a payload converts *)
Definition rsm_ok (inner : list token) : bool :=
  forallb (fun c : name * list attr * list token =>
             let '(n, _, ci) := c in if name_eqb n rsm_set_name then rsm_set_ok ci else true)
          (children_of inner).

Section Parser.
(* Generated.registry: (kind, namespace, local, Go type) as TypeRegistry holds it after init *)
Variable reg : list (Z * str * str * str).
Variable repaired : bool.
(* [typed_ok ctx n a inner]: DecodeElement of the element (n, a, content inner) into the Go
   struct it is decoded into succeeds, i.e. every typed field converts.  ctx = Some k: a child
   of a stanza of kind k that the registry maps to a type; ctx = None: a child of
   <stream:features/>.  A PARAMETER of the model and of the theorems; the instance compared
   with the code is [go_typed_ok] below. *)
Variable typed_ok : option kind -> name -> list attr -> list token -> bool.

Definition reg_has (k : kind) (ns local : str) : bool :=
  existsb (fun e : Z * str * str * str =>
             let '(kz, ens, eloc, _) := e in
             Z.eqb kz (kind_z k) && str_eqb ens ns && str_eqb eloc local) reg.

(* GetExtensionType: store[name.Local], else (unless the local name is "*") store["*"] *)
Definition registered (k : kind) (n : name) : bool :=
  reg_has k (fst n) (snd n) || reg_has k (fst n) s_star.

(* Forwarded.UnmarshalXML: decodeClient on every child start tag (dispatch on the local name
   only).  A stanza child is decoded (assumed here to consume its element: an error of the
   inner decoder is swallowed by the code and the loop goes on reading); any other child:
   repaired tree d.Skip(), unchanged tree nothing is consumed. *)
Definition fwd_child : handler := fun n _ r =>
  if mem (snd n) [s_message; s_presence; s_iq] then skip r
  else if repaired then skip r else Some r.
Definition fwd_elem (self : name) (r : list token) := run_loop fwd_child self r.

(* Delegation (tag-driven): field Forwarded matches urn:xmpp:forward:0 forwarded; every
   other child is a plain field or skipped. *)
Definition deleg_child : handler := fun n _ r =>
  if name_eqb n forwarded_name then fwd_elem n r else skip r.
Definition deleg_elem (self : name) (r : list token) := run_loop deleg_child self r.

(* MucPresence (tag-driven): every direct child <history/> IN THE MUC NAMESPACE runs
   History.UnmarshalXML, which converts maxchars / maxstanzas / seconds with strconv.Atoi
   and fails the whole DecodeElement otherwise (D18). *)
Definition history_ok (a : list attr) : bool :=
  attrs_conv atoi_ok s_maxchars a && attrs_conv atoi_ok s_maxstanzas a
  && attrs_conv atoi_ok s_seconds a.
Definition history_name : name := (ns_muc, s_history).
Definition muc_ok (inner : list token) : bool :=
  forallb (fun c : name * list attr =>
             if name_eqb (fst c) history_name then history_ok (snd c) else true)
          (direct_starts 0 inner).

(* DecodeElement(ext, &tt) for a registered extension: the typed fields must convert
   ([typed_ok]); Delegation additionally runs the Forwarded loops *)
Definition ext_elem (k : kind) : handler := fun n a r =>
  match take_subtree r with
  | Some (inner, r') =>
      if typed_ok (Some k) n a inner
      then (if name_eqb n delegation_name then deleg_elem n r else Some r')
      else None
  | None => None
  end.

Definition known_child (k : kind) (local : str) : bool :=
  match k with
  | KMessage => mem local [s_body; s_thread; s_subject; s_error]
  | KPresence => mem local [s_show; s_status; s_priority; s_error]
  | KIQ => false
  end.

(* Message.UnmarshalXML / Presence.UnmarshalXML, case xml.StartElement *)
(* [sns]: the namespace of the stanza itself (start.Name.Space): body, subject, thread,
   error / show, status, priority are recognised only in that namespace; the same local
   name in another namespace is an unknown extension. *)
Definition is_priority (sns : str) (k : kind) (n : name) : bool :=
  match k with KPresence => str_eqb (fst n) sns && str_eqb (snd n) s_priority | _ => false end.

(* <priority/> is decoded into an int8: DecodeElement(&pres.Priority, &tt) fails, and with it
   the whole presence, when the element's character data does not convert *)
Definition stanza_child (sns : str) (k : kind) : handler := fun n a r =>
  if registered k n then ext_elem k n a r
  else if str_eqb (fst n) sns && known_child k (snd n) then
    (if str_eqb (snd n) s_error then err_elem n r
     else if is_priority sns k n then
       match take_subtree r with
       | Some (inner, r') => if int_ok 8 (direct_text 0 inner) then Some r' else None
       | None => None
       end
     else skip r)
  else if repaired then skip r     (* default: err = d.Skip() *)
  else Some r.                     (* unchanged tree: nothing consumed *)

(* IQ.UnmarshalXML, case xml.StartElement: <error/> in the IQ's own namespace first, then
   the registry, else a generic Node *)
Definition iq_child (sns : str) : handler := fun n a r =>
  if str_eqb (snd n) s_error && str_eqb (fst n) sns then err_elem n r
  else if registered KIQ n then ext_elem KIQ n a r
  else skip r.

Definition child_of (sns : str) (k : kind) : handler :=
  match k with KIQ => iq_child sns | _ => stanza_child sns k end.

(* SMFailed.UnmarshalXML (after 92db6e3 and the D23 repair): a child outside the namespace
   urn:ietf:params:xml:ns:xmpp-stanzas is skipped whatever its name; inside it, a listed
   condition is decoded into its (tag-driven, matching) struct and any other name is skipped.
   Every branch consumes the child whole; the h attribute is parsed leniently (d770553). *)
Definition failed_child : handler := fun n _ r =>
  if str_eqb (fst n) ns_stanzas && mem (snd n) sm_conditions then skip r   (* DecodeElement *)
  else skip r.                                                            (* d.Skip() *)

(* StreamFeatures (tag-driven): the starttls child runs TlsStartTLS.UnmarshalXML; every other
   child is decoded into its field's struct (bind and session carry a result set) or skipped *)
Definition features_child : handler := fun n a r =>
  if name_eqb n starttls_name then tls_elem n r
  else match take_subtree r with
       | Some (inner, r') => if typed_ok None n a inner then Some r' else None
       | None => None
       end.

(* ---- NextXmppToken: next start element, or the stream's end element ---- *)
Fixpoint next_token (ts : list token) : option (token * list token) :=
  match ts with
  | [] => None
  | TStart n a :: r => Some (TStart n a, r)
  | TEnd n :: r => if name_eqb n stream_name then Some (TEnd n, r) else next_token r
  | _ :: r => next_token r
  end.

Definition done (p : result) (r : list token) (o : option (list token))
  : result * list token :=
  match o with Some r' => (p, r') | None => (Err EDecode, r) end.

(* a tag-driven packet struct: attributes are converted first, then the content consumed *)
Definition tagged (p : result) (attrs_ok : bool) (r : list token) : result * list token :=
  if attrs_ok then done p r (skip r) else (Err EDecode, r).

Definition decode_stanza (k : kind) (n : name) (a : list attr) (r : list token) :=
  done (stanza_pkt k a) r (run_loop (child_of (fst n) k) n r).

(* The switch nest of NextPacket / decodeStream / decodeSASL / decodeClient /
   decodeComponent / smDecoder.decode: namespace first, then local name. *)
Inductive top_kind :=
| TKStanza (k : kind)                     (* hand-written UnmarshalXML loop *)
| TKFeatures                              (* tag-driven, with the starttls loop inside *)
| TKFailed                                (* SMFailed.UnmarshalXML loop *)
| TKTagged (p : result) (uattr : option str).
    (* tag-driven struct; uattr = the attribute it converts to uint *)

Definition classify (n : name) : top_kind + errk :=
  let ns := fst n in
  let loc := snd n in
  if str_eqb ns ns_stream then
    if str_eqb loc s_error then inl (TKTagged PStreamError None)
    else if str_eqb loc s_features then inl TKFeatures
    else inr EUnexpected
  else if str_eqb ns ns_sasl then
    if str_eqb loc s_success then inl (TKTagged PSaslSuccess None)
    else if str_eqb loc s_failure then inl (TKTagged PSaslFailure None)
    else inr EUnexpected
  else if str_eqb ns ns_client then
    if str_eqb loc s_message then inl (TKStanza KMessage)
    else if str_eqb loc s_presence then inl (TKStanza KPresence)
    else if str_eqb loc s_iq then inl (TKStanza KIQ)
    else inr EUnexpected
  else if str_eqb ns ns_component then
    if str_eqb loc s_handshake then inl (TKTagged PHandshake None)
    else if str_eqb loc s_message then inl (TKStanza KMessage)
    else if str_eqb loc s_presence then inl (TKStanza KPresence)
    else if str_eqb loc s_iq then inl (TKStanza KIQ)
    else inr EUnexpected
  else if str_eqb ns ns_sm then
    if str_eqb loc s_enabled then inl (TKTagged PSmEnabled (Some s_max))
    else if str_eqb loc s_resumed then inl (TKTagged PSmResumed (Some s_h))
    else if str_eqb loc s_resume then inl (TKTagged PSmResume (Some s_h))
    else if str_eqb loc s_r then inl (TKTagged PSmR None)
    else if str_eqb loc s_a then inl (TKTagged PSmA (Some s_h))
    else if str_eqb loc s_failed then inl TKFailed
    else inr EUnexpected
  else inr EUnknownNs.

Definition own_attrs_ok (tk : top_kind) (a : list attr) : bool :=
  match tk with
  | TKTagged _ (Some l) => attrs_conv uint_ok l a
  | _ => true
  end.

(* the decoder each case of the switch calls, cursor just after the start tag *)
Definition decode_top (tk : top_kind) (n : name) (a : list attr) (r : list token)
  : result * list token :=
  match tk with
  | TKStanza k => decode_stanza k n a r
  | TKFeatures => done PFeatures r (run_loop features_child n r)
  | TKFailed => done PSmFailed r (run_loop failed_child n r)
  | TKTagged p _ => tagged p (own_attrs_ok tk a) r
  end.

Definition next_packet (ts : list token) : result * list token :=
  match next_token ts with
  | None => (Err EEof, [])
  | Some (TEnd _, r) => (PClose, r)        (* decodeStream on the end element *)
  | Some (TStart n a, r) =>
      match classify n with
      | inl tk => decode_top tk n a r
      | inr e => (Err e, r)
      end
  | Some (_, r) => (Err EDecode, r)        (* "unknown token": next_token never returns it *)
  end.

(* NextPacket called again and again on one decoder until it returns an error *)
Fixpoint run_packets_f (fuel : nat) (ts : list token) : list result :=
  match fuel with
  | O => [Err EFuel]
  | S f =>
      let '(p, r) := next_packet ts in
      if is_err p then [p] else p :: run_packets_f f r
  end.

Definition run_packets (ts : list token) : list result :=
  run_packets_f (S (List.length ts)) ts.

(* ---- specification side: what a stream of top-level items should yield ---- *)
(* the packet a top-level element stands for, read off its OWN start tag *)
Definition pkt_of_top (tk : top_kind) (a : list attr) : result :=
  match tk with
  | TKStanza k => stanza_pkt k a
  | TKFeatures => PFeatures
  | TKFailed => PSmFailed
  | TKTagged p _ => p
  end.

Definition dispatchable (n : name) : bool :=
  match classify n with inl _ => true | inr _ => false end.

Definition pkts_of (items : list node) : list result :=
  flat_map (fun x => match x with
                     | NElem n a _ =>
                         match classify n with inl tk => [pkt_of_top tk a] | inr _ => [] end
                     | _ => []
                     end) items.

(* hypotheses on a top-level element's content.  Children are ARBITRARY trees except:
   - a child of a stanza that the registry maps to a Go type, and a child of
     <stream:features/>, must be well-typed for its Go struct ([typed_ok]; D18),
   - an own-namespace <priority/> of a presence must convert to int8,
   and the element's own uint-typed attribute (h, max) must convert. *)
(* [sns]: the namespace of the top-level element itself *)
Definition child_ok (sns : str) (tk : top_kind) (c : node) : bool :=
  match c with
  | NElem n a cs =>
      match tk with
      | TKStanza k =>
          if registered k n then typed_ok (Some k) n a (flatten_all cs)
          else if is_priority sns k n then int_ok 8 (direct_text 0 (flatten_all cs))
          else true
      | TKFeatures =>
          if name_eqb n starttls_name then true else typed_ok None n a (flatten_all cs)
      | _ => true
      end
  | _ => true
  end.

Definition top_ok (x : node) : bool :=
  match x with
  | NElem n a cs =>
      match classify n with
      | inl tk => own_attrs_ok tk a && forallb (child_ok (fst n) tk) cs
      | inr _ => false
      end
  | _ => true      (* white space, comments, processing instructions between elements *)
  end.

End Parser.

(* ---- the instance of [typed_ok] that is compared with the code ---- *)
(* What is modelled of "every typed field converts":
   - presence: MucPresence's <history/> attribute conversions (muc_ok);
   - iq: every registered payload type (disco#info, disco#items, roster, version, pubsub,
     pubsub#owner, command, bind, session, delegation, iot control) carries a ResultSet:
     rsm_ok;
   - message: Delegation carries a ResultSet: rsm_ok;
   - <stream:features/>: the bind and session children carry a ResultSet: rsm_ok.
   NOT modelled (the model says "converts"; the generator produces valid values only):
   the other typed fields of registered payloads - pubsub max_items (int) and notify (bool)
   attributes, pubsub subscribe-options / form contents, PEP tune length / rating, iot
   control values, HTML content. *)
Definition bind_name : name := (ns_bind, bytes_of "bind").
Definition session_name : name := (ns_session, bytes_of "session").
Definition go_typed_ok (ctx : option kind) (n : name) (a : list attr) (inner : list token) : bool :=
  match ctx with
  | Some KPresence => if name_eqb n muc_x_name then muc_ok inner else true
  | Some KIQ => rsm_ok inner
  | Some KMessage => if name_eqb n delegation_name then rsm_ok inner else true
  | None => if name_eqb n bind_name || name_eqb n session_name then rsm_ok inner else true
  end.
