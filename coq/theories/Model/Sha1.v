(* SHA-1 (FIPS 180-4 section 6.1) over byte strings, written out.
   Strings are lists of bytes ([str = list N], every element < 256 for a
   well-formed input); 32-bit words are [N] with an explicit reduction mod 2^32
   ([trunc32]) after every operation that can leave the range.  Executable
   definitions only.
   Mirrors what crypto/sha1 computes for component.go's
   [h := sha1.New(); h.Write(...); h.Sum(nil)]. *)
From Coq Require Import List NArith Bool.
From XV Require Import Lib.Sx.
Import ListNotations.
Open Scope N_scope.

Definition w32 : N := 4294967296.            (* 2^32 *)
Definition mask32 : N := 4294967295.         (* 2^32 - 1 *)
(* x mod 2^32, computed as a mask of the low 32 bits (binary N: one pass over the
   bits instead of a long division); Proofs/Sha1P.v trunc32_mod: trunc32 x = x mod w32 *)
Definition trunc32 (x : N) : N := N.land x mask32.

Definition add32 (x y : N) : N := trunc32 (x + y).
(* circular left shift of a 32-bit word by n, 0 < n < 32 *)
Definition rotl (n x : N) : N :=
  N.lor (trunc32 (N.shiftl x n)) (N.shiftr x (32 - n)).
(* bitwise complement of a 32-bit word *)
Definition not32 (x : N) : N := N.lxor x mask32.

(* ---- 5.1.1 padding: 0x80, k zero bytes, 64-bit big-endian bit length ---- *)
Fixpoint zeros (k : nat) : str :=
  match k with O => [] | S k' => 0 :: zeros k' end.

(* big-endian bytes of x, [k] bytes *)
Fixpoint be_bytes (k : nat) (x : N) : str :=
  match k with
  | O => []
  | S k' => be_bytes k' (x / 256) ++ [x mod 256]
  end.

Definition pad_zeros (len : N) : nat := N.to_nat ((119 - len mod 64) mod 64).
Definition bitlen64 (len : N) : N := (8 * len) mod 18446744073709551616.

Definition pad (m : str) : str :=
  let len := N.of_nat (length m) in
  m ++ [128] ++ zeros (pad_zeros len) ++ be_bytes 8 (bitlen64 len).

(* ---- 5.2.1 parsing: big-endian 32-bit words, 16 words per block ---- *)
Fixpoint words (l : str) : list N :=
  match l with
  | b0 :: b1 :: b2 :: b3 :: r =>
      (b0 * 16777216 + b1 * 65536 + b2 * 256 + b3) :: words r
  | _ => []
  end.

(* cut a list into chunks of [n] (the last one may be shorter); [fuel] >= number of chunks *)
Fixpoint chunks {A} (fuel n : nat) (l : list A) : list (list A) :=
  match fuel with
  | O => []
  | S f => match l with
           | [] => []
           | _ => firstn n l :: chunks f n (skipn n l)
           end
  end.

Definition blocks (padded : str) : list (list N) :=
  let ws := words padded in chunks (length ws) 16 ws.

(* ---- 6.1.2 step 1: message schedule.  [rw] holds W_{t-1}, W_{t-2}, ... (most
   recent first); W_t = ROTL^1 (W_{t-3} xor W_{t-8} xor W_{t-14} xor W_{t-16}) ---- *)
Definition next_w (rw : list N) : N :=
  rotl 1 (N.lxor (N.lxor (N.lxor (nth 2 rw 0) (nth 7 rw 0)) (nth 13 rw 0)) (nth 15 rw 0)).

Fixpoint extend (k : nat) (rw : list N) : list N :=
  match k with
  | O => rw
  | S k' => extend k' (next_w rw :: rw)
  end.

(* W_0 .. W_79 from the 16 words of a block *)
Definition schedule (block : list N) : list N := rev (extend 64 (rev block)).

(* ---- 4.1.1 functions and 4.2.1 constants ---- *)
Definition f_ch (x y z : N) : N := N.lxor (N.land x y) (N.land (not32 x) z).
Definition f_parity (x y z : N) : N := N.lxor (N.lxor x y) z.
Definition f_maj (x y z : N) : N :=
  N.lxor (N.lxor (N.land x y) (N.land x z)) (N.land y z).

Definition f_t (t : nat) (x y z : N) : N :=
  if Nat.ltb t 20 then f_ch x y z
  else if Nat.ltb t 40 then f_parity x y z
  else if Nat.ltb t 60 then f_maj x y z
  else f_parity x y z.

Definition k_t (t : nat) : N :=
  if Nat.ltb t 20 then 1518500249          (* 5a827999 *)
  else if Nat.ltb t 40 then 1859775393     (* 6ed9eba1 *)
  else if Nat.ltb t 60 then 2400959708     (* 8f1bbcdc *)
  else 3395469782.                         (* ca62c1d6 *)

Definition hstate := (N * N * N * N * N)%type.

(* ---- 6.1.2 step 3: one round ---- *)
Definition round (t : nat) (w : N) (s : hstate) : hstate :=
  let '(a, b, c, d, e) := s in
  let tmp := add32 (add32 (add32 (add32 (rotl 5 a) (f_t t b c d)) e) (k_t t)) w in
  (tmp, a, rotl 30 b, c, d).

Fixpoint rounds (t : nat) (ws : list N) (s : hstate) : hstate :=
  match ws with
  | [] => s
  | w :: ws' => rounds (S t) ws' (round t w s)
  end.

(* ---- 6.1.2 steps 2-4: compression of one block into the hash value ---- *)
Definition compress (h : hstate) (block : list N) : hstate :=
  let '(h0, h1, h2, h3, h4) := h in
  let '(a, b, c, d, e) := rounds 0 (schedule block) h in
  (add32 h0 a, add32 h1 b, add32 h2 c, add32 h3 d, add32 h4 e).

(* 5.3.1 initial hash value *)
Definition h_init : hstate :=
  (1732584193, 4023233417, 2562383102, 271733878, 3285377520).
  (* 67452301 efcdab89 98badcfe 10325476 c3d2e1f0 *)

Definition sha1_state (m : str) : hstate :=
  fold_left compress (blocks (pad m)) h_init.

Definition word_bytes (w : N) : str :=
  [w / 16777216; (w / 65536) mod 256; (w / 256) mod 256; w mod 256].

Definition state_words (s : hstate) : list N :=
  let '(a, b, c, d, e) := s in [a; b; c; d; e].

(* the five words of the digest *)
Definition sha1_words (m : str) : list N := state_words (sha1_state m).

(* the 20-byte digest *)
Definition sha1 (m : str) : str := flat_map word_bytes (sha1_words m).
