(* From the packets NextPacket returns (Model/Parser.v) to the element classes the receive
   loops distinguish (Model/Recv.v): the type switch of Client.recv / Component.recv.
   Executable definitions only. *)
From Coq Require Import List ZArith NArith Bool.
From XV Require Import Lib.Sx Model.Parser Model.Recv.
Import ListNotations.

(* [idn]: how a stanza's id attribute is told apart in the item alphabet (any function; an injective
   one keeps "which stanza" exact).  An error result of NextPacket - read error, rejected element,
   element cut short - is the element the loop stops at. *)
Definition item_of (idn : str -> N) (p : Parser.result) : Recv.item :=
  match p with
  | PMessage a => IStanza KMsg (idn (a_id a))
  | PPresence a => IStanza KPres (idn (a_id a))
  | PIQ a => IStanza KIq (idn (a_id a))
  | PSmR => ISmR
  | PSmA => ISmA 0                (* the packet model does not keep h; the loop does not look at it *)
  | PFeatures => INonza 0
  | PSmEnabled => INonza 1
  | PSmResumed => INonza 2
  | PSmFailed => INonza 3
  | PSaslSuccess => INonza 4
  | PSaslFailure => INonza 5
  | PHandshake => INonza 6
  | PSmResume => INonza 7
  | PStreamError => IStreamError 0
  | PClose => IClose
  | Err _ => IBad
  end.
