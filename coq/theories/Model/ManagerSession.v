(* How one connection as Model/Session.v describes it (Client.connect: transport.Connect +
   NewSession) appears to the StreamManager of Model/Manager.v: which attempt outcome it is.
   Definitions only. *)
From Coq Require Import List Bool.
From XV Require Import Lib.Sx Model.Manager Model.Session.
Import ListNotations.

Definition req_is_resume (r : creq) : bool := match r with RResume _ _ => true | _ => false end.
Definition req_is_bind (r : creq) : bool := match r with RBind _ _ => true | _ => false end.

(* the session a successful connection ends in is the one held before: a <resume/> went
   out and no bind request followed it *)
Definition resumed_of (w : list out) : bool :=
  existsb req_is_resume (reqs w) && negb (existsb req_is_bind (reqs w)).

(* dial_ok as given to [connect].  The classification resume() relies on:
   xerrors.As(err, &ConnError) && Permanent.  drops: no Session object is left. *)
Definition attempt_of (dial_ok : bool) (x : list out * result * persist) : attempt :=
  if negb dial_ok then ARefused else
  match snd (fst x) with
  | Ok => AOk (resumed_of (fst (fst x)))
  | Err c perm => AFail (c && perm) (negb (p_has_session (snd x)))
  end.

(* What the resumption step leaves of the stream-management state the client held: the
   second flag of [AFail] as far as that step decides it.  (attempt_of's flag speaks of the
   Session OBJECT; at this step the object stays and the state inside it is what may go.) *)
Definition state_lost (p0 : persist) (x : list out * result * persist) : bool :=
  negb (str_eqb (p_sm_id (snd x)) (p_sm_id p0)).
Definition resume_step_attempt (p0 : persist) (x : list out * result * persist) : attempt :=
  match snd (fst x) with
  | Ok => AOk (resumed_of (fst (fst x)))
  | Err c perm => AFail (c && perm) (state_lost p0 x)
  end.
