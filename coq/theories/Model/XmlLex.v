(* Lexer and tree builder for exactly the language XmlPrint.print produces (C01):
   start tags  <name( name="value")*>, end tags </name>, escaped character data;
   an un-prefixed element takes the innermost declared default namespace (as Go's
   decoder resolves names), the declaration  xmlns="..."  is recognised as the
   first attribute.  Anything else (prefixes, <x/>, comments, single quotes,
   other entities) is outside this language and yields None; the stream parser
   of C02 has its own token-level model.

   No recursion on anything but list structure: the input is cut at every '<'
   ([split_on]), each piece at its '>' (tag body / following text), the tag body
   at the first blank and at every double quote. *)
From Coq Require Import List NArith Bool.
From XV Require Import Lib.Sx Model.XmlText Model.XmlPrint.
Import ListNotations.
Open Scope N_scope.

(* first piece and the remaining pieces of [l] cut at every [c] *)
Fixpoint split_on (c : N) (l : str) : str * list str :=
  match l with
  | [] => ([], [])
  | x :: r =>
      let '(p, ps) := split_on c r in
      if x =? c then ([], p :: ps) else (x :: p, ps)
  end.

(* what precedes the first [c], and the rest from that [c] on *)
Fixpoint break_at (c : N) (l : str) : str * str :=
  match l with
  | [] => ([], [])
  | x :: r =>
      if x =? c then ([], l)
      else let '(a, b) := break_at c r in (x :: a, b)
  end.

(* Names, as encoding/xml's decoder accepts them (xml.go: Decoder.name = readName, then
   isName): the first character is in the table [first] (Letter | '_' of XML 1.0 4th ed.,
   Appendix B), every further one in [first] or [second] (Digit | '.' | '-' |
   CombiningChar | Extender).  The tables are copied from xml.go (go1.23; strides expanded,
   adjacent ranges merged, sorted), WITHOUT the colon that Go's [first] contains: a name
   with a colon is a prefixed name (or one of the degenerate forms  :a  a:  that Go keeps as
   a local name), outside this language.  "1a", "-x", ".x", "a+b", "a,b", "a;b", "a b" are
   not names ("invalid XML name" / "expected attribute name in element" in Go). *)
Definition name_first_tab : list (N * N) := [
  (65,90); (95,95); (97,122); (192,214); (216,246); (248,305); (308,318); (321,328); (330,382);
  (384,451); (461,496); (500,501); (506,535); (592,680); (699,705); (902,902); (904,906);
  (908,908); (910,929); (931,974); (976,982); (986,986); (988,988); (990,990); (992,992);
  (994,1011); (1025,1036); (1038,1103); (1105,1116); (1118,1153); (1168,1220); (1223,1224);
  (1227,1228); (1232,1259); (1262,1269); (1272,1273); (1329,1366); (1369,1369); (1377,1414);
  (1488,1514); (1520,1522); (1569,1594); (1601,1610); (1649,1719); (1722,1726); (1728,1742);
  (1744,1747); (1749,1749); (1765,1766); (2309,2361); (2365,2365); (2392,2401); (2437,2444);
  (2447,2448); (2451,2472); (2474,2480); (2482,2482); (2486,2489); (2524,2525); (2527,2529);
  (2544,2545); (2565,2570); (2575,2576); (2579,2600); (2602,2608); (2610,2611); (2613,2614);
  (2616,2617); (2649,2652); (2654,2654); (2674,2676); (2693,2699); (2701,2701); (2703,2705);
  (2707,2728); (2730,2736); (2738,2739); (2741,2745); (2749,2749); (2784,2784); (2821,2828);
  (2831,2832); (2835,2856); (2858,2864); (2866,2867); (2870,2873); (2877,2877); (2908,2909);
  (2911,2913); (2949,2954); (2958,2960); (2962,2965); (2969,2970); (2972,2972); (2974,2975);
  (2979,2980); (2984,2986); (2990,2997); (2999,3001); (3077,3084); (3086,3088); (3090,3112);
  (3114,3123); (3125,3129); (3168,3169); (3205,3212); (3214,3216); (3218,3240); (3242,3251);
  (3253,3257); (3294,3294); (3296,3297); (3333,3340); (3342,3344); (3346,3368); (3370,3385);
  (3424,3425); (3585,3630); (3632,3632); (3634,3635); (3648,3653); (3713,3714); (3716,3716);
  (3719,3720); (3722,3722); (3725,3725); (3732,3735); (3737,3743); (3745,3747); (3749,3749);
  (3751,3751); (3754,3755); (3757,3758); (3760,3760); (3762,3763); (3773,3773); (3776,3780);
  (3904,3911); (3913,3945); (4256,4293); (4304,4342); (4352,4352); (4354,4355); (4357,4359);
  (4361,4361); (4363,4364); (4366,4370); (4412,4412); (4414,4414); (4416,4416); (4428,4428);
  (4430,4430); (4432,4432); (4436,4437); (4441,4441); (4447,4449); (4451,4451); (4453,4453);
  (4455,4455); (4457,4457); (4461,4462); (4466,4467); (4469,4469); (4510,4510); (4520,4520);
  (4523,4523); (4526,4527); (4535,4536); (4538,4538); (4540,4546); (4587,4587); (4592,4592);
  (4601,4601); (7680,7835); (7840,7929); (7936,7957); (7960,7965); (7968,8005); (8008,8013);
  (8016,8023); (8025,8025); (8027,8027); (8029,8029); (8031,8061); (8064,8116); (8118,8124);
  (8126,8126); (8130,8132); (8134,8140); (8144,8147); (8150,8155); (8160,8172); (8178,8180);
  (8182,8188); (8486,8486); (8490,8491); (8494,8494); (8576,8578); (12295,12295); (12321,12329);
  (12353,12436); (12449,12538); (12549,12588); (19968,40869); (44032,55203)
].

Definition name_second_tab : list (N * N) := [
  (45,46); (48,57); (183,183); (720,721); (768,837); (864,865); (903,903); (1155,1158);
  (1425,1441); (1443,1465); (1467,1469); (1471,1471); (1473,1474); (1476,1476); (1600,1600);
  (1611,1618); (1632,1641); (1648,1648); (1750,1764); (1767,1768); (1770,1773); (1776,1785);
  (2305,2307); (2364,2364); (2366,2381); (2385,2388); (2402,2403); (2406,2415); (2433,2435);
  (2492,2492); (2494,2500); (2503,2504); (2507,2509); (2519,2519); (2530,2531); (2534,2543);
  (2562,2562); (2620,2620); (2622,2626); (2631,2632); (2635,2637); (2662,2673); (2689,2691);
  (2748,2748); (2750,2757); (2759,2761); (2763,2765); (2790,2799); (2817,2819); (2876,2876);
  (2878,2883); (2887,2888); (2891,2893); (2902,2903); (2918,2927); (2946,2947); (3006,3010);
  (3014,3016); (3018,3021); (3031,3031); (3047,3055); (3073,3075); (3134,3140); (3142,3144);
  (3146,3149); (3157,3158); (3174,3183); (3202,3203); (3262,3268); (3270,3272); (3274,3277);
  (3285,3286); (3302,3311); (3330,3331); (3390,3395); (3398,3400); (3402,3405); (3415,3415);
  (3430,3439); (3633,3633); (3636,3642); (3654,3662); (3664,3673); (3761,3761); (3764,3769);
  (3771,3772); (3782,3782); (3784,3789); (3792,3801); (3864,3865); (3872,3881); (3893,3893);
  (3895,3895); (3897,3897); (3902,3903); (3953,3972); (3974,3979); (3984,3989); (3991,3991);
  (3993,4013); (4017,4023); (4025,4025); (8400,8412); (8417,8417); (12293,12293); (12330,12335);
  (12337,12341); (12441,12442); (12445,12446); (12540,12542)
].

(* membership in a sorted table of inclusive ranges *)
Fixpoint in_ranges (c : N) (t : list (N * N)) : bool :=
  match t with
  | [] => false
  | (lo, hi) :: r => if c <? lo then false else if c <=? hi then true else in_ranges c r
  end.

Definition name_start (c : N) : bool := in_ranges c name_first_tab.
Definition name_char (c : N) : bool := in_ranges c name_first_tab || in_ranges c name_second_tab.
Definition name_ok (s : str) : bool :=
  match s with [] => false | c :: r => name_start c && forallb name_char r end.

(* the characters the lexer cuts tags at:  < > & dquote apostrophe = / : blank TAB LF CR;
   none of them is a name character (XmlLexP.name_stop_not_name) *)
Definition name_stop : list N := [60; 62; 38; 34; 39; 61; 47; 58; 32; 9; 10; 13].

(* " k=" -> k *)
Definition key_of (kp : str) : option str :=
  match kp with
  | [] => None
  | c :: r =>
      if c =? 32 then
        let '(k, e) := break_at 61 r in
        if str_eqb e [61] && name_ok k then Some k else None
      else None
  end.

(* pieces of the attribute part cut at every double quote:  kp0 v1 kp1 v2 ... vn (empty)  *)
Fixpoint attrs_of (kp : str) (qs : list str) : option (list (str * str)) :=
  match qs with
  | [] => match kp with [] => Some [] | _ => None end
  | v :: qs' =>
      match qs' with
      | [] => None
      | kp' :: qs'' =>
          match key_of kp, unescape v, attrs_of kp' qs'' with
          | Some k, Some v', Some r => Some ((k, v') :: r)
          | _, _, _ => None
          end
      end
  end.

Definition lex_tag (body : str) : option tok :=
  match body with
  | [] => None
  | c :: r =>
      if c =? 47 then (if name_ok r then Some (TE r) else None)
      else
        let '(l, rest) := break_at 32 body in
        let '(kp, qs) := split_on 34 rest in
        if name_ok l then
          match attrs_of kp qs with Some a => Some (TS l a) | None => None end
        else None
  end.

Definition lex_text (raw : str) : option (list tok) :=
  match raw with
  | [] => Some []
  | _ => match unescape raw with
         | Some s => Some [TX (has_nl raw) s]
         | None => None
         end
  end.

(* each piece after a '<' is  tagbody '>' text  *)
Fixpoint lex_pieces (ps : list str) : option (list tok) :=
  match ps with
  | [] => Some []
  | p :: ps' =>
      let '(body, after) := split_on 62 p in
      match after with
      | [txt] =>
          match lex_tag body, lex_text txt, lex_pieces ps' with
          | Some tg, Some tx, Some r => Some (tg :: tx ++ r)
          | _, _, _ => None
          end
      | _ => None
      end
  end.

Definition lex (l : str) : option (list tok) :=
  let '(p0, ps) := split_on 60 l in
  match lex_text p0, lex_pieces ps with
  | Some t0, Some r => Some (t0 ++ r)
  | _, _ => None
  end.

(* ---- tokens -> trees: stack machine with default-namespace inheritance ---- *)
(* an open element: its resolved namespace, name, attributes, and the children
   of its parent collected so far (latest first) *)
Definition frame := (str * str * list (str * str) * list xtree)%type.

Definition no_xmlns (a : list (str * str)) : bool :=
  forallb (fun kv => negb (str_eqb (fst kv) xmlns_s)) a.

Definition inherited (stk : list frame) : str :=
  match stk with [] => [] | (ns, _, _, _) :: _ => ns end.

(* [cur]: children of the innermost open element so far, latest first *)
Fixpoint build (stk : list frame) (cur : list xtree) (ts : list tok) : option (list xtree) :=
  match ts with
  | [] => match stk with [] => Some (rev cur) | _ => None end
  | TX raw s :: r => build stk (XT raw s :: cur) r
  | TS l a :: r =>
      let '(ns, a') :=
        match a with
        | (k, v) :: a0 => if str_eqb k xmlns_s then (v, a0) else (inherited stk, a)
        | [] => (inherited stk, a)
        end in
      if no_xmlns a' then build ((ns, l, a', cur) :: stk) [] r else None
  | TE l :: r =>
      match stk with
      | [] => None
      | (ns, l', a, saved) :: stk' =>
          if str_eqb l l' then build stk' (XE ns l' a (rev cur) :: saved) r else None
      end
  end.

(* one top-level element *)
Definition parse (l : str) : option xtree :=
  match lex l with
  | None => None
  | Some ts =>
      match build [] [] ts with
      | Some [XE ns lo a ks] => Some (XE ns lo a ks)
      | _ => None
      end
  end.

(* ---- well-formedness (the domain of the print/parse round trip) ---- *)
Definition nonempty (s : str) : bool := match s with [] => false | _ => true end.
Definition isempty (s : str) : bool := match s with [] => true | _ => false end.

Definition attr_ok (kv : str * str) : bool :=
  name_ok (fst kv) && negb (str_eqb (fst kv) xmlns_s) && all_legal (snd kv).

Definition is_text (t : xtree) : bool := match t with XT _ _ => true | XE _ _ _ _ => false end.

(* no two character-data nodes in a row (the printed form would merge them) *)
Fixpoint no_adj (ks : list xtree) : bool :=
  match ks with
  | [] => true
  | k :: ks' =>
      match ks' with
      | [] => true
      | k' :: _ => negb (is_text k && is_text k') && no_adj ks'
      end
  end.

(* [pns]: namespace of the parent.  Namespace-explicit: an element without a
   namespace cannot sit under one that has a namespace (it would be read back
   with the parent's). *)
Fixpoint wf_tree (pns : str) (t : xtree) : bool :=
  match t with
  | XT raw s => nonempty s && all_legal s && implb raw (has_nl s)
  | XE ns l a kids =>
      name_ok l && all_legal ns && (nonempty ns || isempty pns)
      && forallb attr_ok a && no_adj kids
      && (fix go (ks : list xtree) : bool :=
            match ks with [] => true | k :: ks' => wf_tree ns k && go ks' end) kids
  end.

Definition is_elem (t : xtree) : bool := negb (is_text t).
(* a stand-alone document: one element, no namespace context *)
Definition wf_doc (t : xtree) : bool := is_elem t && wf_tree [] t.

(* ---- well-formed token lists (the domain of lex_print) ---- *)
Definition tok_ok (t : tok) : bool :=
  match t with
  | TS l a => name_ok l && forallb (fun kv => name_ok (fst kv) && all_legal (snd kv)) a
  | TE l => name_ok l
  | TX raw s => nonempty s && all_legal s && implb raw (has_nl s)
  end.
Definition tok_is_text (t : tok) : bool := match t with TX _ _ => true | _ => false end.
Fixpoint toks_no_adj (ts : list tok) : bool :=
  match ts with
  | [] => true
  | t :: ts' =>
      match ts' with
      | [] => true
      | t' :: _ => negb (tok_is_text t && tok_is_text t') && toks_no_adj ts'
      end
  end.
Definition wf_toks (ts : list tok) : bool := forallb tok_ok ts && toks_no_adj ts.
