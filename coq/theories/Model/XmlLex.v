(* Lexer and tree builder for exactly the language XmlPrint.print produces (C01):
   start tags  <name( name="value")*>, end tags </name>, escaped character data;
   an un-prefixed element takes the innermost declared default namespace (as Go's
   decoder resolves names), the declaration  xmlns="..."  is recognised as the
   first attribute.  Anything else (prefixes, <x/>, comments, single quotes,
   other entities) is outside this language and yields None; the stream parser
   of C02 has its own token-level model.

   No recursion on anything but list structure: the input is cut at every '<'
   ([split_on]), each piece at its '>' (tag body / following text), the tag body
   at the first blank and at every double quote. *)
From Coq Require Import List NArith Bool.
From XV Require Import Lib.Sx Model.XmlText Model.XmlPrint.
Import ListNotations.
Open Scope N_scope.

(* first piece and the remaining pieces of [l] cut at every [c] *)
Fixpoint split_on (c : N) (l : str) : str * list str :=
  match l with
  | [] => ([], [])
  | x :: r =>
      let '(p, ps) := split_on c r in
      if x =? c then ([], p :: ps) else (x :: p, ps)
  end.

(* what precedes the first [c], and the rest from that [c] on *)
Fixpoint break_at (c : N) (l : str) : str * str :=
  match l with
  | [] => ([], [])
  | x :: r =>
      if x =? c then ([], l)
      else let '(a, b) := break_at c r in (x :: a, b)
  end.

(* names: non-empty, XML-legal characters, none of  < > & dquote apostrophe = / : or white space *)
Definition name_stop : list N := [60; 62; 38; 34; 39; 61; 47; 58; 32; 9; 10; 13].
Definition name_char (c : N) : bool := legal c && negb (existsb (N.eqb c) name_stop).
Definition name_ok (s : str) : bool :=
  match s with [] => false | _ => forallb name_char s end.

(* " k=" -> k *)
Definition key_of (kp : str) : option str :=
  match kp with
  | [] => None
  | c :: r =>
      if c =? 32 then
        let '(k, e) := break_at 61 r in
        if str_eqb e [61] && name_ok k then Some k else None
      else None
  end.

(* pieces of the attribute part cut at every double quote:  kp0 v1 kp1 v2 ... vn (empty)  *)
Fixpoint attrs_of (kp : str) (qs : list str) : option (list (str * str)) :=
  match qs with
  | [] => match kp with [] => Some [] | _ => None end
  | v :: qs' =>
      match qs' with
      | [] => None
      | kp' :: qs'' =>
          match key_of kp, unescape v, attrs_of kp' qs'' with
          | Some k, Some v', Some r => Some ((k, v') :: r)
          | _, _, _ => None
          end
      end
  end.

Definition lex_tag (body : str) : option tok :=
  match body with
  | [] => None
  | c :: r =>
      if c =? 47 then (if name_ok r then Some (TE r) else None)
      else
        let '(l, rest) := break_at 32 body in
        let '(kp, qs) := split_on 34 rest in
        if name_ok l then
          match attrs_of kp qs with Some a => Some (TS l a) | None => None end
        else None
  end.

Definition lex_text (raw : str) : option (list tok) :=
  match raw with
  | [] => Some []
  | _ => match unescape raw with
         | Some s => Some [TX (has_nl raw) s]
         | None => None
         end
  end.

(* each piece after a '<' is  tagbody '>' text  *)
Fixpoint lex_pieces (ps : list str) : option (list tok) :=
  match ps with
  | [] => Some []
  | p :: ps' =>
      let '(body, after) := split_on 62 p in
      match after with
      | [txt] =>
          match lex_tag body, lex_text txt, lex_pieces ps' with
          | Some tg, Some tx, Some r => Some (tg :: tx ++ r)
          | _, _, _ => None
          end
      | _ => None
      end
  end.

Definition lex (l : str) : option (list tok) :=
  let '(p0, ps) := split_on 60 l in
  match lex_text p0, lex_pieces ps with
  | Some t0, Some r => Some (t0 ++ r)
  | _, _ => None
  end.

(* ---- tokens -> trees: stack machine with default-namespace inheritance ---- *)
(* an open element: its resolved namespace, name, attributes, and the children
   of its parent collected so far (latest first) *)
Definition frame := (str * str * list (str * str) * list xtree)%type.

Definition no_xmlns (a : list (str * str)) : bool :=
  forallb (fun kv => negb (str_eqb (fst kv) xmlns_s)) a.

Definition inherited (stk : list frame) : str :=
  match stk with [] => [] | (ns, _, _, _) :: _ => ns end.

(* [cur]: children of the innermost open element so far, latest first *)
Fixpoint build (stk : list frame) (cur : list xtree) (ts : list tok) : option (list xtree) :=
  match ts with
  | [] => match stk with [] => Some (rev cur) | _ => None end
  | TX raw s :: r => build stk (XT raw s :: cur) r
  | TS l a :: r =>
      let '(ns, a') :=
        match a with
        | (k, v) :: a0 => if str_eqb k xmlns_s then (v, a0) else (inherited stk, a)
        | [] => (inherited stk, a)
        end in
      if no_xmlns a' then build ((ns, l, a', cur) :: stk) [] r else None
  | TE l :: r =>
      match stk with
      | [] => None
      | (ns, l', a, saved) :: stk' =>
          if str_eqb l l' then build stk' (XE ns l' a (rev cur) :: saved) r else None
      end
  end.

(* one top-level element *)
Definition parse (l : str) : option xtree :=
  match lex l with
  | None => None
  | Some ts =>
      match build [] [] ts with
      | Some [XE ns lo a ks] => Some (XE ns lo a ks)
      | _ => None
      end
  end.

(* ---- well-formedness (the domain of the print/parse round trip) ---- *)
Definition nonempty (s : str) : bool := match s with [] => false | _ => true end.
Definition isempty (s : str) : bool := match s with [] => true | _ => false end.

Definition attr_ok (kv : str * str) : bool :=
  name_ok (fst kv) && negb (str_eqb (fst kv) xmlns_s) && all_legal (snd kv).

Definition is_text (t : xtree) : bool := match t with XT _ _ => true | XE _ _ _ _ => false end.

(* no two character-data nodes in a row (the printed form would merge them) *)
Fixpoint no_adj (ks : list xtree) : bool :=
  match ks with
  | [] => true
  | k :: ks' =>
      match ks' with
      | [] => true
      | k' :: _ => negb (is_text k && is_text k') && no_adj ks'
      end
  end.

(* [pns]: namespace of the parent.  Namespace-explicit: an element without a
   namespace cannot sit under one that has a namespace (it would be read back
   with the parent's). *)
Fixpoint wf_tree (pns : str) (t : xtree) : bool :=
  match t with
  | XT raw s => nonempty s && all_legal s && implb raw (has_nl s)
  | XE ns l a kids =>
      name_ok l && all_legal ns && (nonempty ns || isempty pns)
      && forallb attr_ok a && no_adj kids
      && (fix go (ks : list xtree) : bool :=
            match ks with [] => true | k :: ks' => wf_tree ns k && go ks' end) kids
  end.

Definition is_elem (t : xtree) : bool := negb (is_text t).
(* a stand-alone document: one element, no namespace context *)
Definition wf_doc (t : xtree) : bool := is_elem t && wf_tree [] t.

(* ---- well-formed token lists (the domain of lex_print) ---- *)
Definition tok_ok (t : tok) : bool :=
  match t with
  | TS l a => name_ok l && forallb (fun kv => name_ok (fst kv) && all_legal (snd kv)) a
  | TE l => name_ok l
  | TX raw s => nonempty s && all_legal s && implb raw (has_nl s)
  end.
Definition tok_is_text (t : tok) : bool := match t with TX _ _ => true | _ => false end.
Fixpoint toks_no_adj (ts : list tok) : bool :=
  match ts with
  | [] => true
  | t :: ts' =>
      match ts' with
      | [] => true
      | t' :: _ => negb (tok_is_text t && tok_is_text t') && toks_no_adj ts'
      end
  end.
Definition wf_toks (ts : list tok) : bool := forallb tok_ok ts && toks_no_adj ts.
