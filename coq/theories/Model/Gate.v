(* C04, the two paths by which data leaves the client OUTSIDE NewSession:

   1. the send gate of Client (client.go: sendGate/sendClosed, setSendClosed, sendWithWriter):
      Send / SendRaw / SendIQ / the stream-management resend all end in sendWithWriter.
      connect() closes the gate before XMPPTransport.Connect installs the new, clear-text
      connection in the transport shared with the senders, and opens it only when the whole
      negotiation (the TLS gate of NewSession included) has succeeded.  The gate is a state
      machine over the events of one Client object; its ghost [g_tls] is the state of the real
      channel, fed by the outputs of Model/Session.connect.

   2. the opening handshake of WebsocketTransport.Connect (websocket_transport.go): the HTTP
      request follows redirects (net/http), but never from an https URL to one that is not
      (noDowngradeRedirect), and IsSecure reports the connection the handshake ended on
      (response.TLS), not the configured address.

   Executable definitions only. *)
From Coq Require Import List ZArith NArith Bool Arith.
From XV Require Import Lib.Sx Model.Session.
Import ListNotations.

(* ------------------------------------------------------------------ send gate *)
Record gate := {
  g_closed : bool;     (* Client.sendClosed *)
  g_conn : bool;       (* the transport holds a connection (XMPPTransport.readWriter != nil) *)
  g_tls : bool }.      (* ghost: that connection really is TLS, handshake and verification done *)

(* a new Client: gate open, but nothing to write on *)
Definition gate0 : gate := {| g_closed := false; g_conn := false; g_tls := false |}.

Inductive gev :=
| GBegin (dial_ok : bool)   (* connect(): setSendClosed(true); transport.Connect() *)
| GOut (x : out)            (* a request written by the negotiation (it does not pass the gate) *)
| GEnd (r : result)         (* connect() returns; setSendClosed(false) only on success *)
| GSend                     (* sendWithWriter called by any goroutine: Send / SendRaw / SendIQ *)
| GResend.                  (* SendMissingStz (router.go): an <a h/> routed by the go routine the receiver
                               started for it, possibly long after its connection is gone, or a call by the
                               application; the stanzas still held for the session are written again through
                               resendRaw -> sendWithWriter (abstracted: one write for the batch) *)

Inductive sres :=
| Refused                   (* error returned, nothing written *)
| Written (tls : bool).     (* written on the connection of the moment; ghost: was it TLS *)

Definition gstep (s : gate) (e : gev) : gate * list sres :=
  match e with
  | GBegin d =>
      (* a failed dial leaves the previous readWriter in place *)
      ({| g_closed := true; g_conn := g_conn s || d; g_tls := if d then false else g_tls s |}, [])
  | GOut x => ({| g_closed := g_closed s; g_conn := g_conn s; g_tls := o_tls x |}, [])
  | GEnd r =>
      ({| g_closed := match r with Ok => false | Err _ _ => g_closed s end;
          g_conn := g_conn s; g_tls := g_tls s |}, [])
  | GSend | GResend =>
      (s, [if g_closed s then Refused else if g_conn s then Written (g_tls s) else Refused])
  end.

Fixpoint grun (s : gate) (es : list gev) : gate * list sres :=
  match es with
  | [] => (s, [])
  | e :: es' =>
      let '(s1, r1) := gstep s e in
      let '(s2, r2) := grun s1 es' in (s2, r1 ++ r2)
  end.

(* sends made by other goroutines while connect() runs: [during] lists, for each of them, how many
   requests the negotiation had written by then (anything >= the number of requests: after the
   last one, before connect() returns) *)
Definition count_at (k : nat) (during : list nat) : nat := length (filter (Nat.eqb k) during).
Definition count_from (k : nat) (during : list nat) : nat := length (filter (Nat.leb k) during).

(* [during]: the sends, [rduring]: the retransmissions; at one position the sends come first *)
Fixpoint weave (w : list out) (k : nat) (during rduring : list nat) : list gev :=
  match w with
  | [] => repeat GSend (count_from k during) ++ repeat GResend (count_from k rduring)
  | x :: w' => (repeat GSend (count_at k during) ++ repeat GResend (count_at k rduring))
               ++ GOut x :: weave w' (S k) during rduring
  end.

(* pl_after / pl_rafter: sends / retransmissions after connect() returned *)
Record plan := { pl_during : list nat; pl_after : nat; pl_rduring : list nat; pl_rafter : nat }.

Definition conn_trace (dial : bool) (w : list out) (r : result) (pl : plan) : list gev :=
  GBegin dial :: weave w 0 (pl_during pl) (pl_rduring pl)
  ++ GEnd r :: (repeat GSend (pl_after pl) ++ repeat GResend (pl_rafter pl)).

(* a history of connections on one Client, with the sends of each; result: per connection, what
   became of its sends, in program order *)
Fixpoint gate_conns (cfg : config) (p : persist) (g : gate) (cs : list (conn * plan)) : list (list sres) :=
  match cs with
  | [] => []
  | (c, pl) :: cs' =>
      let '(w, r, p1) := connect cfg (k_dial c) (k_tls c) p (k_script c) in
      let p2 := match r with Ok => add_inbound p1 (k_traffic c) | _ => p1 end in
      let '(g1, rs) := grun g (conn_trace (k_dial c) w r pl) in
      rs :: gate_conns cfg p2 g1 cs'
  end.

(* ------------------------------------------------------------------ writers in flight *)
(* sendWithWriter is not atomic: it takes the READ side of sendGate, looks at sendClosed, writes on
   whatever connection the transport holds AT THE TIME OF THE WRITE, and only then releases the lock.
   connect() takes the WRITE side in setSendClosed(true): it gets it only when no reader is left, so
   the dial that replaces the transport's connection cannot happen while a write is in flight.
   [GEnter]: a sender passes the check (or is refused at once); [GLeave]: its write happens now and
   the lock is released.  [hold] = false is the variant that releases the lock right after the check
   (not the code).  Steps that cannot happen in the state return None:
   - GBegin while readers hold the lock (hold = true): Lock() waits;
   - a write of the negotiation (GOut) or the end of connect (GEnd) outside connect (gate open);
   - GEnd Ok on a channel without TLS when Insecure is off: NewSession's own gate
     (GateP.connect_ok_final_tls proves it of Session.connect). *)
Record gate2 := { h_gate : gate; h_inflight : nat }.
Inductive gev2 := GE (e : gev) | GEnter | GLeave.

Definition gstep2 (insecure hold : bool) (s : gate2) (e : gev2) : option (gate2 * list sres) :=
  let g := h_gate s in
  let lift e := let '(g', rs) := gstep g e in Some ({| h_gate := g'; h_inflight := h_inflight s |}, rs) in
  match e with
  | GEnter =>
      if g_closed g then Some (s, [Refused])
      else Some ({| h_gate := g; h_inflight := S (h_inflight s) |}, [])
  | GLeave =>
      match h_inflight s with
      | O => None
      | S n => Some ({| h_gate := g; h_inflight := n |}, [if g_conn g then Written (g_tls g) else Refused])
      end
  | GE (GBegin d) =>
      if hold && negb (Nat.eqb (h_inflight s) 0) then None else lift (GBegin d)
  | GE (GOut x) => if g_closed g then lift (GOut x) else None
  | GE (GEnd Ok) => if g_closed g && (insecure || g_tls g) then lift (GEnd Ok) else None
  | GE (GEnd r) => if g_closed g then lift (GEnd r) else None
  | GE e => lift e
  end.

Fixpoint grun2 (insecure hold : bool) (s : gate2) (es : list gev2) : option (gate2 * list sres) :=
  match es with
  | [] => Some (s, [])
  | e :: es' =>
      match gstep2 insecure hold s e with
      | None => None
      | Some (s1, r1) =>
          match grun2 insecure hold s1 es' with
          | None => None
          | Some (s2, r2) => Some (s2, r1 ++ r2)
          end
      end
  end.

Definition gate2_0 : gate2 := {| h_gate := gate0; h_inflight := 0 |}.

(* can the dial of a reconnection happen while a sender that passed the gate on an established TLS
   session is still inside its write? *)
Definition dial_overtakes_writer (hold : bool) : bool :=
  match gstep2 false hold {| h_gate := {| g_closed := false; g_conn := true; g_tls := true |}; h_inflight := 1 |}
               (GE (GBegin true)) with
  | None => false
  | Some _ => true
  end.

(* ------------------------------------------------------------------ websocket opening handshake *)
Inductive scheme := Https | Http.     (* wss:// is dialled as https://, ws:// as http:// *)

(* the URL the handshake ends on: [cur] is the URL being requested ([n] requests made before
   it), [redirects] the schemes of the Location of each redirect answer in turn.  [tls_ok]: the TLS
   handshake with an https endpoint succeeds under the TLS configuration of the APPLICATION
   (Config.TLSConfig, cloned into the dialling HTTP transport: its roots, its verification callbacks;
   the name checked is ServerName or else the host of the URL) -- a request to an https URL whose
   handshake fails is a dial error. *)
Fixpoint ws_dial (tls_ok : bool) (cur : scheme) (redirects : list scheme) (n : nat) : option scheme :=
  match cur, tls_ok with
  | Https, false => None
  | _, _ =>
      match redirects with
      | [] => Some cur
      | nxt :: rest =>
          if Nat.leb 10 (S n) then None                         (* stopped after 10 redirects *)
          else match cur, nxt with
               | Https, Http => None                            (* noDowngradeRedirect *)
               | _, _ => ws_dial tls_ok nxt rest (S n)
               end
      end
  end.

Definition ws_secure (s : scheme) : bool := match s with Https => true | Http => false end.

(* WebsocketTransport.IsSecure: the CONFIGURED address is a wss:// one and the connection the handshake
   ended on runs over TLS.  (A ws:// address redirected to https:// is not secure: the redirect was
   received in clear text, whoever sent it chose the host the certificate is then checked against.) *)
Definition ws_is_secure (addr final : scheme) : bool := ws_secure addr && ws_secure final.

Inductive wres :=
| WDialError                (* Connect fails: nothing but HTTP requests was written *)
| WNoTls                    (* NewSession: "transport does not support starttls": error before auth *)
| WAuth (tls : bool).       (* authentication data written; was the connection TLS *)

(* Client.connect over the websocket transport, up to the first write of authentication data
   (the server offers a mechanism the client has) *)
Definition ws_connect (insecure tls_ok : bool) (addr : scheme) (redirects : list scheme) : wres :=
  match ws_dial tls_ok addr redirects 0 with
  | None => WDialError
  | Some s => if ws_is_secure addr s || insecure then WAuth (ws_secure s) else WNoTls
  end.
