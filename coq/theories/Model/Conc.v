(* Interleaving model of the pending-IQ table: Router.NewIQResultRoute, the IQ branch of
   Router.route, the canceller goroutine (router.go) and SendIQ (client.go,
   component.go).  One [act] = one atomic step of one goroutine (a critical section
   under IQResultRouteLock, one channel operation, one handler call); any sequence of
   actions is a schedule.  Channels are Go channels with a one-slot buffer: sending on
   a closed channel or closing twice is a panic, sending on a full buffer blocks.
   Only a response (result/error) is looked up among the pending requests: a request
   (get/set) that carries the id of a pending request is routed like any other packet.
   SendIQ refuses an id that is still awaiting its response (nothing registered, nothing
   written); the entry of a request whose context has ended may be replaced.
   Executable definitions only. *)
From Coq Require Import List ZArith NArith Bool.
From XV Require Import Lib.Sx.
Import ListNotations.

Definition iqid := N.
(* the type attribute of an inbound IQ: result/error (a response), get/set (a request), or
   anything else (missing, "Result", "ERROR", "foo", ...: the decoder hands such stanzas on) *)
Inductive iqkind := KResponse | KRequest | KOther.
(* an inbound IQ: its id, a tag telling copies apart, and its kind *)
Record resp := { rid : iqid; rtag : N; rkind : iqkind }.
(* not a response: only type result or error can answer a pending request *)
Definition rreq (r : resp) : bool := match rkind r with KResponse => false | _ => true end.
Definition result (i : iqid) (v : N) : resp := {| rid := i; rtag := v; rkind := KResponse |}.
Definition request (i : iqid) (v : N) : resp := {| rid := i; rtag := v; rkind := KRequest |}.
Definition other (i : iqid) (v : N) : resp := {| rid := i; rtag := v; rkind := KOther |}.

Record chst := {
  c_owner : iqid;            (* id the request was registered under *)
  c_buf : option resp;       (* the one-slot buffer *)
  c_closed : bool;
  c_got : list resp;         (* what the requester has read from it *)
  c_done : bool }.           (* the request's context has ended *)

(* program counter of a routing goroutine handling one inbound IQ *)
Inductive rpc :=
| RStart                     (* about to look the id up (and remove the entry) under the lock *)
| RSend (c : nat)            (* owns pending route c: about to send on its channel *)
| RClose (c : nat)           (* sent: about to close the channel *)
| RCloseOrd (c : nat)        (* owns route c but its context had ended: close, then ordinary routing *)
| ROrd                       (* about to hand the packet to the ordinary routes *)
| RDone.
Record rthread := { r_iq : resp; r_pc : rpc }.

Record cst := {
  table : list (iqid * nat);   (* Router.IQResultRoutes: id -> channel index *)
  chans : list chst;
  routers : list rthread;
  ordinary : list resp;        (* packets handed to the ordinary routes *)
  arrived : list resp;         (* every IQ that has arrived (ghost) *)
  refused : list nat;          (* request slots whose SendIQ was refused: id still pending *)
  panicked : bool }.

Definition c_init : cst :=
  {| table := []; chans := []; routers := []; ordinary := []; arrived := []; refused := []; panicked := false |}.

Inductive act :=
| ARegister (i : iqid)        (* SendIQ -> newIQResultRoute: new channel, table[i] := it; refused if i is still pending *)
| AUnregister (c : nat)       (* SendIQ: the write failed, the route is removed again (if still this one) *)
| AArrive (r : resp)          (* an IQ (response or request) arrives on the receive path: a routing goroutine starts *)
| ARouter (k : nat)           (* routing goroutine k performs its next atomic step *)
| ARecv (c : nat)             (* the requester takes a value from its channel, if one is there *)
| ACancel (c : nat)           (* the context of request c ends *)
| ACancelDelete (c : nat).    (* the canceller removes the entry, if it is still this route *)

Fixpoint lookup (i : iqid) (t : list (iqid * nat)) : option nat :=
  match t with
  | [] => None
  | (j, c) :: t' => if N.eqb i j then Some c else lookup i t'
  end.
Fixpoint remove_id (i : iqid) (t : list (iqid * nat)) : list (iqid * nat) :=
  match t with
  | [] => []
  | (j, c) :: t' => if N.eqb i j then remove_id i t' else (j, c) :: remove_id i t'
  end.
Fixpoint remove_chan (c : nat) (t : list (iqid * nat)) : list (iqid * nat) :=
  match t with
  | [] => []
  | (j, d) :: t' => if Nat.eqb c d then remove_chan c t' else (j, d) :: remove_chan c t'
  end.

Fixpoint upd {A} (l : list A) (n : nat) (f : A -> A) : list A :=
  match l, n with
  | [], _ => []
  | x :: l', O => f x :: l'
  | x :: l', S n' => x :: upd l' n' f
  end.

Definition set_table (s : cst) t := {| table := t; chans := chans s; routers := routers s; ordinary := ordinary s; arrived := arrived s; refused := refused s; panicked := panicked s |}.
Definition set_chans (s : cst) c := {| table := table s; chans := c; routers := routers s; ordinary := ordinary s; arrived := arrived s; refused := refused s; panicked := panicked s |}.
Definition set_routers (s : cst) r := {| table := table s; chans := chans s; routers := r; ordinary := ordinary s; arrived := arrived s; refused := refused s; panicked := panicked s |}.
Definition set_pc (s : cst) (k : nat) (pc : rpc) : cst :=
  set_routers s (upd (routers s) k (fun t => {| r_iq := r_iq t; r_pc := pc |})).
Definition panic (s : cst) := {| table := table s; chans := chans s; routers := routers s; ordinary := ordinary s; arrived := arrived s; refused := refused s; panicked := true |}.

Definition new_chan (i : iqid) : chst :=
  {| c_owner := i; c_buf := None; c_closed := false; c_got := []; c_done := false |}.

Definition router_step (s : cst) (k : nat) : cst :=
  match nth_error (routers s) k with
  | None => s
  | Some t =>
      match r_pc t with
      | RStart =>
          if rreq (r_iq t) then set_pc s k ROrd     (* not a result/error: answers nothing, ordinary routing *)
          else
          (* lookup and delete in ONE critical section *)
          match lookup (rid (r_iq t)) (table s) with
          | None => set_pc s k ROrd
          | Some c =>
              let s1 := set_table s (remove_id (rid (r_iq t)) (table s)) in
              match nth_error (chans s) c with
              | Some ch => if c_done ch then set_pc s1 k (RCloseOrd c) else set_pc s1 k (RSend c)
              | None => set_pc s1 k ROrd
              end
          end
      | RSend c =>
          match nth_error (chans s) c with
          | None => s
          | Some ch =>
              if c_closed ch then panic s                      (* send on closed channel *)
              else match c_buf ch with
                   | Some _ => s                               (* buffer full: blocked *)
                   | None =>
                       set_pc (set_chans s (upd (chans s) c (fun ch =>
                         {| c_owner := c_owner ch; c_buf := Some (r_iq t); c_closed := false;
                            c_got := c_got ch; c_done := c_done ch |}))) k (RClose c)
                   end
          end
      | RClose c | RCloseOrd c =>
          match nth_error (chans s) c with
          | None => s
          | Some ch =>
              if c_closed ch then panic s                      (* close of closed channel *)
              else set_pc (set_chans s (upd (chans s) c (fun ch =>
                     {| c_owner := c_owner ch; c_buf := c_buf ch; c_closed := true;
                        c_got := c_got ch; c_done := c_done ch |})))
                     k (match r_pc t with RClose _ => RDone | _ => ROrd end)
          end
      | ROrd =>
          set_pc {| table := table s; chans := chans s; routers := routers s;
                    ordinary := ordinary s ++ [r_iq t]; arrived := arrived s; refused := refused s; panicked := panicked s |} k RDone
      | RDone => s
      end
  end.

(* the request is accepted: slot length (chans s) is its channel, table[i] := it *)
Definition register (s : cst) (i : iqid) : cst :=
  {| table := (i, length (chans s)) :: remove_id i (table s);
     chans := chans s ++ [new_chan i]; routers := routers s; ordinary := ordinary s;
     arrived := arrived s; refused := refused s; panicked := panicked s |}.
(* the request is refused: the caller gets an error and no channel, nothing is registered or
   written.  The request still takes a slot (so that slot numbers are SendIQ call numbers);
   the slot is in no table entry and stays empty for ever. *)
Definition refuse (s : cst) (i : iqid) : cst :=
  {| table := table s;
     chans := chans s ++ [new_chan i]; routers := routers s; ordinary := ordinary s;
     arrived := arrived s; refused := refused s ++ [length (chans s)]; panicked := panicked s |}.
(* is id i awaiting its response: registered, context not ended *)
Definition live (s : cst) (i : iqid) : bool :=
  match lookup i (table s) with
  | Some c => match nth_error (chans s) c with Some ch => negb (c_done ch) | None => false end
  | None => false
  end.

Definition c_step (s : cst) (a : act) : cst :=
  match a with
  | ARegister i => if live s i then refuse s i else register s i
  | AUnregister c | ACancelDelete c =>
      match a, nth_error (chans s) c with
      | ACancelDelete _, Some ch => if c_done ch then set_table s (remove_chan c (table s)) else s
      | AUnregister _, Some _ => set_table s (remove_chan c (table s))
      | _, _ => s
      end
  | AArrive r =>
      {| table := table s; chans := chans s; routers := routers s ++ [{| r_iq := r; r_pc := RStart |}];
         ordinary := ordinary s; arrived := arrived s ++ [r]; refused := refused s; panicked := panicked s |}
  | ARouter k => router_step s k
  | ARecv c =>
      set_chans s (upd (chans s) c (fun ch =>
        match c_buf ch with
        | Some v => {| c_owner := c_owner ch; c_buf := None; c_closed := c_closed ch;
                       c_got := c_got ch ++ [v]; c_done := c_done ch |}
        | None => ch
        end))
  | ACancel c =>
      set_chans s (upd (chans s) c (fun ch =>
        {| c_owner := c_owner ch; c_buf := c_buf ch; c_closed := c_closed ch;
           c_got := c_got ch; c_done := true |}))
  end.

Definition c_run (s : cst) (l : list act) : cst := fold_left c_step l s.

(* a routing goroutine is blocked when its next step does not change the state *)
Definition blocked (s : cst) (k : nat) : bool :=
  match nth_error (routers s) k with
  | Some t =>
      match r_pc t with
      | RSend c => match nth_error (chans s) c with
                   | Some ch => negb (c_closed ch) && match c_buf ch with Some _ => true | None => false end
                   | None => true
                   end
      | RClose c | RCloseOrd c => match nth_error (chans s) c with Some _ => false | None => true end
      | _ => false
      end
  | None => false
  end.
