(* Model of stanza.UnAckQueue (stanza/stream_management.go): Uslice as a list
   of (Id, Stz), head first.  Executable definitions only. *)
From Coq Require Import List ZArith NArith Bool.
From XV Require Import Lib.Sx.
Import ListNotations.
Open Scope Z_scope.

Notation entry := (Z * str)%type (only parsing).
Notation queue := (list (Z * str)%type) (only parsing).

Inductive qop :=
| QPush (s : str) | QPop | QPopN (k : Z) | QPeek | QPeekN (k : Z) | QEmpty
| QDropLast    (* UnAckQueue.DropLast: Client.writeHeld calls it when the write of the packet just pushed is refused *)
| QPushForeign.   (* Push of a Queueable that is not an *UnAckedStz: refused (an error), the queue object is as it was *)

Inductive qout :=
| QNil                      (* nil / no value *)
| QOne (e : entry)
| QMany (l : list entry)
| QBool (b : bool)
| QRefused.                 (* an error *)

Definition last_id (q : queue) : option Z :=
  match rev q with [] => None | (i, _) :: _ => Some i end.

(* The queue object: Uslice and the unexported lastId (highest sequence number ever
   assigned, so that numbering continues after acknowledgements emptied the queue). *)
Notation qstate := (list (Z * str) * Z)%type (only parsing).
Definition q_items (st : qstate) : queue := fst st.

(* Push: pushIdx := lastId + 1, or last.Id + 1 when the tail entry's Id is not below it *)
Definition push_id (st : qstate) : Z :=
  let idx := snd st + 1 in
  match last_id (fst st) with
  | Some i => if idx <=? i then i + 1 else idx
  | None => idx
  end.
Definition q_push (st : qstate) (s : str) : qstate :=
  (fst st ++ [(push_id st, s)], push_id st).

(* DropLast: when the tail entry carries lastId (it is the entry of the last Push, or of the Push before it
   if that one was taken back already) it leaves the queue and lastId goes down by one; otherwise nothing *)
Definition q_droplast (st : qstate) : qstate :=
  match last_id (fst st) with
  | Some i => if i =? snd st then (removelast (fst st), snd st - 1) else st
  | None => st
  end.

(* PeekN: nil when n <= 0 or the queue is empty; else first min(n,len) *)
Definition q_peekn (q : queue) (k : Z) : list entry :=
  if k <=? 0 then [] else firstn (Z.to_nat (Z.min k (Z.of_nat (length q)))) q.

Definition q_popn (q : queue) (k : Z) : list entry * queue :=
  let r := q_peekn q k in (r, skipn (length r) q).

Definition q_peek (q : queue) : option entry :=
  match q with [] => None | e :: _ => Some e end.

Definition q_pop (q : queue) : option entry * queue :=
  match q with [] => (None, []) | e :: q' => (Some e, q') end.

Definition many (l : list entry) : qout :=
  match l with [] => QNil | _ => QMany l end.
Definition one (o : option entry) : qout :=
  match o with None => QNil | Some e => QOne e end.

Definition q_step (st : qstate) (o : qop) : qstate * qout :=
  let q := fst st in
  match o with
  | QPush s => (q_push st s, QNil)
  | QPop => let '(r, q') := q_pop q in ((q', snd st), one r)
  | QPopN k => let '(r, q') := q_popn q k in ((q', snd st), many r)
  | QPeek => (st, one (q_peek q))
  | QPeekN k => (st, many (q_peekn q k))
  | QEmpty => (st, QBool (match q with [] => true | _ => false end))
  | QDropLast => (q_droplast st, QNil)
  | QPushForeign => (st, QRefused)
  end.

Definition q_init : qstate := ([], 0).

(* run a history, returning every (result, queue contents) *)
Fixpoint q_run (st : qstate) (ops : list qop) : list (qout * queue) :=
  match ops with
  | [] => []
  | o :: ops' => let '(st', r) := q_step st o in (r, fst st') :: q_run st' ops'
  end.

(* the queue object after a history *)
Definition q_exec (st : qstate) (ops : list qop) : qstate :=
  fold_left (fun s o => fst (q_step s o)) ops st.

(* ---- reference FIFO: a plain list of payloads ---- *)
Definition fifo := list str.
Inductive fout := FNil | FOne (s : str) | FMany (l : list str) | FBool (b : bool) | FRefused.

Definition f_take (f : fifo) (k : Z) : list str :=
  if k <=? 0 then [] else firstn (Z.to_nat (Z.min k (Z.of_nat (length f)))) f.

Definition fmany (l : list str) := match l with [] => FNil | _ => FMany l end.

Definition f_step (f : fifo) (o : qop) : fifo * fout :=
  match o with
  | QPush s => (f ++ [s], FNil)
  | QPop => match f with [] => ([], FNil) | x :: f' => (f', FOne x) end
  | QPopN k => let r := f_take f k in (skipn (length r) f, fmany r)
  | QPeek => (f, match f with [] => FNil | x :: _ => FOne x end)
  | QPeekN k => (f, fmany (f_take f k))
  | QEmpty => (f, FBool (match f with [] => true | _ => false end))
  | QDropLast => (removelast f, FNil)   (* the newest entry is taken back *)
  | QPushForeign => (f, FRefused)       (* not an element of this FIFO *)
  end.

Definition q_abs (q : queue) : fifo := map snd q.
Definition out_abs (o : qout) : fout :=
  match o with
  | QNil => FNil | QOne e => FOne (snd e)
  | QMany l => FMany (map snd l) | QBool b => FBool b
  | QRefused => FRefused
  end.

(* ---- reference for the numbering: the log of the payloads pushed and not taken back, oldest first, and
   how many of them have left the queue at its head.  The sequence number of an entry is its position in
   the log (from 1). ---- *)
Definition nlog := (list str * nat)%type.
Definition l_init : nlog := ([], O).
Definition l_step (s : nlog) (o : qop) : nlog :=
  let '(lg, p) := s in
  match o with
  | QPush x => (lg ++ [x], p)
  | QPop => (lg, if (p <? length lg)%nat then S p else p)
  | QPopN k => (lg, (p + length (f_take (skipn p lg) k))%nat)
  | QDropLast => if (p <? length lg)%nat then (removelast lg, p) else (lg, p)
  | QPeek | QPeekN _ | QEmpty | QPushForeign => (lg, p)
  end.
Definition l_exec (s : nlog) (ops : list qop) : nlog := fold_left l_step ops s.

(* l numbered a, a+1, ... *)
Fixpoint numbered (a : Z) (l : list str) : queue :=
  match l with [] => [] | x :: l' => (a, x) :: numbered (a + 1) l' end.

(* number of pushes, and of DropLast calls that took an entry back (those made on a non-empty queue),
   counted on the reference FIFO *)
Definition n_pushes (ops : list qop) : nat :=
  length (filter (fun o => match o with QPush _ => true | _ => false end) ops).
Fixpoint n_taken_back (f : fifo) (ops : list qop) : nat :=
  match ops with
  | [] => O
  | o :: ops' =>
      ((match o, f with QDropLast, _ :: _ => 1 | _, _ => 0 end) + n_taken_back (fst (f_step f o)) ops')%nat
  end.
