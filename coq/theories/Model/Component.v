(* Model of Component.handshake and Component.Resume/Connect (component.go).
   Strings are lists of bytes.  Executable definitions only.

   Resume:  NewComponentTransport(cfg)        error -> state PermanentError, ConnError permanent
            transport.Connect()               error -> state PermanentError, the transport's own ConnError
                                                       (not permanent: refused / timed out dial, cut or
                                                       unreadable stream header)
              (dial + stream header; returns the id attribute of the server's stream
               header, already XML-unescaped by encoding/xml)
            write "<handshake>" + handshake(id) + "</handshake>"
                                              error -> state StreamError, ConnError NOT permanent
            stanza.NextPacket                 error -> closeRefused, state PermanentError, ConnError permanent
                                                       unless the connection itself was lost (connectionLost)
              StreamError  -> closeRefused, streamError("conflict", "no auth loop") (state StreamError,
                              event carries "conflict" whatever the condition was),
                              ConnError permanent
              Handshake    -> state SessionEstablished, go recv(), nil
              default      -> closeRefused, state PermanentError, ConnError permanent
   closeRefused: the connection of the failed attempt is closed before Resume returns.
   The receiver started on success serves THAT connection only (it is handed its transport);
   every end of the stream it sees (read error, stream error followed by the close, the
   server's </stream:stream>) leaves the state Disconnected. *)
From Coq Require Import List NArith Bool.
From XV Require Import Lib.Sx Model.Sha1 Model.Hex.
Import ListNotations.
Open Scope N_scope.

(* component.go handshake(): hex.EncodeToString(sha1(streamId + c.Secret)) *)
Definition handshake (id secret : str) : str := hex (sha1 (id ++ secret)).

Definition open_tag : str := [60; 104; 97; 110; 100; 115; 104; 97; 107; 101; 62].
  (* "<handshake>" *)
Definition close_tag : str := [60; 47; 104; 97; 110; 100; 115; 104; 97; 107; 101; 62].
  (* "</handshake>" *)
Definition handshake_element (id secret : str) : str :=
  open_tag ++ handshake id secret ++ close_tag.

(* ConnState, numbered as in client.go *)
Inductive cstate :=
| Disconnected | Resuming | Established | StreamErrorState | PermanentErrorState.

Definition cstate_num (s : cstate) : N :=
  match s with
  | Disconnected => 0 | Resuming => 1 | Established => 2
  | StreamErrorState => 3 | PermanentErrorState => 4
  end.

(* what the transport set-up yields *)
Inductive pre :=
| PBadTransport                 (* NewComponentTransport refuses the address (ws:, wss:) *)
| PConnectFail                  (* dial fails, or no acceptable stream header arrives *)
| PConnected (id : str).        (* stream header read; id = unescaped id attribute ("" if absent) *)

(* what NextPacket returns for the server's reply to the handshake *)
Inductive reply :=
| RHandshake                    (* a <handshake> element in jabber:component:accept *)
| RStreamError (cond : str)     (* <stream:error> with this condition element *)
| ROther (kind : N)             (* any other packet NextPacket can decode *)
| RReadError                    (* NextPacket error caused by what the server sent: malformed, unknown element *)
| RCut.                         (* NextPacket error caused by the connection: closed / cut before or inside the answer
                                   (session.go connectionLost: EOF, "unexpected EOF", a read error) *)

Record env := Env {
  e_pre : pre;
  e_write_ok : bool;            (* does the write of the handshake element succeed *)
  e_reply : reply }.

(* returned error: nil, or a ConnError with its Permanent flag *)
Inductive cerr := ErrNil | ErrConn (permanent : bool).

(* one call of the event handler: new state and the StreamError field of the Event *)
Definition event := (cstate * str)%type.

Record result := Result {
  r_err : cerr;
  r_state : cstate;             (* CurrentState when Connect returns *)
  r_recv : bool;                (* receive loop started (go c.recv()) *)
  r_written : list str;         (* what was written on the transport *)
  r_events : list event;
  r_open : bool }.              (* a connection is left open, on which Send writes, when Connect returns *)

Definition conflict : str := [99; 111; 110; 102; 108; 105; 99; 116].   (* "conflict" *)

(* every failure exit leaves nothing to send on: no transport (bad address), a transport that
   never connected or closed itself (StartStream), a writer that has just failed, or - after
   the handshake was written - the connection Resume closes itself (closeRefused) *)
Definition fail_with (perm : bool) (s : cstate) (written : list str) (ev : str) : result :=
  Result (ErrConn perm) s false written [(s, ev)] false.

Definition component_connect (secret : str) (e : env) : result :=
  match e_pre e with
  | PBadTransport => fail_with true PermanentErrorState [] []
  | PConnectFail => fail_with false PermanentErrorState [] []
  | PConnected id =>
      let hs := handshake_element id secret in
      if negb (e_write_ok e) then fail_with false StreamErrorState [] []
      else
        match e_reply e with
        | RReadError => fail_with true PermanentErrorState [hs] []
        | RCut => fail_with false PermanentErrorState [hs] []
        | RStreamError _ => fail_with true StreamErrorState [hs] conflict
        | RHandshake => Result ErrNil Established true [hs] [(Established, [])] true
        | ROther _ => fail_with true PermanentErrorState [hs] []
        end
  end.

(* the state once an established session has ended, by whichever side: the receive loop
   (Model/Recv.v's component loop) reports every end of the stream as Disconnected; an
   attempt that never was established keeps the state Connect left *)
Definition state_after_end (r : result) : cstate :=
  if r_recv r then Disconnected else r_state r.

(* "Stanzas are routed" is not modelled beyond [r_recv]: the receive loop (Model/Recv.v,
   C05/C12) routes what it reads; that a stanza sent after the reply reaches a handler
   exactly when [r_recv] holds is OBSERVED by the harness's probe, not proved. *)

(* ---- several connections of one Component value.  Resume builds a new transport and
   computes the digest from the current stream id and the secret only; nothing of an
   earlier connection enters (no field of Component is read by handshake but Secret).
   The k-th digest / outcome is therefore that of a first connection with the k-th
   id / environment. ---- *)
Definition handshakes (secret : str) (ids : list str) : list str :=
  map (fun id => handshake id secret) ids.

Definition component_sessions (secret : str) (es : list env) : list result :=
  map (component_connect secret) es.

(* ---- the reading side (the server): the character data between the two tags ---- *)
Fixpoint strip_prefix (p s : str) : option str :=
  match p with
  | [] => Some s
  | x :: p' => match s with
               | y :: s' => if N.eqb x y then strip_prefix p' s' else None
               | [] => None
               end
  end.

(* character data up to the next less-than sign *)
Fixpoint text_upto_lt (s : str) : str * str :=
  match s with
  | [] => ([], [])
  | c :: s' => if N.eqb c 60 then ([], s)
               else let '(t, r) := text_upto_lt s' in (c :: t, r)
  end.

Definition parse_handshake_element (s : str) : option str :=
  match strip_prefix open_tag s with
  | None => None
  | Some s1 => let '(t, r) := text_upto_lt s1 in
               if str_eqb r close_tag then Some t else None
  end.
