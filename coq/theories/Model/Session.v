(* Model of client session negotiation: Client.connect (client.go), NewSession and
   its steps (session.go), authSASL/authPlain (auth.go), the flag logic of
   XMPPTransport.Connect/StartStream/StartTLS/IsSecure (xmpp_transport.go), over an
   abstract alphabet of server replies.  One connection = [connect]; a history of
   connections = [run_conns] threading what survives on the Client/Session objects.
   Executable definitions only. *)
From Coq Require Import List ZArith NArith Bool.
From XV Require Import Lib.Sx.
Import ListNotations.
Open Scope N_scope.

Inductive tlsfeat := TlsNone | TlsOffered | TlsRequired.
Inductive sessfeat := SessAbsent | SessMandatory | SessOptional.
Record features := {
  f_tls : tlsfeat; f_mechs : list str; f_bind : bool; f_sess : sessfeat; f_sm : bool }.

Inductive iqtyp := TGet | TSet | TResult | TError.
Inductive iqpl := PlBind (jid : str) | PlSession | PlOther | PlNone.
Inductive resattr := ResTrue | ResFalse | ResAbsent | ResGarbage.

(* what the server can send.  The abstraction (harness/session.go, itemSx) reads the concrete
   elements as follows: [SHeader] is the opening element OF THE TRANSPORT IN USE (<stream:stream>
   over TCP, <open/> over WebSocket; the other transport's opening element is [SUnknown]);
   [SIq] is an <iq/> in the stream's own namespace that carries the id of the request it
   answers (an element merely called iq in another namespace, or an iq with another id - a
   foreign one, or the bind result sent once more where the session result is due - is
   [SUnknown]); [PlBind jid] is a <bind/> payload with a non-empty <jid/> (an empty <bind/>
   is [PlOther]).  Well-formedness is what encoding/xml checks: a start tag that repeats an
   attribute is accepted by it (the last value wins for the fields read here) and is outside
   this alphabet. *)
Inductive sitem :=
| SHeader (id : str)
| SFeatures (f : features)
| SProceed | STlsFailure
| SSuccess | SSaslFailure
| SIq (t : iqtyp) (pl : iqpl) (err : bool)
| SMessage | SPresence
| SEnabled (id : str) (r : resattr)
| SResumed (previd : str)
| SFailed
| SR | SA
| SStreamError
| SClose          (* </stream:stream>; the generator never sends anything after it *)
| SUnknown        (* element in a namespace the parser does not know *)
| SMalformed
| SEof.           (* connection closed *)

Record config := {
  c_insecure : bool;
  c_resource : str;
  c_sm_resume : bool;          (* Config.streamManagementResume as the application (or the hook) set it *)
  c_mechs : list str }.        (* Credential.mechanisms *)

(* what survives between connections on the Client, its Session and its transport *)
Record persist := {
  p_has_session : bool;        (* c.Session != nil *)
  p_sm_id : str;               (* Session.SMState.Id *)
  p_inbound : N;               (* Session.SMState.Inbound *)
  p_has_queue : bool;          (* Session.SMState.UnAckQueue != nil *)
  p_sm_enable : bool;          (* Config.StreamManagementEnable: never changed by the library *)
  p_bind_jid : str;
  p_packet_id : N;             (* Session.lastPacketId *)
  p_code_secure : bool;        (* XMPPTransport.isSecure *)
  p_tls_enabled : bool;        (* Session.TlsEnabled *)
  p_resume_refused : bool }.   (* Config.streamManagementResume was cleared: an <enabled/> did not grant resumption *)

Definition fresh (sm_enable : bool) : persist :=
  {| p_has_session := false; p_sm_id := []; p_inbound := 0; p_has_queue := false;
     p_sm_enable := sm_enable; p_bind_jid := []; p_packet_id := 0;
     p_code_secure := false; p_tls_enabled := false; p_resume_refused := false |}.

(* client requests as the server sees them *)
Inductive creq :=
| ROpen | RStartTls | RAuth (mech : str)
| RResume (previd : str) (h : N)
| RBind (res : str) (id : N) | RSession (id : N)
| REnable (resume : bool).
(* o_tls: ghost, the channel really is TLS.  o_seen: ghost, the server items the client
   has consumed since its previous request (what made it send this one). *)
Record out := { o_req : creq; o_tls : bool; o_seen : list sitem }.

Inductive result :=
| Ok
| Err (conn_error : bool) (permanent : bool).   (* ConnError? and its Permanent flag *)

Definition clear_sm (p : persist) : persist :=
  {| p_has_session := p_has_session p; p_sm_id := []; p_inbound := 0; p_has_queue := false;
     p_sm_enable := p_sm_enable p; p_bind_jid := p_bind_jid p; p_packet_id := p_packet_id p;
     p_code_secure := p_code_secure p; p_tls_enabled := p_tls_enabled p; p_resume_refused := p_resume_refused p |}.

Definition set_flags (p : persist) (sec tls : bool) : persist :=
  {| p_has_session := p_has_session p; p_sm_id := p_sm_id p; p_inbound := p_inbound p;
     p_has_queue := p_has_queue p; p_sm_enable := p_sm_enable p; p_bind_jid := p_bind_jid p;
     p_packet_id := p_packet_id p; p_code_secure := sec; p_tls_enabled := tls; p_resume_refused := p_resume_refused p |}.

(* NewSession returns no session on its early failures (features not received, TLS not
   negotiated).  Client.connect then keeps the Session object of the earlier connections (it
   replaces c.Session only by a session NewSession returns): everything held on it - the
   stream-management id, counters, queue, the bound JID - survives the failed attempt; a
   re-used Session has had its TlsEnabled cleared.  (The name is historical: before the
   repair the object, and the state with it, was dropped here.) *)
Definition drop_session (p : persist) : persist := set_flags p (p_code_secure p) false.

Definition with_session (p : persist) : persist :=
  {| p_has_session := true; p_sm_id := p_sm_id p; p_inbound := p_inbound p;
     p_has_queue := p_has_queue p; p_sm_enable := p_sm_enable p; p_bind_jid := p_bind_jid p;
     p_packet_id := p_packet_id p; p_code_secure := p_code_secure p; p_tls_enabled := p_tls_enabled p; p_resume_refused := p_resume_refused p |}.

Definition set_bind (p : persist) (jid : str) (pid : N) : persist :=
  {| p_has_session := p_has_session p; p_sm_id := p_sm_id p; p_inbound := p_inbound p;
     p_has_queue := p_has_queue p; p_sm_enable := p_sm_enable p; p_bind_jid := jid;
     p_packet_id := pid; p_code_secure := p_code_secure p; p_tls_enabled := p_tls_enabled p; p_resume_refused := p_resume_refused p |}.

(* a new stream-managed session: id, count zero, new queue; [refused]: whether the client's wish
   for resumption (Config.streamManagementResume) is cleared from now on *)
Definition set_sm (p : persist) (id : str) (refused : bool) : persist :=
  {| p_has_session := p_has_session p; p_sm_id := id; p_inbound := 0;
     p_has_queue := true; p_sm_enable := p_sm_enable p; p_bind_jid := p_bind_jid p;
     p_packet_id := p_packet_id p; p_code_secure := p_code_secure p; p_tls_enabled := p_tls_enabled p;
     p_resume_refused := refused |}.

Definition add_inbound (p : persist) (k : N) : persist :=
  {| p_has_session := p_has_session p; p_sm_id := p_sm_id p; p_inbound := p_inbound p + k;
     p_has_queue := p_has_queue p; p_sm_enable := p_sm_enable p; p_bind_jid := p_bind_jid p;
     p_packet_id := p_packet_id p; p_code_secure := p_code_secure p; p_tls_enabled := p_tls_enabled p; p_resume_refused := p_resume_refused p |}.

(* ---- the read primitives (DESIGN.md appendix A) ---- *)
(* InitStream: only a stream header *)
Definition read_header (s : list sitem) : option (str * list sitem) :=
  match s with SHeader id :: r => Some (id, r) | _ => None end.
(* Decode(&StreamFeatures): name-checked *)
Definition read_features (s : list sitem) : option (features * list sitem) :=
  match s with SFeatures f :: r => Some (f, r) | _ => None end.
(* DecodeElement(&TLSProceed): name-checked *)
Definition read_proceed (s : list sitem) : option (list sitem) :=
  match s with SProceed :: r => Some r | _ => None end.
(* The connection itself ended where an element was awaited: the script is over (the peer
   went away) or the connection is cut. *)
Definition conn_lost (s : list sitem) : bool :=
  match s with [] | SEof :: _ => true | _ => false end.
(* Where the first features, or <proceed/> with TLS mandatory, are awaited, a failure is
   transient when the connection was lost OR the server itself ended the stream there
   (</stream:stream>, <stream:error/>: it is going down or not up yet; decodeNext reports both
   as such); another ELEMENT in their place is an answer the server will give again. *)
Definition is_cut (s : list sitem) : bool :=
  match s with [] | SEof :: _ | SClose :: _ | SStreamError :: _ => true | _ => false end.
(* NextPacket: which items decode to a packet at all *)
Definition np_ok (i : sitem) : bool :=
  match i with
  | SFeatures _ | SSuccess | SSaslFailure | SIq _ _ _ | SMessage | SPresence
  | SEnabled _ _ | SResumed _ | SFailed | SR | SA | SStreamError | SClose => true
  | _ => false
  end.

Fixpoint mem_str (x : str) (l : list str) : bool :=
  match l with [] => false | y :: l' => str_eqb x y || mem_str x l' end.
(* authSASL: first credential mechanism the server offers *)
Fixpoint choose_mech (creds server : list str) : option str :=
  match creds with
  | [] => None
  | m :: creds' => if mem_str m server then Some m else choose_mech creds' server
  end.
(* only PLAIN and X-OAUTH2 are implemented by the switch in authSASL *)
Definition mech_plain : str := s_ [80;76;65;73;78]%Z.
Definition mech_oauth : str := s_ [88;45;79;65;85;84;72;50]%Z.
Definition implemented (m : str) : bool := str_eqb m mech_plain || str_eqb m mech_oauth.

Definition o (chan : bool) (r : creq) (seen : list sitem) : out :=
  {| o_req := r; o_tls := chan; o_seen := seen |}.

(* ---- steps after authentication (stream already restarted, features f read) ---- *)
(* the resume attribute of <enable/>: the application's wish, until an <enabled/> has not granted it *)
Definition resume_wish (cfg : config) (p : persist) : bool := c_sm_resume cfg && negb (p_resume_refused p).

(* EnableStreamManagement.  An <enabled/> that does not grant resumption (resume absent, false or
   not a boolean) refuses RESUMPTION only: stream management is on for this stream, the id is
   stored all the same, and later connections still ask for <enable/> - with resume='false'. *)
Definition step_enable (cfg : config) (chan : bool) (p : persist) (f : features) (s seen : list sitem)
  : list out * result * persist :=
  if f_sm f && p_sm_enable p then
    let w := [o chan (REnable (resume_wish cfg p)) seen] in
    match s with
    | SEnabled id r :: _ =>
        (w, Ok, set_sm p id (match r with ResTrue => p_resume_refused p | _ => true end))
    | SFailed :: _ => (w, Err false false, set_sm p [] (p_resume_refused p))
    | _ => (w, Err false false, p)
    end
  else ([], Ok, p).

Definition step_session (cfg : config) (chan : bool) (p : persist) (f : features) (s seen : list sitem)
  : list out * result * persist :=
  match f_sess f with
  | SessMandatory =>
      let pid := p_packet_id p + 1 in
      let p1 := set_bind p (p_bind_jid p) pid in
      let w := [o chan (RSession pid) seen] in
      match s with
      | SIq TResult pl e :: s' =>
          let '(w2, r, p2) := step_enable cfg chan p1 f s' [SIq TResult pl e] in (w ++ w2, r, p2)
      | _ => (w, Err false false, p1)
      end
  | _ => step_enable cfg chan p f s seen
  end.

Definition step_bind (cfg : config) (chan : bool) (p : persist) (f : features) (s seen : list sitem)
  : list out * result * persist :=
  let pid := p_packet_id p + 1 in
  let w := [o chan (RBind (c_resource cfg) pid) seen] in
  match s with
  | SIq TResult (PlBind jid) e :: s' =>
      let '(w2, r, p2) := step_session cfg chan (set_bind p jid pid) f s' [SIq TResult (PlBind jid) e] in
      (w ++ w2, r, p2)
  | _ => (w, Err false false, set_bind p (p_bind_jid p) pid)
  end.

Definition step_resume (cfg : config) (chan : bool) (p : persist) (f : features) (s seen : list sitem)
  : list out * result * persist :=
  if f_sm f && negb (str_eqb (p_sm_id p) []) then
    let w := [o chan (RResume (p_sm_id p) (p_inbound p)) seen] in
    match s with
    | SResumed previd :: _ =>
        if str_eqb previd (p_sm_id p) then (w, Ok, p)
        else (w, Err false false, clear_sm p)
    | SFailed :: s' =>
        let '(w2, r, p2) := step_bind cfg chan (clear_sm p) f s' [SFailed] in (w ++ w2, r, p2)
    | _ =>
        (* the connection went away before any answer arrived ([conn_lost]: nothing more, or the
           connection closed): neither confirmed nor refused, the state is kept for the next
           connection.  Anything the server did answer - another element, malformed XML, a
           closed stream - discards it. *)
        (w, Err false false, if conn_lost s then p else clear_sm p)
    end
  else
    (* no resumption on this stream.  When the server does not offer stream management at
       all, a session held from an earlier connection cannot be continued here: a new one
       is bound, and the held state is discarded (stanzas of the new session must never be
       counted into it). *)
    step_bind cfg chan (if f_sm f then p else clear_sm p) f s seen.

(* The same step when the WRITE of <resume/> may fail ([wfail]: the connection went away
   after the features were read).  The request has not reached the server: nothing was
   confirmed and nothing refused, so the state held is kept as it is; the write error ends
   the negotiation - no bind request follows on this stream - and the connection fails. *)
Definition resume_attempted (p : persist) (f : features) : bool :=
  f_sm f && negb (str_eqb (p_sm_id p) []).
Definition step_resume_w (wfail : bool) (cfg : config) (chan : bool) (p : persist) (f : features)
  (s seen : list sitem) : list out * result * persist :=
  if wfail && resume_attempted p f then ([], Err false false, p)
  else step_resume cfg chan p f s seen.

(* auth, then stream restart, then resume | bind ... *)
Definition step_auth (cfg : config) (chan : bool) (p : persist) (f : features) (s seen : list sitem)
  : list out * result * persist :=
  match choose_mech (c_mechs cfg) (f_mechs f) with
  | None => ([], Err true true, p)
  | Some m =>
      if negb (implemented m) then ([], Err true true, p) else
      let w := [o chan (RAuth m) seen] in
      match s with
      | SSuccess :: s1 =>
          let w1 := w ++ [o chan ROpen [SSuccess]] in
          match read_header s1 with
          | None => (w1, Err true false, p)
          | Some (id2, s2) =>
              match read_features s2 with
              | None => (w1, Err false false, p)
              | Some (f2, s3) =>
                  let '(w2, r, p2) := step_resume cfg chan p f2 s3 [SHeader id2; SFeatures f2] in
                  (w1 ++ w2, r, p2)
              end
          end
      | SSaslFailure :: _ => (w, Err true true, p)
      | _ => (w, Err false false, p)
      end
  end.

(* One connection.  dial_ok: the TCP connection could be opened; tls_ok: outcome of
   handshake + certificate/host-name verification if STARTTLS gets that far. *)
Definition connect (cfg : config) (dial_ok tls_ok : bool) (p0 : persist) (s : list sitem)
  : list out * result * persist :=
  (* a refused or timed-out TCP connection is a transient ConnError *)
  if negb dial_ok then ([], Err true false, p0) else
  (* XMPPTransport.Connect: new TCP connection, isSecure reset *)
  let p := set_flags p0 false (p_tls_enabled p0) in
  let w0 := [o false ROpen []] in
  match read_header s with
  | None => (w0, Err true false, p)
  | Some (id0, s1) =>
      (* NewSession: a re-used Session starts with TlsEnabled cleared *)
      let p := set_flags p false false in
      match read_features s1 with
      | None =>
          (* another element than the features: permanent; the connection cut before they
             arrived: as transient as a cut before the stream header *)
          (w0, Err true (negb (is_cut s1)), drop_session p)
      | Some (f, s2) =>
          (* startTlsIfSupported *)
          match f_tls f with
          | TlsNone =>
              if c_insecure cfg then
                let '(w, r, p') := step_auth cfg false (with_session p) f s2 [SHeader id0; SFeatures f] in
                (w0 ++ w, r, p')
              else (w0, Err true true, drop_session p)
          | _ =>
              let w1 := w0 ++ [o false RStartTls [SHeader id0; SFeatures f]] in
              match read_proceed s2 with
              | None =>
                  if c_insecure cfg then (w1, Err false false, with_session p)
                  else (w1, Err true (negb (is_cut s2)), drop_session p)
              | Some s3 =>
                  if tls_ok then
                    let p := set_flags p true true in
                    let w2 := w1 ++ [o true ROpen [SProceed]] in
                    match read_header s3 with
                    | None => (w2, Err true false, with_session p)
                    | Some (id1, s4) =>
                        match read_features s4 with
                        | None => (w2, Err false false, with_session p)
                        | Some (f1, s5) =>
                            let '(w, r, p') := step_auth cfg true (with_session p) f1 s5 [SHeader id1; SFeatures f1] in
                            (w2 ++ w, r, p')
                        end
                    end
                  else if c_insecure cfg then (w1, Err false false, with_session p)
                  else (w1, Err true true, drop_session p)
              end
          end
      end
  end.

(* ---- the same over the WebSocket transport (websocket_transport.go) ----
   The transport is secure or not FROM THE START (wss:// or ws://: IsSecure() reports whether
   the opening handshake ended on a TLS connection); it never does STARTTLS (DoesStartTLS is
   false), so NewSession asks for none and - TlsEnabled staying false - restarts no stream
   before authentication: after the stream open and the features comes <auth/> at once.
   On ws:// the TLS gate decides: without Insecure the negotiation ends there (a matter of
   policy: permanent), with Insecure it goes on in clear.  [secure]: the connection runs over
   TLS (ghost [o_tls] of every request). *)
Inductive transport := TTcp | TWs (secure : bool).

Definition connect_ws (cfg : config) (dial_ok secure : bool) (p0 : persist) (s : list sitem)
  : list out * result * persist :=
  if negb dial_ok then ([], Err true false, p0) else
  let w0 := [o secure ROpen []] in
  match read_header s with
  | None => (w0, Err true false, p0)
  | Some (id0, s1) =>
      let p := set_flags p0 (p_code_secure p0) false in
      match read_features s1 with
      | None => (w0, Err true (negb (is_cut s1)), drop_session p)
      | Some (f, s2) =>
          if secure || c_insecure cfg then
            let '(w, r, p') := step_auth cfg secure (with_session p) f s2 [SHeader id0; SFeatures f] in
            (w0 ++ w, r, p')
          else (w0, Err true true, drop_session p)
      end
  end.

Definition connect_on (t : transport) (cfg : config) (dial_ok tls_ok : bool) (p0 : persist) (s : list sitem)
  : list out * result * persist :=
  match t with
  | TTcp => connect cfg dial_ok tls_ok p0 s
  | TWs secure => connect_ws cfg dial_ok secure p0 s
  end.

(* ---- what the application is told (events delivered to the EventHandler) ----
   Client.connect (client.go) = transport.Connect + NewSession (the function [connect]
   above) followed, on the success path only, by updateState(StateSessionEstablished).
   On the failure path the connection is torn down (c.Disconnect()) and the error is
   returned: the handler is told nothing (in particular no Disconnected event: no session
   existed; that event made a StreamManager start a second retry loop). *)
Inductive cev := EvEstablished | EvDisconnected.
Definition announce (r : result) : list cev :=
  match r with Ok => [EvEstablished] | Err _ _ => [] end.
Definition client_connect (cfg : config) (dial_ok tls_ok : bool) (p0 : persist) (s : list sitem)
  : list out * result * persist * list cev :=
  let '(w, r, p) := connect cfg dial_ok tls_ok p0 s in (w, r, p, announce r).
Definition cev_eqb (a b : cev) : bool :=
  match a, b with EvEstablished, EvEstablished | EvDisconnected, EvDisconnected => true | _, _ => false end.
Definition count_ev (e : cev) (l : list cev) : nat := length (filter (cev_eqb e) l).

(* A history of connections; after a successful one, [traffic] stanzas are received
   before it is lost (Client.recv counts them: Model/Recv.v). *)
Record conn := { k_dial : bool; k_tls : bool; k_script : list sitem; k_traffic : N }.

Fixpoint run_conns (cfg : config) (p : persist) (cs : list conn)
  : list (list out * result * persist) :=
  match cs with
  | [] => []
  | c :: cs' =>
      let '(w, r, p1) := connect cfg (k_dial c) (k_tls c) p (k_script c) in
      let p2 := match r with Ok => add_inbound p1 (k_traffic c) | _ => p1 end in
      (w, r, p2) :: run_conns cfg p2 cs'
  end.

(* a history of connections of a Client on a given transport *)
Fixpoint run_conns_on (t : transport) (cfg : config) (p : persist) (cs : list conn)
  : list (list out * result * persist) :=
  match cs with
  | [] => []
  | c :: cs' =>
      let '(w, r, p1) := connect_on t cfg (k_dial c) (k_tls c) p (k_script c) in
      let p2 := match r with Ok => add_inbound p1 (k_traffic c) | _ => p1 end in
      (w, r, p2) :: run_conns_on t cfg p2 cs'
  end.

(* the same history as the application sees it: every connection with what was announced
   while it was being set up *)
Fixpoint run_clients (cfg : config) (p : persist) (cs : list conn)
  : list (list out * result * persist * list cev) :=
  match cs with
  | [] => []
  | c :: cs' =>
      let '(w, r, p1, ev) := client_connect cfg (k_dial c) (k_tls c) p (k_script c) in
      let p2 := match r with Ok => add_inbound p1 (k_traffic c) | _ => p1 end in
      (w, r, p2, ev) :: run_clients cfg p2 cs'
  end.

Definition reqs (w : list out) : list creq := map o_req w.

(* "each request is sent only after the previous step was confirmed": the items a
   request's [o_seen] must consist of, given the request before it *)
Definition confirms (r : creq) (seen : list sitem) : bool :=
  match r, seen with
  | ROpen, [SHeader _; SFeatures _] => true
  | RStartTls, [SProceed] => true
  | RAuth _, [SSuccess] => true
  | RResume _ _, [SFailed] => true
  | RBind _ _, [SIq TResult (PlBind _) _] => true
  | RSession _, [SIq TResult _ _] => true
  | _, _ => false
  end.
Fixpoint chain (prev : option creq) (w : list out) : bool :=
  match w with
  | [] => true
  | x :: w' =>
      match prev with
      | None => match o_seen x with [] => true | _ => false end
      | Some r => confirms r (o_seen x)
      end && chain (Some (o_req x)) w'
  end.
(* everything the client had consumed when it sent its last request *)
Definition consumed (w : list out) : list sitem := concat (map o_seen w).
