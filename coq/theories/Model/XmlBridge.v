(* Bridge between C01's byte-level XML model (Model/XmlText.v, XmlPrint.v, XmlLex.v:
   code points, printed element syntax, lexer, tree builder with default-namespace
   inheritance) and C02's token-level model (Model/XmlTree.v: UTF-8 bytes, names with
   resolved namespaces).  Executable definitions only.

   C01's trees are namespace-explicit: every element carries its own namespace, printed
   as xmlns="ns" in front of its attributes whenever it is non-empty.  Go's decoder
   delivers exactly that: Name{Space: ns, Local: local} and the declaration as the
   attribute Name{"", "xmlns"} in first position.  So the translation of trees is a map.
   Token lists are bridged through C01's own tree builder ([build], which resolves the
   namespace of un-prefixed names from the innermost declaration), not by a second
   resolver. *)
From Coq Require Import List NArith Bool.
From XV Require Import Lib.Sx Model.XmlText Model.XmlPrint Model.XmlLex Model.XmlTree Model.Parser.
Import ListNotations.
Local Open Scope N_scope.

(* code points -> UTF-8 bytes (C01 strings are code points, C02 strings are bytes) *)
Definition utf8_cp (c : N) : list N :=
  if c <? 128 then [c]
  else if c <? 2048 then [192 + c / 64; 128 + c mod 64]
  else if c <? 65536 then [224 + c / 4096; 128 + (c / 64) mod 64; 128 + c mod 64]
  else [240 + c / 262144; 128 + (c / 4096) mod 64; 128 + (c / 64) mod 64; 128 + c mod 64].
Definition utf8 (s : str) : str := flat_map utf8_cp s.

(* a written attribute (the xmlns declaration included) as Go delivers it: unqualified *)
Definition bridge_attr (kv : str * str) : attr := (([], utf8 (fst kv)), utf8 (snd kv)).

Fixpoint bridge_tree (t : xtree) : node :=
  match t with
  | XT _ s => NText (utf8 s)
  | XE ns l a kids =>
      NElem (utf8 ns, utf8 l) (map bridge_attr (raw_attrs ns a))
            ((fix go (ks : list xtree) : list node :=
                match ks with [] => [] | k :: ks' => bridge_tree k :: go ks' end) kids)
  end.
Definition bridge_trees (es : list xtree) : list node := map bridge_tree es.

(* ---- the printed stream (what follows the stream header) ---- *)
(*  </stream:stream>  : the one prefixed name of the protocol; outside C01's printed
    language (its names have no colon), so it is cut off before C01's lexer runs *)
Definition close_cp : str :=
  [60; 47; 115; 116; 114; 101; 97; 109; 58; 115; 116; 114; 101; 97; 109; 62].

(* every top-level element as xml.Marshal writes it, then the stream end tag *)
Definition print_stream (es : list xtree) : str := flat_map print es ++ close_cp.
(* the same without the end tag (the peer just stops sending) *)
Definition print_open_stream (es : list xtree) : str := flat_map print es.

Fixpoint strip_prefix (p l : str) : option str :=
  match p, l with
  | [], _ => Some l
  | x :: p', y :: l' => if x =? y then strip_prefix p' l' else None
  | _ :: _, [] => None
  end.
Definition strip_suffix (p l : str) : option str :=
  match strip_prefix (rev p) (rev l) with Some r => Some (rev r) | None => None end.

(* bytes -> top-level trees, with C01's lexer and tree builder *)
Definition lex_trees (l : str) : option (list xtree) :=
  match lex l with Some ts => build [] [] ts | None => None end.

(* bytes of a closed stream -> the tokens NextPacket's decoder sees (C02's token type) *)
Definition stream_tokens (l : str) : option (list token) :=
  match strip_suffix close_cp l with
  | Some body =>
      match lex_trees body with
      | Some es => Some (flatten_all (bridge_trees es) ++ [TEnd stream_name])
      | None => None
      end
  | None => None
  end.

(* bytes of a stream that just ends *)
Definition open_stream_tokens (l : str) : option (list token) :=
  match lex_trees l with
  | Some es => Some (flatten_all (bridge_trees es))
  | None => None
  end.
