(* C13 — the StreamManager re-establishes exactly one working session after each loss.

   Model/Manager.v: StreamManager.Run/connect/resume/Stop + Client.Connect/Resume + the
   end-of-connection paths of Client.recv, as a state machine over what the network, the
   server and the application's hooks do.  Sessions handed over, PostConnect calls,
   receivers started, the connection each running receiver reads and the retry loops alive
   are moved by separate decisions of the code; these decisions are a parameter of the
   step function.  Every theorem below is about the code as it is ([repaired]); the
   [_refuted] theorems show that the same statements fail for the code as it was before
   each repair, so none of them restates a definition.
   Model/ManagerSession.v + Model/Session.v: which outcome a connection is (classification
   of errors, resumed or freshly bound).

   What is runtime and NOT proved: the timing ("as soon as the server accepts again" is
   bounded by the back-off, C19, and by Transport.Close waiting up to ConnectTimeout for
   the peer's closing tag) and the go routine in which the handler runs; both are exercised
   by the harness against the real StreamManager and scripted servers. *)
From Coq Require Import List ZArith NArith Bool Lia.
From XV Require Import Lib.Sx Model.Manager Proofs.ManagerP Model.Session Model.SessionSpec
  Proofs.SessionSpecP Model.ManagerSession Proofs.ManagerSessionP.
Import ListNotations.
Open Scope nat_scope.

(* ---- exactly one new session for each termination ---- *)

(* After an abrupt drop, a graceful close or a stream error ending an established session,
   whatever happens in between without success -- refused and transiently failing attempts
   (a connection cut in mid-negotiation is one), attempts whose PostResumeHook fails, the
   reader left behind by a failed attempt meeting the end of its connection, the receiver
   that reported the stream error coming back from the handler -- one successful attempt
   gives: exactly one more session handed over, one more PostConnect, one more receiver,
   the only running receiver reads the new connection, no retry loop is left.  The session
   is the resumed one exactly when stream management is on, the client still holds its
   state (held_after: a failure that drops the Session object loses it) and the server
   grants the resumption. *)
Theorem C13_one_session_per_loss : forall sm es0 t noise g,
  let s := m_run repaired (m_init sm) es0 in
  m_phase s = MUp -> is_loss t = true -> forallb is_noise noise = true ->
  let s' := m_run repaired s (ETerm t :: noise ++ [EAttempt (AOk g)]) in
  m_phase s' = MUp /\ m_loops s' = 0 /\ m_live s' = [m_conns s'] /\
  m_sessions s' = S (m_sessions s) /\ m_post s' = S (m_post s) /\ m_recv s' = S (m_recv s) /\
  m_resumed s' = (if m_sm s && held_after (m_sm s) (m_held s) noise && g
                  then S (m_resumed s) else m_resumed s).
Proof. exact one_session_per_loss_reach. Qed.

(* ... repeated k times, from the start of Run: after k such rounds there have been exactly
   1 + k sessions, PostConnect calls and receivers *)
Theorem C13_k_rounds : forall sm g0 rounds,
  forallb round_ok rounds = true ->
  let s := m_run repaired (m_init sm) (EAttempt (AOk g0) :: flat_map round_events rounds) in
  m_phase s = MUp /\ m_sessions s = S (length rounds) /\ m_post s = S (length rounds) /\
  m_recv s = S (length rounds) /\ m_live s = [m_conns s] /\ m_loops s = 0 /\ m_selfclosed s = 0.
Proof. exact k_rounds. Qed.

(* In every reachable state, for every sequence of events: PostConnect ran once per session
   handed over and every such session got its receiver; the client never ended a session on
   its own, never created one after Run had returned. *)
Theorem C13_post_connect_once_per_session : forall sm es,
  let s := m_run repaired (m_init sm) es in
  m_post s = m_sessions s /\ m_recv s = m_sessions s /\ m_selfclosed s = 0 /\ m_late s = 0 /\
  m_resumed s <= m_sessions s /\ m_sessions s <= m_estab s /\ m_estab s <= m_conns s.
Proof. exact reach_counts. Qed.

(* at most one retry loop, and one exactly while the manager is reconnecting *)
Theorem C13_at_most_one_retry_loop : forall sm es,
  let s := m_run repaired (m_init sm) es in
  m_loops s <= 1 /\ (m_loops s = 1 <-> m_phase s = MRetry).
Proof. exact reach_one_loop. Qed.

(* keeps receiving on the NEW connection: while a session is up exactly one receiver runs
   and it reads the current connection; otherwise none runs *)
Theorem C13_receiver_reads_current_connection : forall sm es,
  let s := m_run repaired (m_init sm) es in
  m_live s = match m_phase s with MUp => [m_conns s] | _ => [] end.
Proof. exact reach_live. Qed.

(* ---- a permanent error ends the retry loop; Stop ---- *)
Theorem C13_permanent_stops : forall sm es0 d es,
  let s := m_run repaired (m_init sm) es0 in
  m_phase s = MRetry ->
  let s' := m_run repaired s (EAttempt (AFail true d) :: es) in
  m_sessions s' = m_sessions s /\ m_post s' = m_post s /\ m_recv s' = m_recv s /\
  m_conns s' = S (m_conns s) /\ m_estab s' = m_estab s /\
  (m_phase s' = MDead \/ m_phase s' = MReturned).
Proof. exact permanent_stops_reach. Qed.

(* Stop makes Run return: in every phase -- before the first connection is made, with a
   session up, in the middle of the retry loop, after a permanent error *)
Theorem C13_stop_returns : forall s, m_phase (m_step repaired s (ETerm TStop)) = MReturned.
Proof. exact (stop_returns repaired). Qed.

(* ... and is final: afterwards no connection is made, no session created, no PostConnect
   run, no receiver started, whatever the network and the server do next *)
Theorem C13_stop_is_final : forall s es,
  let s0 := m_step repaired s (ETerm TStop) in
  let s' := m_run repaired s0 es in
  m_phase s' = MReturned /\ m_sessions s' = m_sessions s /\ m_post s' = m_post s /\
  m_recv s' = m_recv s /\ m_conns s' = m_conns s /\ m_estab s' = m_estab s.
Proof. exact stop_is_final. Qed.

(* The two failures that look alike on the wire and are opposite: a connection that ends in
   the middle of the TLS handshake (at whatever offset of a record) is retried -- the loop is
   still there -- while rejected credentials end the loop also when the server hangs up
   before the client has closed its stream. *)
Theorem C13_handshake_cut_retried_hangup_final : forall sm es0 es,
  let s := m_run repaired (m_init sm) es0 in
  m_phase s = MRetry ->
  (let s1 := m_step repaired s (EAttempt handshake_cut) in
   m_phase s1 = MRetry /\ m_loops s1 = 1 /\ m_sessions s1 = m_sessions s /\ is_noise (EAttempt handshake_cut) = true) /\
  (let s2 := m_run repaired s (EAttempt rejected_then_hung_up :: es) in
   m_sessions s2 = m_sessions s /\ m_post s2 = m_post s /\ m_conns s2 = S (m_conns s) /\
   (m_phase s2 = MDead \/ m_phase s2 = MReturned)).
Proof. exact handshake_cut_retried_hangup_final. Qed.

(* ---- the statements above are false for the code as it was ---- *)
(* the reader of a failed attempt reported a loss (repaired in cccf687) *)
Theorem C13_stale_reader_refuted :
  let s := m_run with_stale (m_init false)
             [EAttempt (AOk false); ETerm TDrop; EAttempt (AFail false false); EStaleReader;
              EAttempt (AOk false); EAttempt (AOk false)] in
  m_sessions s = 3 /\ m_post s = 3 /\ length (m_live s) = 2.
Proof. exact stale_reader_refuted. Qed.
(* after a stream error the old receiver closed the new session (repaired in 1d0dfdb) *)
Theorem C13_old_receiver_refuted :
  let s := m_run with_old_recv (m_init false)
             [EAttempt (AOk false); ETerm TStreamError; EAttempt (AOk false); EOldReceiver;
              EAttempt (AOk false); EAttempt (AOk false)] in
  m_selfclosed s = 1 /\ m_sessions s = 4 /\ m_loops (m_run with_old_recv (m_init false)
             [EAttempt (AOk false); ETerm TStreamError; EAttempt (AOk false); EOldReceiver]) = 2.
Proof. exact old_receiver_refuted. Qed.
(* a Resume whose hook failed started a receiver all the same (repaired in 383f5a3) *)
Theorem C13_hook_start_refuted :
  let s := m_run with_hook_start (m_init false)
             [EAttempt (AOk false); ETerm TDrop; EAttempt (AHookFail false); EAttempt (AOk false)] in
  m_recv s = 3 /\ m_sessions s = 2 /\ length (m_live s) = 2.
Proof. exact hook_start_refuted. Qed.
(* Stop did not tell the retry loop: a session and its PostConnect after Run had returned *)
Theorem C13_stop_leak_refuted :
  let s := m_run with_stop_leak (m_init false)
             [EAttempt (AOk false); ETerm TDrop; EAttempt ARefused; ETerm TStop; EAttempt (AOk false)] in
  m_phase s = MReturned /\ m_late s = 1 /\ m_sessions s = 2 /\ m_post s = 2.
Proof. exact stop_leak_refuted. Qed.
(* Resume started no receiver (repaired in 51fc33e): the second loss is noticed by nobody *)
Theorem C13_no_receiver_refuted :
  let s := m_run with_no_recv (m_init false)
             [EAttempt (AOk false); ETerm TDrop; EAttempt (AOk false); ETerm TDrop; EAttempt (AOk false)] in
  m_recv s = 1 /\ m_sessions s = 2 /\ m_loops s = 0 /\ m_phase s = MRetry.
Proof. exact no_receiver_refuted. Qed.

(* ---- which outcome a connection is (Model/Session.v connect) ---- *)

(* a refused TCP connection is retried *)
Theorem C13_dial_refused_transient : forall cfg tls p script,
  attempt_of false (connect cfg false tls p script) = ARefused /\ is_noise (EAttempt ARefused) = true.
Proof. exact dial_refused_transient. Qed.

(* TLS policy failure is permanent: cleartext not allowed and STARTTLS not offered, refused
   (the server answers with something else than <proceed/>), or the handshake fails *)
Theorem C13_tls_policy_permanent : forall cfg tls p id f rest,
  c_insecure cfg = false ->
  (f_tls f = TlsNone \/
   ((forall r, rest <> SProceed :: r) /\ is_cut rest = false) \/
   ((exists r, rest = SProceed :: r) /\ tls = false)) ->
  exists d, attempt_of true (connect cfg true tls p (SHeader id :: SFeatures f :: rest)) = AFail true d.
Proof. exact tls_policy_permanent. Qed.

(* A REFUSED handshake is such a policy failure, not a cut.  The server has answered
   <proceed/> and the TLS handshake that follows fails (tls = false): because the server
   refuses it with an alert (no protocol version or cipher suite in common with what the
   application allows, a client certificate demanded) or because the client refuses the
   server's certificate (other name, unknown authority, out of date).  Cleartext not being
   allowed, the attempt is permanent -- whatever comes after <proceed/> in the script, also
   the end of the connection (a party that refuses a handshake closes the connection, which
   does not turn the refusal into a lost connection). *)
Theorem C13_refused_handshake_permanent : forall cfg p id f r,
  c_insecure cfg = false -> f_tls f <> TlsNone ->
  exists d, attempt_of true (connect cfg true false p (SHeader id :: SFeatures f :: SProceed :: r)) = AFail true d.
Proof. exact refused_handshake_permanent. Qed.

(* ... and after it the retry loop has ended: one connection (the refused one), no session
   ever again, whatever the network and the server do next *)
Theorem C13_refused_handshake_ends_retry_loop : forall cfg p id f r sm es0 es,
  c_insecure cfg = false -> f_tls f <> TlsNone ->
  let s := m_run repaired (m_init sm) es0 in
  m_phase s = MRetry ->
  let a := attempt_of true (connect cfg true false p (SHeader id :: SFeatures f :: SProceed :: r)) in
  let s' := m_run repaired s (EAttempt a :: es) in
  m_sessions s' = m_sessions s /\ m_post s' = m_post s /\ m_recv s' = m_recv s /\
  m_conns s' = S (m_conns s) /\ m_estab s' = m_estab s /\
  (m_phase s' = MDead \/ m_phase s' = MReturned).
Proof. exact refused_handshake_ends_retry_loop. Qed.

(* a connection that is cut in the middle of the negotiation is not permanent (it is noise
   in the sense of C13_one_session_per_loss): after the server's stream header and before its
   features; or after the client's <starttls/> and before <proceed/>.  (Whether NewSession
   hands back a Session object then -- the flag d -- is Model/Session.v's business; the client
   keeps the object it had, so the resumption state survives either way.) *)
Theorem C13_cut_in_negotiation_transient : forall cfg tls p id f rest,
  is_cut rest = true ->
  (exists d, attempt_of true (connect cfg true tls p (SHeader id :: rest)) = AFail false d) /\
  (f_tls f <> TlsNone ->
   exists d, attempt_of true (connect cfg true tls p (SHeader id :: SFeatures f :: rest)) = AFail false d) /\
  (forall d, is_noise (EAttempt (AFail false d)) = true).
Proof. exact cut_in_negotiation_transient. Qed.

(* rejected credentials are permanent (cleartext allowed, no STARTTLS offered; after a TLS
   upgrade the same step runs); the Session object stays *)
Theorem C13_rejected_credentials_permanent : forall cfg tls p id f rest m,
  c_insecure cfg = true -> f_tls f = TlsNone ->
  choose_mech (c_mechs cfg) (f_mechs f) = Some m -> implemented m = true ->
  exists d, attempt_of true (connect cfg true tls p (SHeader id :: SFeatures f :: SSaslFailure :: rest)) = AFail true d.
Proof. exact rejected_credentials_permanent. Qed.

(* ---- resumed when possible, freshly bound otherwise ---- *)
(* the step NewSession takes once authenticated: the server offers stream management, the
   client holds an id and the server confirms it: no bind request, the state held is kept *)
Theorem C13_resumed_when_possible : forall cfg c p f rest sn,
  f_sm f = true -> has_id p = true ->
  let x := step_resume cfg c p f (SResumed (p_sm_id p) :: rest) sn in
  res x = Ok /\ resumed_of (outs x) = true /\ pst x = p.
Proof. exact resumed_when_possible. Qed.
(* the server refuses the resumption, or nothing is held, or the stream has no stream
   management: a bind request goes out, the session is not the resumed one *)
Theorem C13_fresh_otherwise : forall cfg c p f s sn,
  ((f_sm f = true /\ has_id p = true /\ exists s1, s = SFailed :: s1) \/ has_id p = false \/ f_sm f = false) ->
  resumed_of (outs (step_resume cfg c p f s sn)) = false /\
  (res (step_resume cfg c p f s sn) = Ok -> existsb req_is_bind (reqs (outs (step_resume cfg c p f s sn))) = true).
Proof. exact fresh_otherwise. Qed.
(* and the manager model counts a session as resumed under exactly these conditions *)
Theorem C13_manager_resumes : forall s g,
  resumes s g = true <-> m_sm s = true /\ m_held s = true /\ g = true.
Proof. exact manager_resumes. Qed.

(* ---- resumed when possible: a reconnection attempt cut while the answer to <resume/> is awaited ---- *)
(* The client holds a state, the stream offers stream management, the <resume/> request goes
   out and the connection ends before any answer (or in the middle of it: nothing decodable
   arrived): no bind request follows on that stream, the attempt is a transient failure the
   retry loop waits out, and the state is exactly the one held before -- the server has
   neither confirmed nor refused it. *)
Theorem C13_cut_awaiting_resume_answer_keeps_state : forall cfg c p f s sn,
  f_sm f = true -> has_id p = true -> conn_lost s = true ->
  let x := step_resume cfg c p f s sn in
  reqs (outs x) = [RResume (p_sm_id p) (p_inbound p)] /\ pst x = p /\
  resume_step_attempt p x = cut_awaiting_resume_answer /\
  is_noise (EAttempt (resume_step_attempt p x)) = true.
Proof. exact cut_awaiting_answer_keeps_state. Qed.
(* so the attempt that follows presents the same id and count again, and when the server still
   knows the session it is the resumed one: no bind request *)
Theorem C13_resumed_after_cut_resume_answer : forall cfg c p f s sn rest sn',
  f_sm f = true -> has_id p = true -> conn_lost s = true ->
  let x := step_resume cfg c p f s sn in
  let y := step_resume cfg c (pst x) f (SResumed (p_sm_id p) :: rest) sn' in
  res y = Ok /\ resumed_of (outs y) = true /\ pst y = p /\
  reqs (outs y) = [RResume (p_sm_id p) (p_inbound p)].
Proof. exact resumed_after_cut_answer. Qed.
(* the manager: such cuts, anywhere among the failed attempts of an outage, change nothing
   about the state the successful attempt finds *)
Theorem C13_cut_awaiting_resume_answer_transparent : forall sm held a b,
  held_after sm held (a ++ EAttempt cut_awaiting_resume_answer :: b) = held_after sm held (a ++ b).
Proof. exact cut_awaiting_answer_transparent. Qed.
Theorem C13_resumed_after_cut_round : forall sm es0 t g,
  let s := m_run repaired (m_init sm) es0 in
  m_phase s = MUp -> is_loss t = true ->
  let s' := m_run repaired s [ETerm t; EAttempt cut_awaiting_resume_answer; EAttempt (AOk g)] in
  m_phase s' = MUp /\ m_sessions s' = S (m_sessions s) /\ m_post s' = S (m_post s) /\
  m_resumed s' = (if m_sm s && m_held s && g then S (m_resumed s) else m_resumed s).
Proof. exact resumed_after_cut_round. Qed.
(* the contrast that makes the distinction one: once the server has REFUSED the state, a cut
   right afterwards leaves nothing to resume -- one new session all the same, freshly bound *)
Theorem C13_refused_then_cut_binds_afresh : forall sm es0 t g,
  let s := m_run repaired (m_init sm) es0 in
  m_phase s = MUp -> is_loss t = true ->
  let s' := m_run repaired s [ETerm t; EAttempt cut_after_resume_refused; EAttempt (AOk g)] in
  m_sessions s' = S (m_sessions s) /\ m_resumed s' = m_resumed s.
Proof. exact refused_then_cut_loses_state. Qed.

(* the hypotheses are satisfiable by non-trivial values *)
Example C13_example :
  let s := m_run repaired (m_init true)
             [EAttempt (AOk false); ETerm TDrop; EAttempt ARefused; EAttempt ARefused;
              EAttempt (AOk true); ETerm TClose; EAttempt (AFail false true); EStaleReader; EAttempt (AOk true);
              ETerm TStreamError; EAttempt (AHookFail false); EAttempt ARefused; EOldReceiver; EAttempt (AOk true);
              ETerm TDrop; EAttempt (AFail true false); EAttempt (AOk false); ETerm TStop; EAttempt (AOk false)] in
  (m_phase s, m_sessions s, m_resumed s, m_post s, m_recv s, m_conns s, m_estab s, m_failed s)
  = (MReturned, 4, 2, 4, 4, 7, 5, 6).
Proof. reflexivity. Qed.
Example C13_rounds_example :
  forallb round_ok [(TDrop, [EAttempt ARefused; EStaleReader], true); (TStreamError, [EOldReceiver], false)] = true.
Proof. reflexivity. Qed.

Print Assumptions C13_one_session_per_loss.
Print Assumptions C13_k_rounds.
Print Assumptions C13_post_connect_once_per_session.
Print Assumptions C13_at_most_one_retry_loop.
Print Assumptions C13_receiver_reads_current_connection.
Print Assumptions C13_permanent_stops.
Print Assumptions C13_stop_returns.
Print Assumptions C13_stop_is_final.
Print Assumptions C13_handshake_cut_retried_hangup_final.
Print Assumptions C13_stale_reader_refuted.
Print Assumptions C13_old_receiver_refuted.
Print Assumptions C13_hook_start_refuted.
Print Assumptions C13_stop_leak_refuted.
Print Assumptions C13_no_receiver_refuted.
Print Assumptions C13_dial_refused_transient.
Print Assumptions C13_tls_policy_permanent.
Print Assumptions C13_refused_handshake_permanent.
Print Assumptions C13_refused_handshake_ends_retry_loop.
Print Assumptions C13_cut_in_negotiation_transient.
Print Assumptions C13_rejected_credentials_permanent.
Print Assumptions C13_resumed_when_possible.
Print Assumptions C13_fresh_otherwise.
Print Assumptions C13_manager_resumes.
Print Assumptions C13_cut_awaiting_resume_answer_keeps_state.
Print Assumptions C13_resumed_after_cut_resume_answer.
Print Assumptions C13_cut_awaiting_resume_answer_transparent.
Print Assumptions C13_resumed_after_cut_round.
Print Assumptions C13_refused_then_cut_binds_afresh.
