(* C13 — the StreamManager re-establishes exactly one working session after each loss.
   Model/Manager.v: StreamManager.Run/connect/resume/Stop + Client.Connect/Resume as a
   state machine over attempt outcomes and session fates.  What is runtime and NOT
   proved here: the timing ("as soon as the server accepts again" is bounded by the
   back-off, C19) and the goroutine in which the handler runs; both are exercised by
   the harness against the real StreamManager and a scripted server. *)
From Coq Require Import List ZArith NArith Bool Lia.
From XV Require Import Lib.Sx Model.Manager Proofs.ManagerP Model.Session Model.SessionSpec Proofs.SessionP Proofs.SessionSpecP.
Import ListNotations.
Open Scope nat_scope.

(* After an abrupt drop, a graceful close or a stream error ending an established session,
   any number of refused / transiently failing attempts (a connection cut in the middle of
   a negotiation is one of them), then one successful attempt: exactly one more session
   (resumed or fresh), one more PostConnect, one more receiver. *)
Theorem C13_one_session_per_loss : forall s t fails r,
  m_phase s = MUp -> (t = TDrop \/ t = TClose \/ t = TStreamError) -> forallb is_fail fails = true ->
  let s' := m_run s (ETerm t :: map EAttempt fails ++ [EAttempt (AOk r)]) in
  m_phase s' = MUp /\ m_sessions s' = S (m_sessions s) /\ m_post s' = S (m_post s) /\
  m_recv s' = S (m_recv s) /\ m_resumed s' = (if r then S (m_resumed s) else m_resumed s).
Proof.
  intros s t fails r P Ht. apply one_session_per_loss; [exact P|].
  destruct Ht as [->|[->| ->]]; reflexivity.
Qed.

(* In every reachable state, for every fault sequence: PostConnect ran once per
   session and every session got its receiver. *)
Theorem C13_post_connect_once_per_session : forall es,
  let s := m_run m_init es in
  m_post s = m_sessions s /\ m_recv s = m_sessions s /\ m_resumed s <= m_sessions s.
Proof.
  intros es. pose proof (run_inv es m_init init_inv) as (H1 & H2 & H3 & _). cbn zeta. auto.
Qed.

(* a permanent error ends the retry loop instead of retrying forever *)
Theorem C13_permanent_stops : forall s es,
  m_phase s = MRetry ->
  let s' := m_run s (EAttempt AFailPermanent :: es) in
  m_sessions s' = m_sessions s /\ m_post s' = m_post s /\ (m_phase s' = MDead \/ m_phase s' = MReturned).
Proof. exact permanent_stops. Qed.

(* Stop makes Run return *)
Theorem C13_stop_returns : forall s,
  m_phase s = MUp \/ m_phase s = MDead -> m_phase (m_step s (ETerm TStop)) = MReturned.
Proof. exact stop_returns. Qed.

(* ---- how Client.connect's outcome (Model/Session.v) maps onto the attempt kinds ---- *)
(* the classification resume() relies on: xerrors.As(err, &ConnError) && Permanent *)
Definition attempt_of (r : Session.result) : attempt :=
  match r with
  | Ok => AOk false
  | Err true true => AFailPermanent
  | Err _ _ => AFailTransient
  end.

(* a refused TCP connection is retried *)
Theorem C13_dial_refused_transient : forall cfg tls p script,
  attempt_of (res (connect cfg false tls p script)) = AFailTransient.
Proof. reflexivity. Qed.

(* TLS policy failure is permanent: cleartext not allowed and STARTTLS not offered, refused
   (the server answers with something else than <proceed/>), or failing certificate
   verification *)
Theorem C13_tls_policy_permanent : forall cfg tls p id f rest,
  c_insecure cfg = false ->
  (f_tls f = TlsNone \/
   ((forall r, rest <> SProceed :: r) /\ is_cut rest = false) \/
   ((exists r, rest = SProceed :: r) /\ tls = false)) ->
  attempt_of (res (connect cfg true tls p (SHeader id :: SFeatures f :: rest))) = AFailPermanent.
Proof.
  intros cfg tls p id f rest Hi H. unfold connect, res. cbn [negb read_header read_features]. rewrite Hi.
  destruct (f_tls f) eqn:Et; [reflexivity| |].
  all: destruct H as [H|[[H Hc]|[[r ->] ->]]]; try discriminate; try reflexivity.
  all: destruct rest as [|[] r]; try discriminate Hc; try reflexivity.
  all: exfalso; eapply H; reflexivity.
Qed.

(* A REFUSED handshake is such a policy failure, not a cut.  The server has answered
   <proceed/> and the TLS handshake that follows fails (tls = false): because the server
   refuses it with an alert (no protocol version or cipher suite in common with what the
   application allows, a client certificate demanded) or because the client refuses the
   server's certificate (other name, unknown authority, out of date).  Cleartext not being
   allowed, the attempt is permanent and does not count as a failure to be retried --
   whatever comes after <proceed/> in the script, also the end of the connection (a party
   that refuses a handshake closes the connection, which does not turn the refusal into a
   lost connection). *)
Theorem C13_refused_handshake_permanent : forall cfg p id f r,
  c_insecure cfg = false -> f_tls f <> TlsNone ->
  attempt_of (res (connect cfg true false p (SHeader id :: SFeatures f :: SProceed :: r))) = AFailPermanent /\
  is_fail AFailPermanent = false.
Proof.
  intros cfg p id f r Hi Ht. split; [|reflexivity].
  unfold connect, res. cbn [negb read_header read_features read_proceed]. rewrite Hi.
  destruct (f_tls f); [congruence| |]; reflexivity.
Qed.

(* ... and after it the retry loop has ended: no session is ever created again, whatever
   the network and the server do next, until Stop makes Run return *)
Theorem C13_refused_handshake_ends_retry_loop : forall cfg p id f r s es,
  c_insecure cfg = false -> f_tls f <> TlsNone -> m_phase s = MRetry ->
  let a := attempt_of (res (connect cfg true false p (SHeader id :: SFeatures f :: SProceed :: r))) in
  let s' := m_run s (EAttempt a :: es) in
  m_sessions s' = m_sessions s /\ m_post s' = m_post s /\ (m_phase s' = MDead \/ m_phase s' = MReturned).
Proof.
  intros cfg p id f r s es Hi Ht P. cbn zeta.
  destruct (C13_refused_handshake_permanent cfg p id f r Hi Ht) as [-> _].
  exact (permanent_stops s es P).
Qed.

(* ... and a connection that is cut in the middle of the negotiation is not: after the
   server's stream header and before its features; or, TLS being mandatory, after the
   client's <starttls/> and before <proceed/>.  The retry loop goes on (is_fail). *)
Theorem C13_cut_in_negotiation_transient : forall cfg tls p id f rest,
  is_cut rest = true ->
  attempt_of (res (connect cfg true tls p (SHeader id :: rest))) = AFailTransient /\
  (f_tls f <> TlsNone ->
   attempt_of (res (connect cfg true tls p (SHeader id :: SFeatures f :: rest))) = AFailTransient) /\
  is_fail AFailTransient = true.
Proof.
  intros cfg tls p id f rest Hc. repeat split.
  - unfold connect, res. cbn [negb read_header].
    destruct rest as [|[] r]; try discriminate Hc; reflexivity.
  - intros Ht. unfold connect, res. cbn [negb read_header read_features].
    destruct (f_tls f) eqn:Et; [congruence| |].
    all: destruct rest as [|[] r]; try discriminate Hc; cbn [read_proceed]; destruct (c_insecure cfg); reflexivity.
Qed.

(* rejected credentials are permanent (here: no STARTTLS offered, cleartext allowed;
   after a TLS upgrade the same step function runs) *)
Theorem C13_rejected_credentials_permanent : forall cfg chan p f rest sn m,
  choose_mech (c_mechs cfg) (f_mechs f) = Some m -> implemented m = true ->
  res (step_auth cfg chan p f (SSaslFailure :: rest) sn) = Err true true /\
  attempt_of (res (step_auth cfg chan p f (SSaslFailure :: rest) sn)) = AFailPermanent.
Proof.
  intros cfg chan p f rest sn m Hm Hi. unfold step_auth, res. rewrite Hm, Hi. split; reflexivity.
Qed.

Example C13_example :
  let s := m_run m_init [EAttempt (AOk false); ETerm TDrop; EAttempt ARefused; EAttempt ARefused;
                         EAttempt (AOk true); ETerm TClose; EAttempt AFailTransient; EAttempt (AOk false);
                         ETerm TStreamError; EAttempt AFailTransient; EAttempt ARefused; EAttempt (AOk false);
                         ETerm TDrop; EAttempt AFailPermanent; EAttempt (AOk false); ETerm TStop] in
  (m_phase s, m_sessions s, m_resumed s, m_post s, m_recv s, m_failed s) = (MReturned, 4, 1, 4, 4, 5).
Proof. reflexivity. Qed.

Print Assumptions C13_one_session_per_loss.
Print Assumptions C13_post_connect_once_per_session.
Print Assumptions C13_permanent_stops.
Print Assumptions C13_stop_returns.
Print Assumptions C13_dial_refused_transient.
Print Assumptions C13_tls_policy_permanent.
Print Assumptions C13_refused_handshake_permanent.
Print Assumptions C13_refused_handshake_ends_retry_loop.
Print Assumptions C13_cut_in_negotiation_transient.
Print Assumptions C13_rejected_credentials_permanent.
