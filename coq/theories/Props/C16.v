(* C16 — the component handshake digest is exact; success requires the server's
   <handshake/>.  Only statements, closed by [exact], with their assumptions printed.
   Strings are byte lists; [id] is the XML-unescaped id attribute of the server's
   stream header (what stanza.InitStream returns), [secret] the shared secret. *)
From Coq Require Strings.String.
From Coq Require Import List NArith Bool.
From XV Require Import Lib.Sx Model.XmlTree Model.Parser Model.Sha1 Model.Hex Model.Component
  Model.StreamHeader Model.ComponentWire
  Proofs.Sha1P Proofs.HexP Proofs.ComponentP Proofs.ComponentWireP.
Import Coq.Strings.String.StringSyntax.   (* string literals for the vectors only *)
Import ListNotations.
Open Scope N_scope.

(* For every stream id and every secret the digest is 40 characters of [0-9a-f] ... *)
Theorem C16_digest_shape : forall id secret : str,
  length (handshake id secret) = 40%nat /\
  Forall (fun c => is_lower_hex c = true) (handshake id secret).
Proof. exact digest_shape. Qed.

(* ... hence lower case (no character in A-Z) and free of the characters XML treats
   specially (less-than 60, ampersand 38, greater-than 62, quotes 34 and 39). *)
Theorem C16_digest_lower_case : forall id secret : str,
  Forall (fun c => ~ (65 <= c <= 90)) (handshake id secret).
Proof. exact digest_lower_case. Qed.

Theorem C16_digest_xml_safe : forall id secret : str,
  Forall (fun c => c <> 60 /\ c <> 38 /\ c <> 62 /\ c <> 34 /\ c <> 39) (handshake id secret).
Proof. exact digest_xml_safe. Qed.

(* [handshake id secret] IS hex (sha1 (id ++ secret)) by definition (Model/Component.v): id
   first, secret second; one instance of the order is in the vectors below, the statement
   from the header bytes is C16_digest_from_header_bytes. *)

(* Once the stream header has been read and the write succeeds, exactly one thing is
   written: "<handshake>" ++ digest ++ "</handshake>" ... *)
Theorem C16_written_def : forall (secret : str) (e : env) (id : str),
  e_pre e = PConnected id -> e_write_ok e = true ->
  r_written (component_connect secret e)
  = [open_tag ++ hex (sha1 (id ++ secret)) ++ close_tag].
Proof. exact written_def. Qed.

(* ... and a reader taking the character data between the two tags gets the digest. *)
Theorem C16_element_text : forall id secret : str,
  parse_handshake_element (handshake_element id secret) = Some (handshake id secret).
Proof. exact parse_handshake_element_digest. Qed.

(* ---- the stream id: from the BYTES of the server's stream header ----
   [init_stream hdr] (Model/StreamHeader.v) is encoding/xml's reading of the first start tag
   followed by InitStream's attribute loop; [None] = InitStream returns an error. *)

(* Only an UNQUALIFIED id attribute counts; among several the LAST one wins; without one the
   stream id is the empty string. *)
Theorem C16_stream_id_unqualified_last : forall (attrs : list rattr) (v : str),
  stream_id attrs = v <->
  (v = [] /\ no_unqualified_id attrs = true) \/
  (exists pre a post, attrs = pre ++ a :: post /\ unqualified_id a = true /\
                      ra_value a = v /\ no_unqualified_id post = true).
Proof. exact stream_id_spec. Qed.

(* unqualified = no prefix and local name "id": xml:id, x:id, xmlns:id are not *)
Theorem C16_unqualified_id : forall a : rattr,
  unqualified_id a = true <-> ra_prefix a = [] /\ ra_local a = StreamHeader.s_id.
Proof. exact unqualified_id_spec. Qed.

(* A qualified look-alike, wherever it stands among the attributes, changes nothing. *)
Theorem C16_stream_id_ignores_qualified : forall (pre : list rattr) (a : rattr) (post : list rattr),
  unqualified_id a = false -> stream_id (pre ++ a :: post) = stream_id (pre ++ post).
Proof. exact stream_id_ignores_qualified. Qed.

(* Header bytes -> wire: whenever InitStream accepts the header with stream id [id] and the
   write succeeds, what is written is exactly <handshake> hex(SHA-1(id ++ secret)) </handshake>,
   whatever the server then replies. *)
Theorem C16_digest_from_header_bytes : forall (secret hdr id : str) (reply_toks : list token),
  init_stream hdr = Some id ->
  r_written (connect_from_wire secret hdr true reply_toks)
  = [open_tag ++ hex (sha1 (id ++ secret)) ++ close_tag].
Proof. exact written_from_header. Qed.

(* A header InitStream rejects: the transport's (non-permanent) error, state PermanentError,
   nothing written, nothing left open. *)
Theorem C16_header_refused : forall (secret hdr : str) (w : bool) (reply_toks : list token),
  init_stream hdr = None ->
  let r := connect_from_wire secret hdr w reply_toks in
  r_err r = ErrConn false /\ r_state r = PermanentErrorState /\ r_recv r = false /\ r_written r = [] /\
  r_open r = false.
Proof. exact header_refused. Qed.

(* "For every stream id": every attribute-legal text [s] (any bytes but control characters
   other than TAB LF CR: special characters, non-ASCII, empty, any length), written into the
   header with the predefined entities, is the id InitStream returns ... *)
Theorem C16_every_id_text_read_back : forall (q : N) (s : str),
  is_quote q -> id_text s = true -> init_stream (std_header q s) = Some s.
Proof. exact init_stream_std_header. Qed.

(* ... hence the digest sent is that of this very text followed by the secret. *)
Theorem C16_every_id_text_digest : forall (q : N) (s secret : str) (reply_toks : list token),
  is_quote q -> id_text s = true ->
  r_written (connect_from_wire secret (std_header q s) true reply_toks)
  = [open_tag ++ hex (sha1 (s ++ secret)) ++ close_tag].
Proof.
  intros q s secret toks Hq Hs. apply written_from_header. apply init_stream_std_header; assumption.
Qed.

(* ---- SHA-1 really hashes the whole of id ++ secret ----
   The block decomposition is fuel-driven; the fuel is always sufficient: the k blocks that
   [sha1_state] folds [compress] over are whole, and written back as bytes they are the
   message itself followed by the padding (0x80, zeros, 64-bit bit length) - no byte of the
   message is dropped, whatever its length. *)
Theorem C16_sha1_consumes_whole_message : forall m : str,
  Forall byte m ->
  exists k,
    length (blocks (pad m)) = k /\ length (pad m) = (64 * k)%nat /\
    Forall (fun b => length b = 16%nat) (blocks (pad m)) /\
    flat_map word_bytes (concat (blocks (pad m)))
      = m ++ 128 :: zeros (pad_zeros (N.of_nat (length m)))
            ++ be_bytes 8 (bitlen64 (N.of_nat (length m))).
Proof. exact sha1_blocks_cover. Qed.

Theorem C16_sha1_at_least_one_block : forall m : str, blocks (pad m) <> [].
Proof. exact sha1_at_least_one_block. Qed.

(* SHA-1 is specified by its own model; FIPS 180 vectors (one, one, two, three and
   sixteen blocks), the repository's own test value, and the argument order. *)
Theorem C16_fips180_vectors :
  hex (sha1 (bytes_of "abc")) = bytes_of "a9993e364706816aba3e25717850c26c9cd0d89d" /\
  hex (sha1 []) = bytes_of "da39a3ee5e6b4b0d3255bfef95601890afd80709" /\
  hex (sha1 (bytes_of "abcdbcdecdefdefgefghfghighijhijkijkljklmklmnlmnomnopnopq"))
    = bytes_of "84983e441c3bd26ebaae4aa1f95129e5e54670f1" /\
  hex (sha1 (bytes_of
    "abcdefghbcdefghicdefghijdefghijkefghijklfghijklmghijklmnhijklmnoijklmnopjklmnopqklmnopqrlmnopqrsmnopqrstnopqrstu"))
    = bytes_of "a49b2446a02c645bf419f995b67091253a04a259" /\
  hex (sha1 (repeat 97 1000)) = bytes_of "291e9a6c66994949b57ba5e650361e98fc36b1ba" /\
  handshake (bytes_of "1263952298440005243") (bytes_of "mypass")
    = bytes_of "c77e2ef0109fbbc5161e83b51629cd1353495332" /\
  handshake (bytes_of "id") (bytes_of "secret") <> handshake (bytes_of "secret") (bytes_of "id").
Proof.
  exact (conj sha1_vector_abc (conj sha1_vector_empty (conj sha1_vector_448
    (conj sha1_vector_896 (conj sha1_vector_1000a (conj handshake_vector_repo
    handshake_order_matters)))))).
Qed.

(* Header read, handshake written: Connect returns nil AND the state is Established
   AND the receive loop runs  <->  the server's reply is a handshake element. *)
Theorem C16_established_iff_handshake : forall (secret : str) (e : env) (id : str),
  e_pre e = PConnected id -> e_write_ok e = true ->
  let r := component_connect secret e in
  (r_err r = ErrNil /\ r_state r = Established /\ r_recv r = true) <-> e_reply e = RHandshake.
Proof. exact established_iff_handshake. Qed.

(* Over every environment (transport failures and write failure included) each single
   observation - nil error, state Established, receive loop started - is equivalent to:
   header read, write succeeded, reply is a handshake.  ("Stanzas are routed" is what the
   receive loop does, C05/C12; here it is observed by the harness's probe, not proved.) *)
Theorem C16_established_iff_success : forall (secret : str) (e : env),
  let r := component_connect secret e in
  (r_err r = ErrNil <-> success e = true) /\
  (r_state r = Established <-> success e = true) /\
  (r_recv r = true <-> success e = true).
Proof. exact established_iff_success. Qed.

(* Every other run ends in an error, a non-established state and no receive loop. *)
Theorem C16_failure_not_established : forall (secret : str) (e : env),
  success e = false ->
  (exists p, r_err (component_connect secret e) = ErrConn p) /\
  r_state (component_connect secret e) <> Established /\
  r_recv (component_connect secret e) = false.
Proof. exact connect_failure. Qed.

(* A stream error of any condition: permanent error, state StreamError, and the event
   handed to the handler names "conflict" whatever the condition was (as coded). *)
Theorem C16_stream_error_reply : forall (secret : str) (e : env) (id c : str),
  e_pre e = PConnected id -> e_write_ok e = true -> e_reply e = RStreamError c ->
  let r := component_connect secret e in
  r_err r = ErrConn true /\ r_state r = StreamErrorState /\ r_recv r = false /\
  r_events r = [(StreamErrorState, conflict)].
Proof. exact stream_error_reply. Qed.

(* Any other packet, or an answer that cannot be read as XMPP (malformed, unknown element):
   permanent error and state PermanentError. *)
Theorem C16_other_reply : forall (secret : str) (e : env) (id : str),
  e_pre e = PConnected id -> e_write_ok e = true ->
  (e_reply e = RReadError \/ exists k, e_reply e = ROther k) ->
  let r := component_connect secret e in
  r_err r = ErrConn true /\ r_state r = PermanentErrorState /\ r_recv r = false.
Proof. exact other_reply. Qed.

(* The handshake cannot be written: NON-permanent error, state StreamError (as coded). *)
Theorem C16_write_failure : forall (secret : str) (e : env) (id : str),
  e_pre e = PConnected id -> e_write_ok e = false ->
  let r := component_connect secret e in
  r_err r = ErrConn false /\ r_state r = StreamErrorState /\ r_recv r = false.
Proof. exact write_failure. Qed.

(* No transport (an address the component cannot use): permanent error, state PermanentError. *)
Theorem C16_bad_transport : forall (secret : str) (e : env),
  e_pre e = PBadTransport ->
  let r := component_connect secret e in
  r_err r = ErrConn true /\ r_state r = PermanentErrorState /\ r_recv r = false.
Proof. exact bad_transport. Qed.

(* Dial refused or timed out, stream header cut or unreadable: the transport's own error, NOT
   permanent (a server that is not up yet), state PermanentError. *)
Theorem C16_connect_failed : forall (secret : str) (e : env),
  e_pre e = PConnectFail ->
  let r := component_connect secret e in
  r_err r = ErrConn false /\ r_state r = PermanentErrorState /\ r_recv r = false.
Proof. exact connect_failed. Qed.

(* The connection is lost while the answer to the handshake is awaited or read: NOT permanent. *)
Theorem C16_cut_reply : forall (secret : str) (e : env) (id : str),
  e_pre e = PConnected id -> e_write_ok e = true -> e_reply e = RCut ->
  let r := component_connect secret e in
  r_err r = ErrConn false /\ r_state r = PermanentErrorState /\ r_recv r = false.
Proof. exact cut_reply. Qed.

(* When Connect returns, a connection on which Send writes is left open exactly when the
   attempt succeeded: every failed attempt leaves none (the connection of an attempt whose
   handshake was not accepted is closed by Resume itself). *)
Theorem C16_open_iff_success : forall (secret : str) (e : env),
  r_open (component_connect secret e) = true <-> success e = true.
Proof. exact open_iff_success. Qed.

(* Once the session, or the attempt, is over the state is not Established: the receiver
   reports every end of its stream - the server's </stream:stream> included - as Disconnected. *)
Theorem C16_state_after_end : forall (secret : str) (e : env),
  state_after_end (component_connect secret e) <> Established.
Proof. exact state_after_end_not_established. Qed.

(* Exactly one event reaches the handler: it carries the state Connect leaves behind, and
   its StreamError text is "conflict" exactly on the stream-error branch, empty otherwise. *)
Theorem C16_one_event : forall (secret : str) (e : env),
  r_events (component_connect secret e) = [(r_state (component_connect secret e), event_text e)].
Proof. exact one_event_exact. Qed.

(* ---- which reply is "a handshake element": on the tokens NextPacket reads ---- *)
(* The reply is a handshake exactly when the next start element NextXmppToken finds is
   <handshake> in jabber:component:accept and that element is complete - whatever its
   attributes and content.  (So <handshake xmlns='jabber:client'/>, any other element, the
   stream's end tag, or nothing at all, are not.) *)
Theorem C16_handshake_element_only : forall ts : list token,
  reply_from_tokens ts = RHandshake <->
  exists a r r', next_token ts = Some (TStart handshake_name a, r) /\ skip r = Some r'.
Proof. exact reply_handshake_iff. Qed.

(* From the wire: header accepted, handshake written; then nil error AND state Established
   AND receive loop started  <->  the reply is such an element. *)
Theorem C16_established_iff_handshake_element :
  forall (secret hdr id : str) (toks : list token),
  init_stream hdr = Some id ->
  let r := connect_from_wire secret hdr true toks in
  (r_err r = ErrNil /\ r_state r = Established /\ r_recv r = true) <->
  exists a rest rest', next_token toks = Some (TStart handshake_name a, rest) /\ skip rest = Some rest'.
Proof. exact established_iff_handshake_element. Qed.

(* The stream's end tag is a packet (falls to the default branch); nothing more to read (the
   server hung up instead of answering) is a lost connection. *)
Theorem C16_stream_end_and_silence : forall ts : list token,
  (forall n r, next_token ts = Some (TEnd n, r) -> reply_from_tokens ts = ROther 12) /\
  (next_token ts = None -> reply_from_tokens ts = RCut).
Proof. intros ts. split; [intros n r; exact (stream_end_is_other ts n r) | exact (no_reply_is_error ts)]. Qed.

(* The outcome has no input besides (transport outcome, write outcome, reply) and the
   secret - nothing is carried over from an earlier connection.  This is the form of the
   model; that the code has it (fresh hasher per call, fresh transport per Resume) is
   established by the differential runs on one Component value (digest-seq, reconnect). *)
Theorem C16_no_hidden_input : forall (secret : str) (e1 e2 : env),
  e_pre e1 = e_pre e2 -> e_write_ok e1 = e_write_ok e2 -> e_reply e1 = e_reply e2 ->
  component_connect secret e1 = component_connect secret e2.
Proof. exact no_hidden_input. Qed.

(* non-vacuity: the hypotheses of the reply theorems are met by a run with a non-empty
   id containing an (unescaped) ampersand, and its outcome is the established one *)
Example C16_example :
  let e := Env (PConnected (bytes_of "a&b<1>")) true RHandshake in
  e_pre e = PConnected (bytes_of "a&b<1>") /\ e_write_ok e = true /\ success e = true /\
  component_connect (bytes_of "s3cr3t") e
  = Result ErrNil Established true
      [bytes_of "<handshake>0ee9dd05d443e97855e1a3e57f64786f8f09dfa0</handshake>"]
      [(Established, [])] true.
Proof. vm_compute. repeat split. Qed.

(* non-vacuity of the header theorems: a header with qualified look-alikes before and after
   the unqualified id, an escaped value, double quotes; and a reply that is a handshake *)
Example C16_example_header :
  init_stream (bytes_of "<?xml version='1.0'?><stream:stream xml:id='L' xmlns:x='urn:x' x:id='X' xmlns='jabber:component:accept' id=""a&amp;b&#x3C;&#233;"" xmlns:stream='http://etherx.jabber.org/streams' y:id=''>")
  = Some [97; 38; 98; 60; 195; 169] /\
  init_stream (std_header 39 [97; 38; 39; 34; 13; 200]) = Some [97; 38; 39; 34; 13; 200] /\
  is_quote 39 /\ id_text [97; 38; 39; 34; 13; 200] = true /\
  reply_from_tokens [TText [10]; TStart handshake_name [] ; TText [111]; TEnd handshake_name] = RHandshake /\
  reply_from_tokens [TStart (bytes_of "jabber:client", bytes_of "handshake") []; TEnd (bytes_of "jabber:client", bytes_of "handshake")] = RReadError.
Proof. vm_compute. repeat split; right; reflexivity. Qed.

Print Assumptions C16_digest_shape.
Print Assumptions C16_digest_lower_case.
Print Assumptions C16_digest_xml_safe.
Print Assumptions C16_written_def.
Print Assumptions C16_element_text.
Print Assumptions C16_fips180_vectors.
Print Assumptions C16_established_iff_handshake.
Print Assumptions C16_established_iff_success.
Print Assumptions C16_failure_not_established.
Print Assumptions C16_stream_error_reply.
Print Assumptions C16_other_reply.
Print Assumptions C16_write_failure.
Print Assumptions C16_bad_transport.
Print Assumptions C16_connect_failed.
Print Assumptions C16_cut_reply.
Print Assumptions C16_open_iff_success.
Print Assumptions C16_state_after_end.
Print Assumptions C16_one_event.
Print Assumptions C16_stream_id_unqualified_last.
Print Assumptions C16_unqualified_id.
Print Assumptions C16_stream_id_ignores_qualified.
Print Assumptions C16_digest_from_header_bytes.
Print Assumptions C16_header_refused.
Print Assumptions C16_every_id_text_read_back.
Print Assumptions C16_every_id_text_digest.
Print Assumptions C16_sha1_consumes_whole_message.
Print Assumptions C16_sha1_at_least_one_block.
Print Assumptions C16_handshake_element_only.
Print Assumptions C16_established_iff_handshake_element.
Print Assumptions C16_stream_end_and_silence.
Print Assumptions C16_no_hidden_input.
