(* C16 — the component handshake digest is exact; success requires the server's
   <handshake/>.  Only statements, closed by [exact], with their assumptions printed.
   Strings are byte lists; [id] is the XML-unescaped id attribute of the server's
   stream header (what stanza.InitStream returns), [secret] the shared secret. *)
From Coq Require Strings.String.
From Coq Require Import List NArith Bool.
From XV Require Import Lib.Sx Model.Sha1 Model.Hex Model.Component
  Proofs.Sha1P Proofs.HexP Proofs.ComponentP.
Import Coq.Strings.String.StringSyntax.   (* string literals for the vectors only *)
Import ListNotations.
Open Scope N_scope.

(* For every stream id and every secret the digest is 40 characters of [0-9a-f] ... *)
Theorem C16_digest_shape : forall id secret : str,
  length (handshake id secret) = 40%nat /\
  Forall (fun c => is_lower_hex c = true) (handshake id secret).
Proof. exact digest_shape. Qed.

(* ... hence lower case (no character in A-Z) and free of the characters XML treats
   specially (less-than 60, ampersand 38, greater-than 62, quotes 34 and 39). *)
Theorem C16_digest_lower_case : forall id secret : str,
  Forall (fun c => ~ (65 <= c <= 90)) (handshake id secret).
Proof. exact digest_lower_case. Qed.

Theorem C16_digest_xml_safe : forall id secret : str,
  Forall (fun c => c <> 60 /\ c <> 38 /\ c <> 62 /\ c <> 34 /\ c <> 39) (handshake id secret).
Proof. exact digest_xml_safe. Qed.

(* The digest is hex (SHA-1 (id ++ secret)): id first, secret second. *)
Theorem C16_digest_def : forall id secret : str,
  handshake id secret = hex (sha1 (id ++ secret)).
Proof. exact digest_def. Qed.

(* Once the stream header has been read and the write succeeds, exactly one thing is
   written: "<handshake>" ++ digest ++ "</handshake>" ... *)
Theorem C16_written_def : forall (secret : str) (e : env) (id : str),
  e_pre e = PConnected id -> e_write_ok e = true ->
  r_written (component_connect secret e)
  = [open_tag ++ hex (sha1 (id ++ secret)) ++ close_tag].
Proof. exact written_def. Qed.

(* ... and a reader taking the character data between the two tags gets the digest. *)
Theorem C16_element_text : forall id secret : str,
  parse_handshake_element (handshake_element id secret) = Some (handshake id secret).
Proof. exact parse_handshake_element_digest. Qed.

(* One component value connecting several times (reconnection): on the k-th connection
   the digest is hex (SHA-1 (id_k ++ secret)) - a function of that connection's stream
   id and the secret only, whatever was hashed on earlier connections ... *)
Theorem C16_digest_per_connection : forall (secret : str) (ids : list str) (k : nat) (id : str),
  nth_error ids k = Some id ->
  nth_error (handshakes secret ids) k = Some (hex (sha1 (id ++ secret))).
Proof. exact handshakes_nth. Qed.

(* ... and what is written on the k-th connection is exactly the element for id_k. *)
Theorem C16_written_per_connection :
  forall (secret : str) (es : list env) (k : nat) (e : env) (id : str),
  nth_error es k = Some e -> e_pre e = PConnected id -> e_write_ok e = true ->
  exists r, nth_error (component_sessions secret es) k = Some r /\
            r_written r = [open_tag ++ hex (sha1 (id ++ secret)) ++ close_tag].
Proof. exact sessions_written_nth. Qed.

(* Each connection is classified as a first connection would be. *)
Theorem C16_sessions_independent : forall (secret : str) (es : list env) (k : nat) (e : env),
  nth_error es k = Some e ->
  nth_error (component_sessions secret es) k = Some (component_connect secret e).
Proof. exact sessions_nth. Qed.

(* SHA-1 is specified by its own model; FIPS 180 vectors (one, one, two, three and
   sixteen blocks), the repository's own test value, and the argument order. *)
Theorem C16_fips180_vectors :
  hex (sha1 (bytes_of "abc")) = bytes_of "a9993e364706816aba3e25717850c26c9cd0d89d" /\
  hex (sha1 []) = bytes_of "da39a3ee5e6b4b0d3255bfef95601890afd80709" /\
  hex (sha1 (bytes_of "abcdbcdecdefdefgefghfghighijhijkijkljklmklmnlmnomnopnopq"))
    = bytes_of "84983e441c3bd26ebaae4aa1f95129e5e54670f1" /\
  hex (sha1 (bytes_of
    "abcdefghbcdefghicdefghijdefghijkefghijklfghijklmghijklmnhijklmnoijklmnopjklmnopqklmnopqrlmnopqrsmnopqrstnopqrstu"))
    = bytes_of "a49b2446a02c645bf419f995b67091253a04a259" /\
  hex (sha1 (repeat 97 1000)) = bytes_of "291e9a6c66994949b57ba5e650361e98fc36b1ba" /\
  handshake (bytes_of "1263952298440005243") (bytes_of "mypass")
    = bytes_of "c77e2ef0109fbbc5161e83b51629cd1353495332" /\
  handshake (bytes_of "id") (bytes_of "secret") <> handshake (bytes_of "secret") (bytes_of "id").
Proof.
  exact (conj sha1_vector_abc (conj sha1_vector_empty (conj sha1_vector_448
    (conj sha1_vector_896 (conj sha1_vector_1000a (conj handshake_vector_repo
    handshake_order_matters)))))).
Qed.

(* The 32-bit word arithmetic of the SHA-1 model is arithmetic modulo 2^32. *)
Theorem C16_words_mod_2_32 : forall x y : N,
  trunc32 x = x mod 2 ^ 32 /\ add32 x y = (x + y) mod 2 ^ 32.
Proof. intros x y. split; [exact (trunc32_mod x) | exact (add32_mod x y)]. Qed.

(* Header read, handshake written: Connect returns nil AND the state is Established
   AND the receive loop runs  <->  the server's reply is a handshake element. *)
Theorem C16_established_iff_handshake : forall (secret : str) (e : env) (id : str),
  e_pre e = PConnected id -> e_write_ok e = true ->
  let r := component_connect secret e in
  (r_err r = ErrNil /\ r_state r = Established /\ r_recv r = true) <-> e_reply e = RHandshake.
Proof. exact established_iff_handshake. Qed.

(* Over every environment (transport failures and write failure included) each single
   observation - nil error, state Established, receive loop started, a later stanza
   routed - is equivalent to: header read, write succeeded, reply is a handshake. *)
Theorem C16_established_iff_success : forall (secret : str) (e : env),
  let r := component_connect secret e in
  (r_err r = ErrNil <-> success e = true) /\
  (r_state r = Established <-> success e = true) /\
  (r_recv r = true <-> success e = true) /\
  (probe_routed r = true <-> success e = true).
Proof. exact established_iff_success. Qed.

(* Every other run ends in an error, a non-established state and no receive loop. *)
Theorem C16_failure_not_established : forall (secret : str) (e : env),
  success e = false ->
  (exists p, r_err (component_connect secret e) = ErrConn p) /\
  r_state (component_connect secret e) <> Established /\
  r_recv (component_connect secret e) = false.
Proof. exact connect_failure. Qed.

(* A stream error of any condition: permanent error, state StreamError, and the event
   handed to the handler names "conflict" whatever the condition was (as coded). *)
Theorem C16_stream_error_reply : forall (secret : str) (e : env) (id c : str),
  e_pre e = PConnected id -> e_write_ok e = true -> e_reply e = RStreamError c ->
  let r := component_connect secret e in
  r_err r = ErrConn true /\ r_state r = StreamErrorState /\ r_recv r = false /\
  r_events r = [(StreamErrorState, conflict)].
Proof. exact stream_error_reply. Qed.

(* Any other packet, or no packet (malformed, unknown element, closed): permanent
   error and state PermanentError. *)
Theorem C16_other_reply : forall (secret : str) (e : env) (id : str),
  e_pre e = PConnected id -> e_write_ok e = true ->
  (e_reply e = RReadError \/ exists k, e_reply e = ROther k) ->
  let r := component_connect secret e in
  r_err r = ErrConn true /\ r_state r = PermanentErrorState /\ r_recv r = false.
Proof. exact other_reply. Qed.

(* The handshake cannot be written: NON-permanent error, state StreamError (as coded). *)
Theorem C16_write_failure : forall (secret : str) (e : env) (id : str),
  e_pre e = PConnected id -> e_write_ok e = false ->
  let r := component_connect secret e in
  r_err r = ErrConn false /\ r_state r = StreamErrorState /\ r_recv r = false.
Proof. exact write_failure. Qed.

(* No transport or no stream header: permanent error, state PermanentError. *)
Theorem C16_transport_failure : forall (secret : str) (e : env),
  (forall id, e_pre e <> PConnected id) ->
  let r := component_connect secret e in
  r_err r = ErrConn true /\ r_state r = PermanentErrorState /\ r_recv r = false.
Proof. exact transport_failure. Qed.

(* Exactly one event reaches the handler; it carries the state Connect leaves behind. *)
Theorem C16_one_event : forall (secret : str) (e : env),
  exists s, r_events (component_connect secret e) = [(r_state (component_connect secret e), s)].
Proof. exact one_event. Qed.

(* non-vacuity: the hypotheses of the reply theorems are met by a run with a non-empty
   id containing an (unescaped) ampersand, and its outcome is the established one *)
Example C16_example :
  let e := Env (PConnected (bytes_of "a&b<1>")) true RHandshake in
  e_pre e = PConnected (bytes_of "a&b<1>") /\ e_write_ok e = true /\ success e = true /\
  component_connect (bytes_of "s3cr3t") e
  = Result ErrNil Established true
      [bytes_of "<handshake>0ee9dd05d443e97855e1a3e57f64786f8f09dfa0</handshake>"]
      [(Established, [])].
Proof. vm_compute. repeat split. Qed.

Print Assumptions C16_digest_shape.
Print Assumptions C16_digest_lower_case.
Print Assumptions C16_digest_xml_safe.
Print Assumptions C16_digest_def.
Print Assumptions C16_written_def.
Print Assumptions C16_element_text.
Print Assumptions C16_digest_per_connection.
Print Assumptions C16_written_per_connection.
Print Assumptions C16_sessions_independent.
Print Assumptions C16_fips180_vectors.
Print Assumptions C16_words_mod_2_32.
Print Assumptions C16_established_iff_handshake.
Print Assumptions C16_established_iff_success.
Print Assumptions C16_failure_not_established.
Print Assumptions C16_stream_error_reply.
Print Assumptions C16_other_reply.
Print Assumptions C16_write_failure.
Print Assumptions C16_transport_failure.
Print Assumptions C16_one_event.
