(* C19 -- reconnection back-off delays are bounded and grow exponentially up to the cap.
   Only statements, closed by [exact] or a short application of lemmas of
   Proofs/BackoffP.v, with their assumptions printed.

   Vocabulary (Model/Backoff.v, Proofs/BackoffP.v):
     set_default b            the receiver after setDefault (0 fields -> the code's default constants)
     expo b n                 Z.min (cap b) (base b * factor b ^ n), in ms
     max_ms                   9223372036854 = MaxInt64 / 10^6: the most ms a time.Duration holds
     sat b n                  Z.min max_ms (expo b n): the delay in ms (= expo b n when cap <= max_ms)
     dur_for_attempt b n r    durationForAttempt(n); r = what the global rand source
                              answers; result = (receiver, Dur ns), ns an int64
     dur_seq b rs             consecutive duration() calls (one oracle value each)
     positive_params b        0 < base b, 0 < factor b, 0 < cap b   -- "every positive base, factor and cap"
     bounds b                 positive_params b and cap b <= max_ms (the cap is a Duration):
                              only where a delay is said to EQUAL min(cap, base*factor^n)
     outages_r b rss          the waits of successive outages on one StreamManager, one list
                              of oracle values (jitter draws) per outage
     stream_manager_backoff   mkBackoff false 0 0 0 0: what StreamManager.resume() declares
     run_ops b ops            ONE backoff value driven through OQuery n r (durationForAttempt(n)),
                              OWait r (duration()) and OReset (reset()) in any order: the value
                              afterwards and the delay of every call that returns one
     ops_spec b a ops         the same delays written with the ORIGINAL value b and an explicit
                              counter a: a query is dur_for_attempt b n r, a wait dur_for_attempt
                              b a r (then a+1), a reset sets a to 0 (Proofs/BackoffP.v)
     float_image x x'         x' may be what float64 arithmetic makes of the real value x:
                              x' = x when x < 2^53, x' >= 2^52 otherwise (+Inf included)

   WHAT IS PROVED ABOUT float64, AND WHAT IS NOT.  The code computes the delay in float64
   (float64(Cap), float64(Base) * math.Pow(float64(Factor), float64(n)), math.Min, the
   saturation at maxMs, then int64(...)); the model computes in Z, where nothing rounds or
   overflows.  "For every n however large" is therefore true of the model for a different
   reason than of the code (Pow saturating at +Inf).  Proved: C19_float_robust -- the
   integer result is what comes out for ANY float_image of the cap and of the product, so
   the only thing assumed of the float path is that float64(int), one multiplication and
   math.Pow on positive integers are exact below 2^53 and stay >= 2^52 (or +Inf) from 2^53
   on; and C19_float_exact_region -- every delay the code can return is an integer below
   2^53 ms (max_ms is about 2^43.07), so the final int64 conversion is exact.  NOT proved:
   that Go's math.Pow has that property (square-and-multiply on mantissas: every partial
   product divides the result, hence is exact while the result is below 2^53).  That part
   is checked differentially by the correspondence run (attempt numbers and parameters
   placed around 2^53, max_ms, 2^63 and the float64 overflow of factor^n and
   base*factor^n; DESIGN.md 6.C19 "Partial"). *)
From Coq Require Import List ZArith Bool.
From XV Require Import Gen.Generated Model.Backoff Proofs.BackoffP.
Import ListNotations.
Open Scope Z_scope.

(* Never negative, never above the cap, always a genuine Duration (no int64 wrap): for
   every positive base, factor and cap, every attempt number n >= 0 however large, with
   and without jitter, every oracle value. *)
Theorem C19_bounded : forall b n r,
  positive_params (set_default b) -> 0 <= n ->
  exists ns, snd (dur_for_attempt b n r) = Dur ns /\
             0 <= ns <= cap (set_default b) * millisecond /\ ns < 2 ^ 63.
Proof. exact dfa_bounded. Qed.

(* Per-attempt query without jitter: exactly min(cap, base * factor^n) ms.
   (The unrepaired code computed the value at b.attempt instead of n: D5.) *)
Theorem C19_formula_query : forall b n r,
  no_jitter b = true -> bounds (set_default b) -> 0 <= n ->
  snd (dur_for_attempt b n r) = Dur (expo (set_default b) n * millisecond).
Proof. exact dfa_nojitter. Qed.

(* ... and for caps beyond what a Duration can hold (D22, repaired: it used to wrap to
   negative delays), that value saturated at max_ms. *)
Theorem C19_formula_query_saturated : forall b n r,
  no_jitter b = true -> positive_params (set_default b) -> 0 <= n ->
  snd (dur_for_attempt b n r) =
  Dur (Z.min max_ms (expo (set_default b) n) * millisecond).
Proof. exact dfa_sat_nojitter. Qed.

(* The stateful sequence is the per-attempt query at attempt, attempt+1, ... -- with or
   without jitter. *)
Theorem C19_seq_is_query : forall b rs,
  positive_params (set_default b) -> 0 <= attempt b ->
  snd (dur_seq b rs) =
  map (fun kr => snd (dur_for_attempt b (attempt b + Z.of_nat (fst kr)) (snd kr)))
      (combine (seq 0 (length rs)) rs).
Proof. intros b rs. exact (dur_seq_spec rs b). Qed.

(* The k-th duration() after construction is min(cap, base * factor^k) ms ... *)
Theorem C19_formula_seq : forall nj ba f c rs,
  let b := fresh nj ba f c in
  no_jitter b = true -> bounds (set_default b) ->
  snd (dur_seq b rs) =
  map (fun k => Dur (expo (set_default b) (Z.of_nat k) * millisecond)) (seq 0 (length rs)).
Proof. intros nj ba f c rs b Hj Hb. exact (dur_seq_nojitter rs b Hj Hb eq_refl). Qed.

(* ... and so is the k-th duration() after reset(), whatever happened before. *)
Theorem C19_formula_seq_after_reset : forall b rs0 rs,
  no_jitter b = true -> bounds (set_default b) -> 0 <= attempt b ->
  snd (dur_seq (reset (fst (dur_seq b rs0))) rs) =
  map (fun k => Dur (expo (set_default b) (Z.of_nat k) * millisecond)) (seq 0 (length rs)).
Proof. intros b rs0 rs. exact (dur_seq_after_reset rs0 rs b). Qed.

(* "Bounded", through the stateful sequence, with or without jitter: the k-th wait is a
   genuine Duration in [0, min(cap, base*factor^(attempt+k)) ms] (saturated at max_ms),
   strictly below it with jitter, and never above the cap. *)
Theorem C19_seq_bounded : forall b rs,
  positive_params (set_default b) -> 0 <= attempt b ->
  Forall2 (fun k o => exists ns, o = Dur ns /\
             0 <= ns <= Z.min max_ms (expo (set_default b) (attempt b + Z.of_nat k)) * millisecond /\
             (no_jitter b = false ->
              ns < Z.min max_ms (expo (set_default b) (attempt b + Z.of_nat k)) * millisecond) /\
             0 <= ns <= cap (set_default b) * millisecond /\ ns < 2 ^ 63)
          (seq 0 (length rs)) (snd (dur_seq b rs)).
Proof. intros b rs. exact (dur_seq_within rs b). Qed.

(* History independence of the per-attempt query: on a value that has been through ANY
   sequence of queries, waits and resets - capped answers included, attempt numbers in
   any order - durationForAttempt(n) answers what it answers on the untouched value: it is a
   function of n (and of the random source) alone.  No hypothesis.  Hence the formula after
   any history; and the delays of a whole mixed sequence are the queries at the asked
   attempt numbers and the waits counted from the last reset. *)
Theorem C19_query_history_independent : forall b ops n r,
  snd (dur_for_attempt (fst (run_ops b ops)) n r) = snd (dur_for_attempt b n r).
Proof. exact query_history_independent. Qed.

Theorem C19_query_after_history : forall b ops n r,
  no_jitter b = true -> bounds (set_default b) -> 0 <= n ->
  snd (dur_for_attempt (fst (run_ops b ops)) n r) = Dur (expo (set_default b) n * millisecond).
Proof. exact query_after_history. Qed.

Theorem C19_ops_are_queries : forall b ops,
  snd (run_ops b ops) = ops_spec b (attempt b) ops.
Proof. exact run_ops_spec. Qed.

(* Successive outages handled by one StreamManager (each retry loop runs on a fresh
   back-off value, i.e. after reset): whatever the numbers of failed attempts of the
   earlier outages, the wait after the k-th failed attempt of an outage is bounded by
   min(cap, base * factor^k) ms -- it does not depend on the earlier outages. *)
Theorem C19_outages_restart : forall b ms,
  no_jitter b = true -> bounds (set_default b) ->
  outages b ms =
  map (fun m => map (fun k => Dur (expo (set_default b) (Z.of_nat k) * millisecond))
                    (seq 0 (Z.to_nat m))) ms.
Proof. intros b ms. exact (outages_spec ms b b eq_refl). Qed.

(* The same with or without jitter, for every oracle: the waits of every outage are the
   per-attempt queries at 0, 1, 2, ... -- whatever the earlier outages were. *)
Theorem C19_outages_restart_any : forall b rss,
  positive_params (set_default b) ->
  outages_r b rss =
  map (fun rs => map (fun kr => snd (dur_for_attempt b (Z.of_nat (fst kr)) (snd kr)))
                     (combine (seq 0 (length rs)) rs)) rss.
Proof. intros b rss. exact (outages_r_spec rss b b eq_refl). Qed.

(* ... hence bounded: the wait after the k-th failed attempt of any outage lies in
   [0, min(cap, base*factor^k) ms], strictly below with jitter. *)
Theorem C19_outages_bounded : forall b rss,
  positive_params (set_default b) ->
  Forall2 (fun rs os =>
     Forall2 (fun k o => exists ns, o = Dur ns /\
                0 <= ns <= Z.min max_ms (expo (set_default b) (Z.of_nat k)) * millisecond /\
                (no_jitter b = false ->
                 ns < Z.min max_ms (expo (set_default b) (Z.of_nat k)) * millisecond) /\
                0 <= ns <= cap (set_default b) * millisecond /\ ns < 2 ^ 63)
             (seq 0 (length rs)) os)
    rss (outages_r b rss).
Proof. exact outages_r_within. Qed.

(* The instance the code reaches: StreamManager.resume() declares the zero value (jitter
   ON, Base/Factor/Cap unset).  No free parameter: for every number of outages, every
   number of failed attempts in each and every jitter draw, the wait after the k-th failed
   attempt is in [0, min(default_cap, default_base * default_factor^k) ms) and at most
   three minutes. *)
Theorem C19_stream_manager_waits : forall rss,
  Forall2 (fun rs os =>
     Forall2 (fun k o => exists ns, o = Dur ns /\
                0 <= ns < Z.min default_cap (default_base * default_factor ^ Z.of_nat k) * millisecond /\
                ns <= 3 * 60 * 1000000000)
             (seq 0 (length rs)) os)
    rss (outages_r stream_manager_backoff rss).
Proof. exact stream_manager_waits. Qed.

(* Non-decreasing in n (the formula, and the delays returned without jitter -- for every
   positive cap, saturated or not). *)
Theorem C19_monotone : forall b n m,
  positive_params b -> 0 <= n <= m -> expo b n <= expo b m.
Proof. exact expo_mono. Qed.

Theorem C19_monotone_delays : forall b n m r1 r2,
  no_jitter b = true -> positive_params (set_default b) -> 0 <= n <= m ->
  exists d1 d2, snd (dur_for_attempt b n r1) = Dur d1 /\
                snd (dur_for_attempt b m r2) = Dur d2 /\ d1 <= d2.
Proof. exact dfa_monotone. Qed.

(* Exponential growth reaches the cap (factor >= 2), at the latest at attempt
   log2_up cap, and stays there for every larger n; with factor 1 it is constant. *)
Theorem C19_reaches_cap : forall b n,
  positive_params b -> 2 <= factor b -> Z.log2_up (cap b) <= n -> expo b n = cap b.
Proof. exact expo_reaches_cap. Qed.

Theorem C19_factor_one_constant : forall b n,
  factor b = 1 -> 0 <= n -> expo b n = Z.min (cap b) (base b).
Proof. exact expo_factor_1. Qed.

(* With jitter the delay lies between zero and the delay without jitter (min(cap, base *
   factor^n) ms, saturated at max_ms), for every value r the random source may answer
   (r : Z is arbitrary; the delay is a Duration in ns, not necessarily a whole number of
   ms) ... *)
Theorem C19_jitter_range : forall b n r,
  no_jitter b = false -> positive_params (set_default b) -> 0 <= n ->
  exists ns, snd (dur_for_attempt b n r) = Dur ns /\
             0 <= ns < Z.min max_ms (expo (set_default b) n) * millisecond.
Proof. exact dfa_jitter. Qed.

(* ... what the draw is: the oracle value r (the random source) reduced modulo EXACTLY the
   delay the same attempt has without jitter -- so the model's jitter is not a constant:
   the argument of the draw is min(cap, base*factor^n) ms (saturated), the result covers
   [0, that) (next theorem) and is the identity on it. *)
Theorem C19_jitter_draw : forall b n r,
  no_jitter b = false -> positive_params (set_default b) -> 0 <= n ->
  snd (dur_for_attempt b n r) =
    Dur (r mod (Z.min max_ms (expo (set_default b) n) * millisecond)) /\
  0 < Z.min max_ms (expo (set_default b) n) * millisecond.
Proof. exact dfa_jitter_draw. Qed.

(* ... the model allows every Duration of that range (it does not fix how the draw is
   made), and the code's whole-millisecond draw rand.Int63n(d) * time.Millisecond is one
   admissible way. *)
Theorem C19_jitter_any_in_range : forall b n ns,
  no_jitter b = false -> positive_params (set_default b) -> 0 <= n ->
  0 <= ns < Z.min max_ms (expo (set_default b) n) * millisecond ->
  snd (dur_for_attempt b n ns) = Dur ns.
Proof. exact dfa_jitter_onto. Qed.

Theorem C19_jitter_ms_draw_admissible : forall b n k,
  no_jitter b = false -> positive_params (set_default b) -> 0 <= n ->
  snd (dur_for_attempt b n (k * millisecond)) =
  Dur ((k mod Z.min max_ms (expo (set_default b) n)) * millisecond).
Proof. exact ms_draw_admissible. Qed.

(* The executable saturating computation used by the model runner is the formula. *)
Theorem C19_exec_is_formula : forall b n,
  positive_params b -> 0 <= n -> expo_exec b n = expo b n.
Proof. exact expo_exec_spec. Qed.

(* float64 (see the header): the delay in ms is the same for every admissible float64
   image c' of the cap and p' of base*factor^n, and always an integer below 2^53. *)
Theorem C19_float_robust : forall b n c' p',
  positive_params b -> 0 <= n ->
  float_image (cap b) c' -> float_image (base b * factor b ^ n) p' ->
  Z.min max_ms (Z.min c' p') = Z.min max_ms (expo b n).
Proof. exact float_robust. Qed.

Theorem C19_float_exact_region : forall b n,
  positive_params b -> 0 <= n -> 0 < Z.min max_ms (expo b n) < 2 ^ 53.
Proof. exact float_exact_region. Qed.

(* Defaults.  The model's defaults ARE the code's constants (Generated.v is regenerated
   from /repo on every run; what is needed of them is BackoffP.defaults_ok, re-proved
   each time).  A value with every field unset gets them and is inside the hypotheses of
   the theorems above; and whenever the cap is left unset, no delay exceeds three
   minutes ("three minutes by default"), for every attempt, with and without jitter. *)
Theorem C19_defaults :
  (forall nj a, set_default (mkBackoff nj 0 0 0 a)
                = mkBackoff nj default_base default_factor default_cap a) /\
  (forall nj a, bounds (set_default (mkBackoff nj 0 0 0 a))) /\
  (forall b n r, cap b = 0 -> positive_params (set_default b) -> 0 <= n ->
     exists ns, snd (dur_for_attempt b n r) = Dur ns /\ 0 <= ns <= 3 * 60 * 1000000000).
Proof.
  split; [exact set_default_all_zero|]. split; [exact bounds_all_zero|].
  exact default_cap_three_minutes.
Qed.

(* non-vacuity: a configuration inside the hypotheses, its first delays without
   jitter, a jittered query, and a cap beyond what a Duration can hold (D22: Base 3 ms,
   Factor 7, Cap 2^62 ms, attempt 15 used to give -4204059543880551616 ns) *)
Example C19_example :
  bounds (set_default (fresh true 20 3 1000)) /\
  snd (dur_seq (fresh true 20 3 1000) [0; 0; 0; 0; 0; 0])
  = [Dur 20000000; Dur 60000000; Dur 180000000; Dur 540000000; Dur 1000000000; Dur 1000000000] /\
  snd (dur_for_attempt (fresh true 20 3 1000) 2147483648 0) = Dur 1000000000 /\
  snd (dur_for_attempt (fresh false 20 3 1000) 2 1234567890) = Dur 154567890 /\
  positive_params (set_default (fresh true 3 7 (2 ^ 62))) /\
  snd (dur_for_attempt (fresh true 3 7 (2 ^ 62)) 15 0) = Dur 9223372036854000000 /\
  (* the StreamManager's value is inside the hypotheses; two outages with jitter (draws given) on a
     value with explicit parameters and a stale attempt count: the second outage restarts *)
  positive_params (set_default stream_manager_backoff) /\
  outages_r (mkBackoff false 20 2 180000 7) [[5000000; 39999999; 40000000]; [19999999; 123456789]]
  = [[Dur 5000000; Dur 39999999; Dur 40000000]; [Dur 19999999; Dur 3456789]] /\
  (* one value: a capped query (attempt 30), then attempt 0, two waits, attempt 1, reset, a wait *)
  snd (run_ops (fresh true 20 2 180000)
         [OQuery 30 0; OQuery 0 0; OWait 0; OWait 0; OQuery 1 0; OReset; OWait 0])
  = [Dur 180000000000; Dur 20000000; Dur 20000000; Dur 40000000; Dur 40000000; Dur 20000000] /\
  (* float images: 2^53 + 1 may become 2^53, 3 * 7^30 may become +Inf or lose its low bits *)
  float_image (2 ^ 53 + 1) (2 ^ 53) /\ float_image (3 * 7 ^ 30) (2 ^ 70) /\ float_image 180000 180000.
Proof.
  split; [repeat split; try reflexivity; cbn; discriminate|].
  do 3 (split; [reflexivity|]).
  split; [repeat split; try reflexivity; cbn; discriminate|].
  split; [exact huge_cap_saturates|].
  split; [exact (bounds_positive _ (bounds_all_zero false 0))|].
  split; [vm_compute; reflexivity|].
  split; [vm_compute; reflexivity|].
  unfold float_image.
  repeat split; intros H; vm_compute in H |- *; try reflexivity; try discriminate;
    try (exfalso; apply H; reflexivity).
Qed.

Print Assumptions C19_bounded.
Print Assumptions C19_formula_query.
Print Assumptions C19_formula_query_saturated.
Print Assumptions C19_seq_is_query.
Print Assumptions C19_formula_seq.
Print Assumptions C19_formula_seq_after_reset.
Print Assumptions C19_outages_restart.
Print Assumptions C19_seq_bounded.
Print Assumptions C19_query_history_independent.
Print Assumptions C19_query_after_history.
Print Assumptions C19_ops_are_queries.
Print Assumptions C19_outages_restart_any.
Print Assumptions C19_outages_bounded.
Print Assumptions C19_stream_manager_waits.
Print Assumptions C19_jitter_draw.
Print Assumptions C19_float_robust.
Print Assumptions C19_float_exact_region.
Print Assumptions C19_monotone.
Print Assumptions C19_monotone_delays.
Print Assumptions C19_reaches_cap.
Print Assumptions C19_factor_one_constant.
Print Assumptions C19_jitter_range.
Print Assumptions C19_jitter_any_in_range.
Print Assumptions C19_jitter_ms_draw_admissible.
Print Assumptions C19_exec_is_formula.
Print Assumptions C19_defaults.
