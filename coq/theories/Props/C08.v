(* C08 — each Send / SendRaw / SendIQ puts exactly the serialised stanza (or the
   raw string) on the wire, whole and once, also with concurrent senders, with
   stream management and the traffic logger on or off, for client and component;
   a failed write is reported.  Statements only; proofs in Proofs/SendP.v (one sender),
   Proofs/SendLockP.v (concurrent senders at the level of sendMu and chunked socket
   writes), Proofs/SendWireP.v (composition with the codec).
   Strings are byte strings; [data] is what xml.Marshal returned (the codec is C01). *)
From Coq Require Import List ZArith NArith Bool Arith Permutation.
From XV Require Import Lib.Sx Model.Queue Model.Send Proofs.SendP
  Model.SendLock Proofs.SendLockP
  Model.XmlTree Model.XmlPrint Model.XmlLex Model.XmlBridge Model.Parser Proofs.SendWireP.
Import ListNotations.
Local Open Scope nat_scope.

(* ---- exactly one transport write, carrying the whole data ---- *)

(* Every op that gets to a connected transport makes exactly one Write call,
   whose argument is the data (over WebSocket: one text message carrying the
   data); a SendIQ with a type other than get/set or with an id that is still
   awaiting its response, a send without a transport and a send on a transport
   that is not connected (or behind the closed send gate of a reconnecting
   client) make none (socket and log untouched) and return an error; nil is only ever
   returned by an op that wrote. *)
Theorem C08_one_write : forall cfg so lo st o,
  (attempts cfg o = true ->
     s_sock (fst (step cfg so lo st o)) = s_sock st ++ [op_data o]) /\
  (attempts cfg o = false ->
     s_sock (fst (step cfg so lo st o)) = s_sock st /\
     s_log (fst (step cfg so lo st o)) = s_log st /\
     snd (step cfg so lo st o) <> RNil) /\
  (snd (step cfg so lo st o) = RNil -> attempts cfg o = true).
Proof. exact one_write. Qed.

Theorem C08_rejected_iq_no_write : forall cfg so lo st d t, iq_refused t = true ->
  step cfg so lo st (OSendIQ d t) = (st, RReject).
Proof. exact rejected_iq_no_write. Qed.

(* Over a whole history, every configuration, every fault oracle: the list of
   transport Write calls IS the list of data strings of the ops that reached the
   transport, in call order. *)
Theorem C08_writes_exact : forall cfg so lo ops,
  s_sock (snd (run cfg so lo st0 ops)) = writes_of cfg ops.
Proof. intros. exact (one_write_run cfg so lo ops st0). Qed.

(* The queue is touched only by a client with active stream management (enabled,
   and a session exists); it holds EXACTLY THE STANZAS - a packet or raw string whose
   first element is a message, presence or iq ([nonza] = false), never an
   acknowledgement request or answer, another nonza, a keepalive, the empty string -
   and only those whose write SUCCEEDED: the push and the write are one step
   (Client.sendMu), a refused packet is dropped again. *)
Theorem C08_queue : forall cfg so lo st o,
  s_queue (fst (step cfg so lo st o)) =
  if reaches cfg o && pushes cfg o then
    if SendP.is_nil (snd (step cfg so lo st o)) then q_push (s_queue st) (op_data o)
    else q_drop_last (q_push (s_queue st) (op_data o))
  else s_queue st.
Proof. exact step_queue. Qed.

Theorem C08_queue_held_iff_sent : forall cfg so lo st o,
  q_items (s_queue (fst (step cfg so lo st o))) =
  if reaches cfg o && pushes cfg o && SendP.is_nil (snd (step cfg so lo st o))
  then q_items (q_push (s_queue st) (op_data o)) else q_items (s_queue st).
Proof. exact step_queue_items. Qed.

(* ---- a failed write is reported; a successful one returns nil ---- *)

Theorem C08_failure_reported : forall cfg so lo st o, attempts cfg o = true ->
  (snd (step cfg so lo st o) = RNil <-> write_ok cfg so lo st (op_data o) = true).
Proof. exact failure_reported. Qed.

Theorem C08_sock_error_reported : forall cfg so lo st o, attempts cfg o = true ->
  w_is_err (so (length (s_sock st))) = true -> snd (step cfg so lo st o) <> RNil.
Proof. exact sock_error_reported. Qed.

(* TCP transport with the stream logger: it checks the byte counts itself *)
Theorem C08_logger_faults_reported : forall cfg so lo st o, attempts cfg o = true ->
  c_ws cfg = false -> c_log cfg = true ->
  w_whole (so (length (s_sock st))) (op_data o) = false \/
  w_is_err (lo (S (length (s_log st)))) = true \/
  w_whole (lo (S (length (s_log st)))) (op_data o) = false ->
  snd (step cfg so lo st o) <> RNil.
Proof. exact logger_faults_reported. Qed.

Theorem C08_failure_is_error : forall cfg so lo st o, reaches cfg o = true ->
  snd (step cfg so lo st o) <> RNil ->
  exists e, snd (step cfg so lo st o) = RErr e \/ snd (step cfg so lo st o) = RWrapped e.
Proof. exact failure_is_error. Qed.

Theorem C08_success_is_nil : forall cfg so lo st o, attempts cfg o = true ->
  so (length (s_sock st)) = WOk ->
  (c_ws cfg = true \/ c_log cfg = false \/ lo (S (length (s_log st))) = WOk) ->
  snd (step cfg so lo st o) = RNil.
Proof. exact success_is_nil. Qed.

(* WebSocket transport (websocket_transport.go Write): the call returns exactly the
   socket's verdict on the one message; whatever the traffic log does has no
   influence, and there is no byte count to check *)
Theorem C08_ws_failure_reported : forall cfg so lo st o, attempts cfg o = true -> c_ws cfg = true ->
  (snd (step cfg so lo st o) = RNil <-> w_is_err (so (length (s_sock st))) = false).
Proof. exact ws_failure_reported. Qed.

(* ... and its traffic log, when there is one, gets ONE write, "SEND:\n" ++ p ++ "\n\n",
   before the socket and whatever the socket then does *)
Theorem C08_ws_log_before_socket : forall cfg so lo st p, c_conn cfg = CUp -> c_ws cfg = true ->
  s_log (fst (transport_write cfg so lo st p)) =
  s_log st ++ (if c_log cfg then [log_prefix ++ p ++ log_sep] else []).
Proof. exact ws_log_calls. Qed.

(* nil => the socket took the data whole.  Unless the transport checks the byte
   count itself (only the TCP transport's stream logger does: checks_count) this
   needs the socket to honour the io.Writer contract (n < len p only with an
   error): sendWithWriter ignores the byte count. *)
Theorem C08_success_whole : forall cfg so lo st o,
  snd (step cfg so lo st o) = RNil -> checks_count cfg = true \/ conforming so ->
  accepted (so (length (s_sock st))) (op_data o) = op_data o.
Proof. exact success_whole. Qed.

(* all calls returned nil => the byte stream the socket took is the
   concatenation of the data strings, in call order *)
Theorem C08_wire_stream : forall cfg so lo ops,
  checks_count cfg = true \/ conforming so ->
  Forall (fun r => r = RNil) (fst (run cfg so lo st0 ops)) ->
  stream so 0 (s_sock (snd (run cfg so lo st0 ops))) = concat (writes_of cfg ops).
Proof. exact wire_stream. Qed.

(* In ANY history - rejected requests, missing connections, failed writes around
   it - a send that returned nil has its whole data in the socket's byte stream,
   as the argument of its own (the k-th) write, between what the earlier and the
   later writes left there. *)
Theorem C08_each_success_whole : forall cfg so lo ops j o,
  checks_count cfg = true \/ conforming so ->
  nth_error ops j = Some o ->
  nth_error (fst (run cfg so lo st0 ops)) j = Some RNil ->
  let calls := s_sock (snd (run cfg so lo st0 ops)) in
  let k := length (writes_of cfg (firstn j ops)) in
  nth_error calls k = Some (op_data o) /\
  stream so 0 calls =
    stream so 0 (firstn k calls) ++ op_data o ++ stream so (S k) (skipn (S k) calls).
Proof. exact each_success_whole. Qed.

(* ---- the logger is transparent ---- *)

(* Same socket calls and same socket byte stream with and without the traffic log,
   for every history, every socket fault oracle, whatever the log file does, over
   either transport. *)
Theorem C08_logger_transparent : forall r sm c ws so lo lo' ops,
  s_sock (snd (run (mkC r sm true c ws) so lo st0 ops)) =
  s_sock (snd (run (mkC r sm false c ws) so lo' st0 ops)) /\
  stream so 0 (s_sock (snd (run (mkC r sm true c ws) so lo st0 ops))) =
  stream so 0 (s_sock (snd (run (mkC r sm false c ws) so lo' st0 ops))).
Proof. exact logger_transparent. Qed.

(* With a working log file and a conforming socket the calls return the same. *)
Theorem C08_logger_results : forall r sm c ws so lo lo' ops,
  healthy lo -> conforming so ->
  fst (run (mkC r sm true c ws) so lo st0 ops) = fst (run (mkC r sm false c ws) so lo' st0 ops).
Proof. exact logger_results. Qed.

(* TCP transport: what a fault-free logged write leaves in the log: "SEND:\n", p, "\n\n",
   and nothing but the prefix is logged unless the socket took the data *)
Theorem C08_log_format : forall so lo st p,
  snd (logger_write so lo st p) = None ->
  s_log (fst (logger_write so lo st p)) = s_log st ++ [log_prefix; p; log_sep].
Proof. exact logger_log_calls. Qed.

(* ---- concurrent senders on one client: what sendMu gives ---- *)

(* Model/SendLock.v: a write of a string is several socket steps (chunks), any sender
   may run between two steps; a sender takes sendMu, pushes, writes, drops the entry
   again if the write failed, releases.  Any number of senders, any call lists, any
   schedule, any socket fault oracle.  Once every call has returned:
   - the byte stream is the concatenation, in lock order, of what the socket accepted
     of each whole string: nothing of one string lies inside another;
   - the strings in lock order are a merge of the senders' lists (each exactly once,
     each sender's own order kept);
   - the k-th write got the oracle's k-th outcome, and every call returned nil exactly
     when its write was not refused;
   - the queue holds, numbered 1, 2, ... in wire order, exactly the held strings whose
     write succeeded. *)
Theorem C08_lock_wire_whole : forall so todos st,
  lreach true so (linit todos) st -> lall_done st ->
  l_wire st = lwire_of (l_log st) /\
  interleavings (todo_data todos) (map e_data (l_log st)) /\
  (forall k e, nth_error (l_log st) k = Some e -> e_res e = so k) /\
  (forall i, i < length todos ->
     ls_res (nth i (l_snd st) dflt_sender) = map e_ok (lproj i (l_log st))) /\
  map snd (q_items (l_queue st)) = map e_data (filter held_ok (l_log st)) /\
  map fst (q_items (l_queue st)) =
    map Z.of_nat (seq 1 (length (filter held_ok (l_log st)))).
Proof. exact lock_wire_whole. Qed.

(* for client op lists and a socket that takes everything: the byte stream is the
   concatenation of a merge of the senders' data strings *)
Theorem C08_lock_makes_writes_atomic : forall cfg (senders : list (list op)) st,
  lreach true (fun _ => WOk) (linit (map (todo_of cfg) senders)) st -> lall_done st ->
  exists w, interleavings (map (writes_of cfg) senders) w /\ l_wire st = concat w.
Proof. exact lock_makes_writes_atomic. Qed.

(* at every moment (also in the middle of a write) the wire is a prefix of that *)
Theorem C08_lock_wire_prefix : forall so todos st,
  lreach true so (linit todos) st ->
  exists rest, l_wire st ++ rest = lwire_of (l_log st).
Proof. exact lock_exclusive. Qed.

(* The lock is what these rest on.  Same model, senders that do not take it: "ab" and
   "cd" can end up as "acbd", which is no arrangement of the two strings ... *)
Theorem C08_nolock_tears_refuted :
  lreach false (fun _ => WOk) (linit torn_todos) torn_state /\ lall_done torn_state /\
  forall w, Permutation w (concat (todo_data torn_todos)) -> l_wire torn_state <> concat w.
Proof. exact nolock_tears. Qed.

(* ... and a failed sender's DropLast can take another sender's entry off the queue:
   the stanza that was sent is not held, the one that was not sent is (the
   unsynchronised bookkeeping repaired by /repo 69778a1 and 7def96f). *)
Theorem C08_nolock_loses_queue_entry_refuted :
  lreach false lost_oracle (linit lost_todos) lost_state /\ lall_done lost_state /\
  map snd (q_items (l_queue lost_state)) <> map e_data (filter held_ok (l_log lost_state)).
Proof. exact nolock_loses_queue_entry. Qed.

(* ---- senders whose atomicity is the transport's ---- *)

(* A Component takes no lock, keepalive pings and Close write on the connection
   directly, and a WebSocket message is one library call: there a Write is atomic by
   the contract of net.Conn / tls.Conn / websocket.Conn (trusted, exercised by the
   stress runs).  Under that assumption - one step = one whole write - every
   complete trace puts a merge of the senders' data lists on the wire. *)
Theorem C08_atomic_writes_merge : forall cfg (senders : list (list op)) rem w,
  creach (map (writes_of cfg) senders, []) (rem, w) -> all_done rem ->
  interleavings (map (writes_of cfg) senders) w.
Proof. intros cfg senders rem w H Hd. exact (proj1 (wire_is_interleaving cfg senders rem w H Hd)). Qed.

(* the writes of sender j, read off the wire, are sender j's data in its order *)
Theorem C08_wire_order_per_sender : forall cfg (senders : list (list op)) rem w,
  creach (tag_senders (map (writes_of cfg) senders), []) (rem, w) -> all_done rem ->
  Forall2 (fun j ops => map snd (proj fst j w) = writes_of cfg ops)
          (seq 0 (length senders)) senders.
Proof. exact wire_order_per_sender. Qed.

(* a merge loses and duplicates nothing *)
Theorem C08_merge_is_permutation : forall (ls : list (list str)) w,
  interleavings ls w -> Permutation w (concat ls).
Proof. exact (interleavings_perm str). Qed.

(* every merge can happen (the statements above are not about an empty set) *)
Theorem C08_every_merge_reachable : forall (ls : list (list str)) m,
  interleavings ls m -> exists r, creach (ls, []) (r, m) /\ all_done r.
Proof. intros ls m H. exact (interleaving_creach str ls m H []). Qed.

(* ---- exactly the serialised stanza: composition with the codec ---- *)

(* When the data handed to Send is what the C01 printer writes for element trees and
   every call returned nil, the socket's byte stream is the printed stream of those
   trees, and C02's reader cuts it back into exactly those elements, one packet each. *)
Theorem C08_wire_reparses : forall cfg so lo reg tok (es : list xtree),
  c_conn cfg = CUp -> checks_count cfg = true \/ conforming so ->
  Forall (fun r => r = RNil) (fst (run cfg so lo st0 (map send_tree es))) ->
  forallb wf_doc es = true ->
  forallb (top_ok reg tok) (bridge_trees es) = true ->
  stream so 0 (s_sock (snd (run cfg so lo st0 (map send_tree es)))) = print_open_stream es /\
  option_map (run_packets reg true tok)
    (open_stream_tokens (stream so 0 (s_sock (snd (run cfg so lo st0 (map send_tree es))))))
  = Some (pkts_of (bridge_trees es) ++ [Err EEof]).
Proof. exact wire_reparses. Qed.

(* ---- the correspondence's runner ---- *)

(* not about the property: the executable schedule runner the harness's concurrent
   cases are compared with IS the coarse LTS *)
Theorem C08_runner_sound : forall sched (ls : list (list str)) w r,
  run_sched ls sched = (w, r, true) -> all_done r ->
  interleavings ls w /\ creach (ls, []) (r, w).
Proof.
  intros sched ls w r H Hd. split; [exact (run_sched_sound str sched ls w r H Hd)|].
  exact (run_sched_reach str sched ls w r [] H).
Qed.

Theorem C08_runner_complete : forall (ls : list (list str)) w,
  interleavings ls w ->
  exists sched r, run_sched ls sched = (w, r, true) /\ all_done r /\ length sched = length w.
Proof. exact (run_sched_complete str). Qed.

(* ---- non-vacuity ---- *)

(* client, stream management and logger on; the second socket write fails after
   1 byte, the third is short; a rejected IQ, a request under a pending id and an
   <r/> in between *)
Example C08_example :
  let so := fun k => match k with 1 => WErr 1 | 2 => WShort 1 | _ => WOk end in
  let lo := fun _ : nat => WOk in
  let ops := [OSend [60; 97; 47; 62]%N false; OSendIQ [1]%N TOther; OSendRaw [2; 3]%N false;
              OSend [9; 9]%N true; OSendIQ [8]%N TPending; OSendIQ [7]%N TGet] in
  let r := run (mkC RClient true true CUp false) so lo st0 ops in
  fst r = [RNil; RReject; RErr ESock; RErr EShort; RReject; RNil] /\
  s_sock (snd r) = [[60; 97; 47; 62]; [2; 3]; [9; 9]; [7]]%N /\
  stream so 0 (s_sock (snd r)) = [60; 97; 47; 62; 2; 9; 7]%N /\
  map snd (q_items (s_queue (snd r))) = [[60; 97; 47; 62]; [7]]%N /\
  s_log (snd r) = [log_prefix; [60; 97; 47; 62]; log_sep; log_prefix; log_prefix;
                   log_prefix; [7]; log_sep]%N.
Proof. repeat split. Qed.

(* the same over WebSocket: the short count is not seen, the log gets one line per
   write, before the socket, also for the write that fails *)
Example C08_example_ws :
  let so := fun k => match k with 1 => WErr 1 | _ => WOk end in
  let lo := fun _ : nat => WErr 0 in
  let ops := [OSend [60]%N false; OSendRaw [2; 3]%N false; OSendIQ [7]%N TGet] in
  let r := run (mkC RClient true true CUp true) so lo st0 ops in
  fst r = [RNil; RErr ESock; RNil] /\
  s_sock (snd r) = [[60]; [2; 3]; [7]]%N /\
  map snd (q_items (s_queue (snd r))) = [[60]; [7]]%N /\
  s_log (snd r) = [log_prefix ++ [60] ++ log_sep; log_prefix ++ [2; 3] ++ log_sep;
                   log_prefix ++ [7] ++ log_sep]%N.
Proof. repeat split. Qed.

Example C08_example_conc :
  run_sched [[[1]; [2]]; [[3]]; []]%N [1; 0; 0] = ([[3]; [1]; [2]], [[]; []; []], true)%N /\
  interleavings [[[1]; [2]]; [[3]]; []]%N [[3]; [1]; [2]]%N.
Proof.
  split; [reflexivity|].
  apply (run_sched_sound str [1; 0; 0] _ _ [[]; []; []]); [reflexivity|].
  repeat constructor.
Qed.

(* the hypotheses of the lock theorems are satisfiable: the torn and the lost
   schedules above exist without the lock; with it, e.g. one held stanza whose write
   is refused after one byte *)
Example C08_example_lock :
  let so := fun _ : nat => WErr 1 in
  let st := mkL false [mkLS PIdle [] [false]] [5]%N q_init [mkE 0 [5; 6]%N true (WErr 1)] in
  lreach true so (linit [[([5; 6]%N, true)]]) st /\ lall_done st.
Proof.
  split; [|repeat constructor].
  unfold linit. simpl. eapply lr_step.
  { apply (ls_begin true (fun _ => WErr 1) false [] [] [5; 6]%N true [] [] [] q_init []). reflexivity. }
  simpl. eapply lr_step.
  { apply (ls_chunk true (fun _ => WErr 1) true [] [] true (WErr 1) [5]%N [] [] [] []
             (q_push q_init [5; 6]%N) [mkE 0 [5; 6]%N true (WErr 1)]). discriminate. }
  simpl. eapply lr_step.
  { apply (ls_end true (fun _ => WErr 1) true [] [] true (WErr 1) [] [] [5]%N
             (q_push q_init [5; 6]%N) [mkE 0 [5; 6]%N true (WErr 1)]). }
  simpl. apply lr_refl.
Qed.

Print Assumptions C08_one_write.
Print Assumptions C08_rejected_iq_no_write.
Print Assumptions C08_writes_exact.
Print Assumptions C08_queue.
Print Assumptions C08_queue_held_iff_sent.
Print Assumptions C08_failure_reported.
Print Assumptions C08_sock_error_reported.
Print Assumptions C08_logger_faults_reported.
Print Assumptions C08_failure_is_error.
Print Assumptions C08_success_is_nil.
Print Assumptions C08_ws_failure_reported.
Print Assumptions C08_ws_log_before_socket.
Print Assumptions C08_success_whole.
Print Assumptions C08_wire_stream.
Print Assumptions C08_each_success_whole.
Print Assumptions C08_logger_transparent.
Print Assumptions C08_logger_results.
Print Assumptions C08_log_format.
Print Assumptions C08_lock_wire_whole.
Print Assumptions C08_lock_makes_writes_atomic.
Print Assumptions C08_lock_wire_prefix.
Print Assumptions C08_nolock_tears_refuted.
Print Assumptions C08_nolock_loses_queue_entry_refuted.
Print Assumptions C08_atomic_writes_merge.
Print Assumptions C08_wire_order_per_sender.
Print Assumptions C08_merge_is_permutation.
Print Assumptions C08_every_merge_reachable.
Print Assumptions C08_wire_reparses.
Print Assumptions C08_runner_sound.
Print Assumptions C08_runner_complete.
