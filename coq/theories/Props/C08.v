(* C08 — each Send / SendRaw / SendIQ puts exactly the serialised stanza (or the
   raw string) on the wire, whole and once, also with concurrent senders, with
   stream management and the traffic logger on or off, for client and component;
   a failed write is reported.  Statements only; proofs in Proofs/SendP.v.
   Strings are byte strings; [data] is what xml.Marshal returned (the codec is C01). *)
From Coq Require Import List ZArith NArith Bool Arith Permutation.
From XV Require Import Lib.Sx Model.Queue Model.Send Proofs.SendP.
Import ListNotations.
Local Open Scope nat_scope.

(* ---- exactly one transport write, carrying the whole data ---- *)

(* Every op that gets to a connected transport makes exactly one Write call,
   whose argument is the data; a SendIQ with a type other than get/set, a send
   without a transport and a send on a transport that was never connected make
   none (socket and log untouched) and return an error; nil is only ever
   returned by an op that wrote. *)
Theorem C08_one_write : forall cfg so lo st o,
  (attempts cfg o = true ->
     s_sock (fst (step cfg so lo st o)) = s_sock st ++ [op_data o]) /\
  (attempts cfg o = false ->
     s_sock (fst (step cfg so lo st o)) = s_sock st /\
     s_log (fst (step cfg so lo st o)) = s_log st /\
     snd (step cfg so lo st o) <> RNil) /\
  (snd (step cfg so lo st o) = RNil -> attempts cfg o = true).
Proof. exact one_write. Qed.

Theorem C08_rejected_iq_no_write : forall cfg so lo st d,
  step cfg so lo st (OSendIQ d TOther) = (st, RReject).
Proof. exact rejected_iq_no_write. Qed.

(* Over a whole history, every configuration, every fault oracle: the list of
   transport Write calls IS the list of data strings of the ops that reached the
   transport, in call order. *)
Theorem C08_writes_exact : forall cfg so lo ops,
  s_sock (snd (run cfg so lo st0 ops)) = writes_of cfg ops.
Proof. intros. exact (one_write_run cfg so lo ops st0). Qed.

(* The queue is touched only by a client with active stream management (enabled,
   and a session exists), never for SM requests/answers (sent through Send or as
   a raw string), and only a packet whose write SUCCEEDED stays on it: the push
   and the write are one step (Client.sendMu), a refused packet is dropped again. *)
Theorem C08_queue : forall cfg so lo st o,
  s_queue (fst (step cfg so lo st o)) =
  if reaches cfg o && pushes cfg o then
    if is_nil (snd (step cfg so lo st o)) then q_push (s_queue st) (op_data o)
    else q_drop_last (q_push (s_queue st) (op_data o))
  else s_queue st.
Proof. exact step_queue. Qed.

Theorem C08_queue_held_iff_sent : forall cfg so lo st o,
  q_items (s_queue (fst (step cfg so lo st o))) =
  if reaches cfg o && pushes cfg o && is_nil (snd (step cfg so lo st o))
  then q_items (q_push (s_queue st) (op_data o)) else q_items (s_queue st).
Proof. exact step_queue_items. Qed.

(* ---- a failed write is reported; a successful one returns nil ---- *)

Theorem C08_failure_reported : forall cfg so lo st o, attempts cfg o = true ->
  (snd (step cfg so lo st o) = RNil <-> write_ok cfg so lo st (op_data o) = true).
Proof. exact failure_reported. Qed.

Theorem C08_sock_error_reported : forall cfg so lo st o, attempts cfg o = true ->
  w_is_err (so (length (s_sock st))) = true -> snd (step cfg so lo st o) <> RNil.
Proof. exact sock_error_reported. Qed.

Theorem C08_logger_faults_reported : forall cfg so lo st o, attempts cfg o = true ->
  c_log cfg = true ->
  w_whole (so (length (s_sock st))) (op_data o) = false \/
  w_is_err (lo (S (length (s_log st)))) = true \/
  w_whole (lo (S (length (s_log st)))) (op_data o) = false ->
  snd (step cfg so lo st o) <> RNil.
Proof. exact logger_faults_reported. Qed.

Theorem C08_failure_is_error : forall cfg so lo st o, reaches cfg o = true ->
  snd (step cfg so lo st o) <> RNil ->
  exists e, snd (step cfg so lo st o) = RErr e \/ snd (step cfg so lo st o) = RWrapped e.
Proof. exact failure_is_error. Qed.

Theorem C08_success_is_nil : forall cfg so lo st o, attempts cfg o = true ->
  so (length (s_sock st)) = WOk ->
  (c_log cfg = false \/ lo (S (length (s_log st))) = WOk) ->
  snd (step cfg so lo st o) = RNil.
Proof. exact success_is_nil. Qed.

(* nil => the socket took the data whole.  Without the logger this needs the
   socket to honour the io.Writer contract (n < len p only with an error):
   sendWithWriter ignores the byte count. *)
Theorem C08_success_whole : forall cfg so lo st o,
  snd (step cfg so lo st o) = RNil -> c_log cfg = true \/ conforming so ->
  accepted (so (length (s_sock st))) (op_data o) = op_data o.
Proof. exact success_whole. Qed.

(* all calls returned nil => the byte stream the socket took is the
   concatenation of the data strings, in call order *)
Theorem C08_wire_stream : forall cfg so lo ops,
  c_log cfg = true \/ conforming so ->
  Forall (fun r => r = RNil) (fst (run cfg so lo st0 ops)) ->
  stream so 0 (s_sock (snd (run cfg so lo st0 ops))) = concat (writes_of cfg ops).
Proof. exact wire_stream. Qed.

(* ---- the logger is transparent ---- *)

(* Same socket calls and same socket byte stream with and without the logger,
   for every history, every socket fault oracle and whatever the log file does. *)
Theorem C08_logger_transparent : forall r sm c so lo lo' ops,
  s_sock (snd (run (mkC r sm true c) so lo st0 ops)) =
  s_sock (snd (run (mkC r sm false c) so lo' st0 ops)) /\
  stream so 0 (s_sock (snd (run (mkC r sm true c) so lo st0 ops))) =
  stream so 0 (s_sock (snd (run (mkC r sm false c) so lo' st0 ops))).
Proof. exact logger_transparent. Qed.

(* With a working log file and a conforming socket the calls return the same. *)
Theorem C08_logger_results : forall r sm c so lo lo' ops,
  healthy lo -> conforming so ->
  fst (run (mkC r sm true c) so lo st0 ops) = fst (run (mkC r sm false c) so lo' st0 ops).
Proof. exact logger_results. Qed.

(* what a fault-free logged write leaves in the log: "SEND:\n", p, "\n\n" *)
Theorem C08_log_format : forall so lo st p,
  snd (logger_write so lo st p) = None ->
  s_log (fst (logger_write so lo st p)) = s_log st ++ [log_prefix; p; log_sep].
Proof. exact logger_log_calls. Qed.

(* ---- concurrent senders ---- *)

(* Any number of senders, each performing any op list, any schedule of atomic
   transport writes: once all are done, the write list is a merge of the
   senders' data lists, the byte stream is its concatenation (each string
   whole), and every string occurs exactly as often as it was sent. *)
Theorem C08_wire_is_interleaving : forall cfg (senders : list (list op)) rem w,
  creach (map (writes_of cfg) senders, []) (rem, w) -> all_done rem ->
  interleavings (map (writes_of cfg) senders) w /\
  wire_bytes w = concat w /\
  (forall s, count_occ str_dec w s = count_occ str_dec (concat (map (writes_of cfg) senders)) s) /\
  length w = length (concat (map (writes_of cfg) senders)).
Proof. exact wire_is_interleaving. Qed.

(* the writes of sender j, read off the wire, are sender j's data in its order *)
Theorem C08_wire_order_per_sender : forall cfg (senders : list (list op)) rem w,
  creach (tag_senders (map (writes_of cfg) senders), []) (rem, w) -> all_done rem ->
  Forall2 (fun j ops => map snd (proj fst j w) = writes_of cfg ops)
          (seq 0 (length senders)) senders.
Proof. exact wire_order_per_sender. Qed.

(* a merge is a permutation of all strings sent *)
Theorem C08_merge_is_permutation : forall (ls : list (list str)) w,
  interleavings ls w -> Permutation w (concat ls).
Proof. exact (interleavings_perm str). Qed.

(* every merge can happen (the statement above is not about an empty set) *)
Theorem C08_every_merge_reachable : forall (ls : list (list str)) m,
  interleavings ls m -> exists r, creach (ls, []) (r, m) /\ all_done r.
Proof. intros ls m H. exact (interleaving_creach str ls m H []). Qed.

(* the executable schedule runner used by the correspondence is that LTS *)
Theorem C08_sched_sound : forall sched (ls : list (list str)) w r,
  run_sched ls sched = (w, r, true) -> all_done r ->
  interleavings ls w /\ creach (ls, []) (r, w).
Proof.
  intros sched ls w r H Hd. split; [exact (run_sched_sound str sched ls w r H Hd)|].
  exact (run_sched_reach str sched ls w r [] H).
Qed.

Theorem C08_sched_complete : forall (ls : list (list str)) w,
  interleavings ls w ->
  exists sched r, run_sched ls sched = (w, r, true) /\ all_done r /\ length sched = length w.
Proof. exact (run_sched_complete str). Qed.

(* ---- non-vacuity ---- *)

(* client, stream management and logger on; the second socket write fails after
   1 byte, the third is short; a rejected IQ and an <r/> in between *)
Example C08_example :
  let so := fun k => match k with 1 => WErr 1 | 2 => WShort 1 | _ => WOk end in
  let lo := fun _ : nat => WOk in
  let ops := [OSend [60; 97; 47; 62]%N false; OSendIQ [1]%N TOther; OSendRaw [2; 3]%N false;
              OSend [9; 9]%N true; OSendIQ [7]%N TGet] in
  let r := run (mkC RClient true true CUp) so lo st0 ops in
  fst r = [RNil; RReject; RErr ESock; RErr EShort; RNil] /\
  s_sock (snd r) = [[60; 97; 47; 62]; [2; 3]; [9; 9]; [7]]%N /\
  stream so 0 (s_sock (snd r)) = [60; 97; 47; 62; 2; 9; 7]%N /\
  map snd (q_items (s_queue (snd r))) = [[60; 97; 47; 62]; [7]]%N /\
  s_log (snd r) = [log_prefix; [60; 97; 47; 62]; log_sep; log_prefix; log_prefix;
                   log_prefix; [7]; log_sep]%N.
Proof. repeat split. Qed.

Example C08_example_conc :
  run_sched [[[1]; [2]]; [[3]]; []]%N [1; 0; 0] = ([[3]; [1]; [2]], [[]; []; []], true)%N /\
  interleavings [[[1]; [2]]; [[3]]; []]%N [[3]; [1]; [2]]%N.
Proof.
  split; [reflexivity|].
  apply (run_sched_sound str [1; 0; 0] _ _ [[]; []; []]); [reflexivity|].
  repeat constructor.
Qed.

Print Assumptions C08_one_write.
Print Assumptions C08_rejected_iq_no_write.
Print Assumptions C08_writes_exact.
Print Assumptions C08_queue.
Print Assumptions C08_queue_held_iff_sent.
Print Assumptions C08_failure_reported.
Print Assumptions C08_sock_error_reported.
Print Assumptions C08_logger_faults_reported.
Print Assumptions C08_failure_is_error.
Print Assumptions C08_success_is_nil.
Print Assumptions C08_success_whole.
Print Assumptions C08_wire_stream.
Print Assumptions C08_logger_transparent.
Print Assumptions C08_logger_results.
Print Assumptions C08_log_format.
Print Assumptions C08_wire_is_interleaving.
Print Assumptions C08_wire_order_per_sender.
Print Assumptions C08_merge_is_permutation.
Print Assumptions C08_every_merge_reachable.
Print Assumptions C08_sched_sound.
Print Assumptions C08_sched_complete.
