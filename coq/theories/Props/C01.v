(* C01 — stanza encode/decode round trip preserves every field; text never injects
   XML.  Only statements, closed by lemmas of Proofs/, with their assumptions printed.

   Strings are lists of Unicode code points.  Models: Model/XmlText.v (Go's
   EscapeText table), Model/XmlPrint.v (the encoder's element syntax),
   Model/XmlLex.v (lexer + tree builder for that syntax, default-namespace
   inheritance), Model/Codec.v (values of the stanza core, enc / dec mirroring
   MarshalXML / UnmarshalXML).  Registered extensions and IQ payloads are opaque
   well-formed element trees dispatched through the registry (their own codecs are
   checked by reflection in the harness, not proved). *)
From Coq Require Import List ZArith NArith Bool.
From XV Require Import Lib.Sx Gen.Generated Model.XmlText Model.XmlPrint Model.XmlLex Model.Codec
  Proofs.XmlTextP Proofs.XmlLexP Proofs.CodecP.
Import ListNotations.
Open Scope N_scope.

(* ---------- 1. injection half ---------- *)

(* Whatever the text (any code points at all), in both escaping styles: the escaped
   form contains none of  <  >  dquote  apostrophe, every & in it starts one of the
   eight entities of Go's table, and every character of it is XML-legal. *)
Theorem C01_escape_inert : forall (nl : bool) (s : str),
  forallb (fun c => negb (is_delim c)) (escape nl s) = true
  /\ amp_ok (escape nl s) = true
  /\ all_legal (escape nl s) = true.
Proof.
  intros nl s. split; [apply escape_no_delim|split; [apply amp_ok_escape|apply escape_all_legal]].
Qed.

(* Unescaping gives the text back, characters outside the XML character range
   (legal = Go's isInCharacterRange) having been replaced by U+FFFD as Go does. *)
Theorem C01_unescape_escape_any : forall (nl : bool) (s : str),
  unescape (escape nl s) = Some (map sanitize s).
Proof. exact unescape_escape_gen. Qed.

(* For text made of XML-legal characters the round trip is exact. *)
Theorem C01_unescape_escape : forall (nl : bool) (s : str),
  all_legal s = true -> unescape (escape nl s) = Some s.
Proof. exact unescape_escape. Qed.

(* ---------- 2. printing and parsing element trees ---------- *)

Theorem C01_lex_print : forall ts : list tok,
  wf_toks ts = true -> lex (print_toks ts) = Some ts.
Proof. exact lex_print_toks. Qed.

(* namespace-explicit well-formed trees, unbounded depth and width *)
Theorem C01_parse_print : forall t : xtree,
  wf_doc t = true -> parse (print t) = Some t.
Proof. exact parse_print. Qed.

(* ---------- 3. the codec ---------- *)

(* generic payloads: every Node tree at all decodes back from its encoding *)
Theorem C01_node_roundtrip : forall n : node, dec_node (enc_node n) = Some n.
Proof. exact dec_enc_node. Qed.

(* value level, for every registry that leaves the un-namespaced core children alone.
   wf_value is the domain; the one restriction that is not about characters, names or
   number ranges: an IQ whose Error pointer is non-nil must not point to the all-empty
   Err (wf_iq).  Err.MarshalXML writes nothing for an all-empty Err (it cannot tell a
   pointer from a value), so IQ{Error:&Err{}} is written as <iq></iq> and read back
   with Error == nil; for Message/Presence the field is a value and the all-empty Err
   round-trips as itself. *)
Theorem C01_roundtrip_core : forall (reg : registry) (v : value),
  reg_ok reg = true -> wf_value reg v = true ->
  dec reg (vtype_of v) (enc v) = Some v.
Proof. exact dec_enc. Qed.

(* through the bytes: what is written parses, and decodes to the value *)
Theorem C01_roundtrip_wire : forall (reg : registry) (v : value),
  reg_ok reg = true -> wf_value reg v = true ->
  exists t, parse (print (enc v)) = Some t /\ dec reg (vtype_of v) t = Some v.
Proof.
  intros reg v Hr Hw. exists (enc v).
  split; [apply parse_print, (wf_enc reg v Hw)|apply (dec_enc reg v Hr Hw)].
Qed.

(* writing the decoded value again gives the same bytes *)
Theorem C01_reprint : forall (reg : registry) (v v' : value) (t : xtree),
  reg_ok reg = true -> wf_value reg v = true ->
  parse (print (enc v)) = Some t -> dec reg (vtype_of v) t = Some v' ->
  print (enc v') = print (enc v).
Proof.
  intros reg v v' t Hr Hw Hp Hd.
  rewrite (parse_print _ (wf_enc reg v Hw)) in Hp. injection Hp as <-.
  rewrite (dec_enc reg v Hr Hw) in Hd. now injection Hd as <-.
Qed.

(* the element structure (names, nesting, attribute names) read back from the bytes
   of v is that of any v' that differs from v only in the contents of text
   positions (blank: every text replaced by a fixed text of the same emptiness) *)
Theorem C01_skeleton : forall (reg : registry) (v v' : value),
  wf_value reg v = true -> blank v = blank v' ->
  option_map skeleton (parse (print (enc v))) = Some (skeleton (enc v')).
Proof. exact skeleton_text_independent. Qed.

(* generated obligation: the live registry (Gen/Generated.v, regenerated from the
   code on every run) satisfies the side condition *)
Theorem C01_registry_ok : reg_ok Generated.registry = true.
Proof. vm_compute. reflexivity. Qed.

Theorem C01_roundtrip_live_registry : forall v : value,
  wf_value Generated.registry v = true ->
  exists t, parse (print (enc v)) = Some t /\ dec Generated.registry (vtype_of v) t = Some v.
Proof. intros v Hw. exact (C01_roundtrip_wire Generated.registry v C01_registry_ok Hw). Qed.

(* <failed/> with any count h and any of the 27 conditions round-trips (h is read back
   since /repo d770553, the condition reset since the f6 repair; before d770553 this was
   the recorded finding C01_smfailed_h_refuted) *)
Theorem C01_smfailed_roundtrip : forall (reg : registry) (h : option N) (c : str),
  opt_fits64 h = true -> (isempty c || existsb (str_eqb c) failed_conditions) = true ->
  dec reg TSMFailed (enc (VSMFailed h c)) = Some (VSMFailed h c).
Proof.
  intros reg h c Hh Hc.
  assert (Hw : wf_value [] (VSMFailed h c) = true) by (cbn [wf_value]; now rewrite Hh, Hc).
  pose proof (dec_enc [] (VSMFailed h c) eq_refl Hw) as H. exact H.
Qed.

(* ---------- non-vacuity ---------- *)
Definition C01_example_message : value :=
  VMessage (mkMessage (mkAttrs [99;104;97;116] [105;100;60;49;62] [] [97;64;98;47;99] [101;110]) [] [97;60;98;38;34;99;39;10;93;93;62;32;9] [116] (mkErr 0 [99;97;110;99;101;108] [105;116;101;109;45;110;111;116;45;102;111;117;110;100] [110;111;116;10;104;101;114;101]) [XE [117;114;110;58;120;109;112;112;58;104;105;110;116;115] [110;111;45;99;111;112;121] [] []; XE [117;114;110;58;120;109;112;112;58;114;101;99;101;105;112;116;115] [114;101;99;101;105;118;101;100] [([105;100], [120;38;121])] []]).
Definition C01_example_iq : value :=
  VIQ (mkIQ (mkAttrs [103;101;116] [49] [] [] [101;110]) None (Some (mkErr 404 [] [] [60;103;111;110;101;47;62])) (Some (Node [117;114;110;58;120;58;49] [113] [([97], [118;34;60])] [32;120;10;121;32] [Node [117;114;110;58;120;58;49] [99] [] [] []; Node [117;114;110;58;120;58;50] [100] [] [38] []]))).

Example C01_examples_wf :
  wf_value Generated.registry C01_example_message = true
  /\ wf_value Generated.registry C01_example_iq = true
  /\ wf_value Generated.registry (VSMEnable (Some 5) (Some true)) = true
  /\ wf_value Generated.registry (VSMFailed (Some 7) [114;101;115;101;116]) = true
  /\ wf_doc (enc C01_example_message) = true
  /\ wf_toks (toks (enc C01_example_iq)) = true
  /\ all_legal [60; 62; 38; 34; 39; 93; 93; 62; 9; 10; 13; 233; 28450; 128512] = true.
Proof. vm_compute. repeat split. Qed.

Print Assumptions C01_escape_inert.
Print Assumptions C01_unescape_escape_any.
Print Assumptions C01_unescape_escape.
Print Assumptions C01_lex_print.
Print Assumptions C01_parse_print.
Print Assumptions C01_node_roundtrip.
Print Assumptions C01_roundtrip_core.
Print Assumptions C01_roundtrip_wire.
Print Assumptions C01_reprint.
Print Assumptions C01_skeleton.
Print Assumptions C01_registry_ok.
Print Assumptions C01_roundtrip_live_registry.
Print Assumptions C01_smfailed_roundtrip.
