(* C01 (under construction). *)
From XV Require Import Lib.Sx Model.Codec Proofs.XmlTextP Proofs.XmlLexP Proofs.CodecP.
