(* C01 — stanza encode/decode round trip preserves every field; text never injects
   XML.  Only statements, closed by lemmas of Proofs/, with their assumptions printed.

   Strings are lists of Unicode code points.  Models: Model/XmlText.v (Go's
   EscapeText table), Model/XmlPrint.v (the encoder's element syntax),
   Model/XmlLex.v (lexer + tree builder for that syntax, default-namespace
   inheritance), Model/Codec.v (values of the stanza core, enc / dec mirroring
   MarshalXML / UnmarshalXML).  Registered extensions and IQ payloads are opaque
   well-formed element trees dispatched through the registry (their own codecs are
   checked by reflection in the harness, not proved).

   DOMAIN of the round trip (wf_value; every restriction that is not "the characters of a
   text are XML characters" or "the number fits its Go type" is listed here, each with a
   recorded negative in section 4 showing that it cannot be dropped):
   (a) NAMES.  Node.XMLName.Local and the names of Node.Attrs are of type xml.Name:
       encoding/xml writes a name as it stands, so they must be names in the decoder's
       sense (XmlLex.name_ok: encoding/xml's own tables, without the colon) and an
       attribute must not be called xmlns.  Namespaces (Node.XMLName.Space) are XML characters.
   (b) Err.Reason is the NAME of the condition element, not a text: the element structure
       depends on it by design (blank keeps it).  The repaired Err.MarshalXML refuses a
       Reason that is not an element name - xml.Marshal returns an error, nothing is
       written - which is the hypothesis [marshals v = true] ("once serialized") of the
       theorems that speak about bytes; before the repair a Reason such as a/><b was copied
       into the markup (demonstrated by ./check C01 on the unrepaired tree).  A condition
       cannot be called text (read back as the <text/> child).
   (c) NAMESPACE-EXPLICIT generic trees: a Node without namespace below a Node with one is
       written without xmlns and therefore read back in the parent's namespace (default
       namespace inheritance; it is also what somebody building such a Node by hand means).
   (d) an IQ whose Error pointer is non-nil must not point to the all-empty Err (wf_iq):
       Err.MarshalXML writes nothing for it (it cannot tell a pointer from a value), so
       IQ{Error:&Err{}} is written as <iq></iq> and read back with Error == nil; for
       Message/Presence the field is a value and the all-empty Err round-trips as itself.
   (e) attributes of generic nodes are unqualified (the tree language has no prefixes;
       qualified ones: harness oracle only).
   XMLName of Message / Presence / IQ / Err is not part of a value: its tag names the
   element, encoding/xml then ignores the field's content (a stanza parsed from a stream
   has Space jabber:client there and is still written as <message>; observed by the
   harness on values that carry such an XMLName). *)
From Coq Require Import List ZArith NArith Bool.
From XV Require Import Lib.Sx Gen.Generated Model.XmlText Model.XmlPrint Model.XmlLex Model.Codec
  Proofs.XmlTextP Proofs.XmlLexP Proofs.CodecP.
Import ListNotations.
Open Scope N_scope.

(* ---------- 1. injection half ---------- *)

(* Whatever the text (any code points at all), in both escaping styles: the escaped
   form contains none of  <  >  dquote  apostrophe, every & in it starts one of the
   eight entities of Go's table, and every character of it is XML-legal. *)
Theorem C01_escape_inert : forall (nl : bool) (s : str),
  forallb (fun c => negb (is_delim c)) (escape nl s) = true
  /\ amp_ok (escape nl s) = true
  /\ all_legal (escape nl s) = true.
Proof.
  intros nl s. split; [apply escape_no_delim|split; [apply amp_ok_escape|apply escape_all_legal]].
Qed.

(* Unescaping gives the text back, characters outside the XML character range
   (legal = Go's isInCharacterRange) having been replaced by U+FFFD as Go does. *)
Theorem C01_unescape_escape_any : forall (nl : bool) (s : str),
  unescape (escape nl s) = Some (map sanitize s).
Proof. exact unescape_escape_gen. Qed.

(* For text made of XML-legal characters the round trip is exact. *)
Theorem C01_unescape_escape : forall (nl : bool) (s : str),
  all_legal s = true -> unescape (escape nl s) = Some s.
Proof. exact unescape_escape. Qed.

(* ---------- 2. printing and parsing element trees ---------- *)

Theorem C01_lex_print : forall ts : list tok,
  wf_toks ts = true -> lex (print_toks ts) = Some ts.
Proof. exact lex_print_toks. Qed.

(* namespace-explicit well-formed trees, unbounded depth and width *)
Theorem C01_parse_print : forall t : xtree,
  wf_doc t = true -> parse (print t) = Some t.
Proof. exact parse_print. Qed.

(* ---------- 3. the codec ---------- *)

(* generic payloads: every Node tree at all decodes back from its encoding *)
Theorem C01_node_roundtrip : forall n : node, dec_node (enc_node n) = Some n.
Proof. exact dec_enc_node. Qed.

(* value level (element trees), for every registry that leaves the un-namespaced core
   children alone *)
Theorem C01_roundtrip_core : forall (reg : registry) (v : value),
  reg_ok reg = true -> wf_value reg v = true ->
  dec reg (vtype_of v) (enc v) = Some v.
Proof. exact dec_enc. Qed.

(* through the bytes: what is written parses, decodes to the value, and writing the decoded
   value again gives the same bytes *)
Theorem C01_roundtrip_wire : forall (reg : registry) (v : value),
  reg_ok reg = true -> wf_value reg v = true -> marshals v = true ->
  exists t v', parse (print (enc v)) = Some t /\ dec reg (vtype_of v) t = Some v'
               /\ v' = v /\ print (enc v') = print (enc v).
Proof. exact roundtrip_wire. Qed.

(* the element structure (names, nesting, attribute names) read back from the bytes
   of v is that of any v' that differs from v only in the contents of text
   positions (blank: every text replaced by a fixed text of the same emptiness) *)
Theorem C01_skeleton : forall (reg : registry) (v v' : value),
  wf_value reg v = true -> marshals v = true -> blank v = blank v' ->
  option_map skeleton (parse (print (enc v))) = Some (skeleton (enc v')).
Proof. exact skeleton_text_independent. Qed.

(* ... whatever characters the texts contain: for code points outside the XML range the
   encoder writes U+FFFD, i.e. the bytes of v are those of sanitize_value v, and only that
   value is asked to be in the domain (so every text of v is unconstrained) *)
Theorem C01_written_sanitized : forall v : value, print (enc (sanitize_value v)) = print (enc v).
Proof. exact print_sanitize_value. Qed.

Theorem C01_skeleton_any : forall (reg : registry) (v v' : value),
  wf_value reg (sanitize_value v) = true -> marshals v = true -> blank v = blank v' ->
  option_map skeleton (parse (print (enc v))) = Some (skeleton (enc v')).
Proof. exact skeleton_text_independent_any. Qed.

(* nor can a text decide whether xml.Marshal refuses the value *)
Theorem C01_marshals_text_independent : forall v v' : value,
  blank v = blank v' -> marshals v = marshals v'.
Proof. exact marshals_blank_eq. Qed.

(* generated obligations: the live registry (Gen/Generated.v, regenerated from the
   code on every run) satisfies the side condition; the white-space table of the number
   conversions is the running Go's unicode.IsSpace *)
Theorem C01_registry_ok : reg_ok Generated.registry = true.
Proof. vm_compute. reflexivity. Qed.

Theorem C01_space_table : space_tab = Generated.unicode_space.
Proof. vm_compute. reflexivity. Qed.

Theorem C01_roundtrip_live_registry : forall v : value,
  wf_value Generated.registry v = true -> marshals v = true ->
  exists t v', parse (print (enc v)) = Some t /\ dec Generated.registry (vtype_of v) t = Some v'
               /\ v' = v /\ print (enc v') = print (enc v).
Proof. intros v Hw Hm. exact (C01_roundtrip_wire Generated.registry v C01_registry_ok Hw Hm). Qed.

(* <failed/> with any count h and any of the 27 conditions round-trips whatever the
   registry (h is read back since /repo d770553, the condition reset since the f6 repair;
   before d770553 this was the recorded finding C01_smfailed_h_refuted) *)
Theorem C01_smfailed_roundtrip : forall (reg : registry) (h : option N) (c : str),
  opt_fits64 h = true -> (isempty c || existsb (str_eqb c) failed_conditions) = true ->
  dec reg TSMFailed (enc (VSMFailed h c)) = Some (VSMFailed h c).
Proof.
  intros reg h c Hh Hc.
  assert (Hw : wf_value [] (VSMFailed h c) = true) by (cbn [wf_value]; now rewrite Hh, Hc).
  pose proof (dec_enc [] (VSMFailed h c) eq_refl Hw) as H. exact H.
Qed.

(* ---------- 4. recorded negatives: the domain restrictions (a)-(d) cannot be dropped ---------- *)

(* (a) a generic node whose name is not a name is written as it stands: the bytes are not a
   document ("a b": attribute name without =; "a+b", "1a": not names for the decoder) *)
Definition C01_bad_names : list str := [[97;32;98]; [97;43;98]; [49;97]; [45;120]; [97;47;62;60;98]].
Theorem C01_node_names_unchecked :
  forallb (fun l => match parse (print (enc (VNode (Node [] l [] [] [])))) with
                    | None => true | Some _ => false end) C01_bad_names = true
  /\ parse (print (enc (VNode (Node [] [113] [([97;32;98], [118])] [] [])))) = None.
Proof. vm_compute. split; reflexivity. Qed.

(* (b) the same Reason in an Err: the repaired encoder refuses; the unrepaired one wrote
   bytes that are not a document *)
Theorem C01_reason_refused :
  forallb (fun r => negb (marshals (VMessage (mkMessage (mkAttrs [] [] [] [] []) [] [] []
                                                (mkErr 0 [] r []) [])))) C01_bad_names = true
  /\ forallb (fun r => match parse (print (enc (VMessage (mkMessage (mkAttrs [] [] [] [] []) [] [] []
                                                          (mkErr 0 [] r []) [])))) with
                       | None => true | Some _ => false end) C01_bad_names = true.
Proof. vm_compute. split; reflexivity. Qed.

(* (b) a condition called text comes back as an empty text *)
Theorem C01_reason_text_refuted :
  let v := VMessage (mkMessage (mkAttrs [] [] [] [] []) [] [] [] (mkErr 0 [] s_text []) []) in
  marshals v = true /\
  exists t v', parse (print (enc v)) = Some t /\ dec [] TMessage t = Some v' /\ v' <> v.
Proof.
  cbv zeta. split; [vm_compute; reflexivity|].
  eexists. eexists. split; [vm_compute; reflexivity|]. split; [vm_compute; reflexivity|]. discriminate.
Qed.

(* (c) <q xmlns="urn:x"><c></c></q>: the child is read back in urn:x *)
Theorem C01_unqualified_child_refuted :
  let v := VNode (Node [117;114;110;58;120] [113] [] [] [Node [] [99] [] [] []]) in
  exists t v', parse (print (enc v)) = Some t /\ dec [] TNode t = Some v' /\ v' <> v.
Proof.
  cbv zeta. eexists. eexists. split; [vm_compute; reflexivity|]. split; [vm_compute; reflexivity|]. discriminate.
Qed.

(* (d) IQ{Error: &Err{}} is written as <iq></iq> and read back with a nil Error *)
Theorem C01_empty_iq_error_refuted :
  let v := VIQ (mkIQ (mkAttrs [] [] [] [] []) None (Some zero_err) None) in
  marshals v = true /\
  exists t v', parse (print (enc v)) = Some t /\ dec [] TIQ t = Some v' /\ v' <> v.
Proof.
  cbv zeta. split; [reflexivity|].
  eexists. eexists. split; [vm_compute; reflexivity|]. split; [vm_compute; reflexivity|]. discriminate.
Qed.

(* ---------- non-vacuity ---------- *)
Definition C01_example_message : value :=
  VMessage (mkMessage (mkAttrs [99;104;97;116] [105;100;60;49;62] [] [97;64;98;47;99] [101;110]) [] [97;60;98;38;34;99;39;10;93;93;62;32;9] [116] (mkErr 0 [99;97;110;99;101;108] [105;116;101;109;45;110;111;116;45;102;111;117;110;100] [110;111;116;10;104;101;114;101]) [XE [117;114;110;58;120;109;112;112;58;104;105;110;116;115] [110;111;45;99;111;112;121] [] []; XE [117;114;110;58;120;109;112;112;58;114;101;99;101;105;112;116;115] [114;101;99;101;105;118;101;100] [([105;100], [120;38;121])] []]).
Definition C01_example_iq : value :=
  VIQ (mkIQ (mkAttrs [103;101;116] [49] [] [] [101;110]) None (Some (mkErr 404 [] [] [60;103;111;110;101;47;62])) (Some (Node [117;114;110;58;120;58;49] [113] [([97], [118;34;60])] [32;120;10;121;32] [Node [117;114;110;58;120;58;49] [99] [] [] []; Node [117;114;110;58;120;58;50] [100] [] [38] []]))).

Definition C01_example_illegal : value :=
  VMessage (mkMessage (mkAttrs [0; 60] [11] [] [] []) [] [110;117;108;0;32;65534;60;47;98;62] [] (mkErr 7 [1] [103;111;110;101] [65535]) []).

Example C01_examples_wf :
  wf_value Generated.registry C01_example_message = true
  /\ wf_value Generated.registry C01_example_iq = true
  /\ wf_value Generated.registry (VSMEnable (Some 5) (Some true)) = true
  /\ wf_value Generated.registry (VSMFailed (Some 7) [114;101;115;101;116]) = true
  /\ wf_doc (enc C01_example_message) = true
  /\ wf_toks (toks (enc C01_example_iq)) = true
  /\ all_legal [60; 62; 38; 34; 39; 93; 93; 62; 9; 10; 13; 233; 28450; 128512] = true
  /\ marshals C01_example_message = true /\ marshals C01_example_iq = true
  (* a value with characters outside the XML range in its texts is in the domain of C01_skeleton_any *)
  /\ wf_value Generated.registry C01_example_illegal = false
  /\ wf_value Generated.registry (sanitize_value C01_example_illegal) = true
  /\ marshals C01_example_illegal = true
  (* names at the edges of the decoder's grammar: e-acute, a-middle-dot-b, a.b-c_d, _a are names;
     1a, -x, .x, a+b, a:b, a-multiplication-sign, the middle dot alone are not *)
  /\ forallb name_ok [[233]; [97;183;98]; [97;46;98;45;99;95;100]; [95;97]; [19968]; [55203]] = true
  /\ existsb name_ok [[49;97]; [45;120]; [46;120]; [97;43;98]; [97;58;98]; [97;215]; [183]; [55204]; []] = false.
Proof. vm_compute. repeat split. Qed.

Print Assumptions C01_escape_inert.
Print Assumptions C01_unescape_escape_any.
Print Assumptions C01_unescape_escape.
Print Assumptions C01_lex_print.
Print Assumptions C01_parse_print.
Print Assumptions C01_node_roundtrip.
Print Assumptions C01_roundtrip_core.
Print Assumptions C01_roundtrip_wire.
Print Assumptions C01_skeleton.
Print Assumptions C01_written_sanitized.
Print Assumptions C01_skeleton_any.
Print Assumptions C01_marshals_text_independent.
Print Assumptions C01_registry_ok.
Print Assumptions C01_space_table.
Print Assumptions C01_roundtrip_live_registry.
Print Assumptions C01_smfailed_roundtrip.
Print Assumptions C01_node_names_unchecked.
Print Assumptions C01_reason_refused.
Print Assumptions C01_reason_text_refuted.
Print Assumptions C01_unqualified_child_refuted.
Print Assumptions C01_empty_iq_error_refuted.
