(* C20 — address normalisation yields a dialable host:port and picks the right
   transport.  Only statements, closed by [exact], with their assumptions printed.

   Strings are byte strings.  ":" is c_colon, "[" c_lbr, "]" c_rbr.
   [split_host_port] is Go's net.SplitHostPort (the syntactic validity test every
   net.Dial applies), [ensure_port] is network.go's ensurePort, [itoa] strconv.Itoa.
   Host forms:  name_or_v4 h : non-empty, no ':' '[' ']'   (DNS names, trailing dot
   included, and IPv4 literals);  v6 x : at least two ':', no '[' ']'  (every IPv6
   literal, compressed, IPv4-mapped, with a %zone);  port_ok p : non-empty, no
   ':' '[' ']'  (all decimal port numbers in particular, see C20_ports_are_ok).
   The bare IPv6 literal directly followed by ":port" is outside every statement,
   as in the property: no theorem below has a hypothesis that such a string meets
   as "literal + port" (T5 / C20_dial_bare_v6 / C20_checker_bare_v6 take the WHOLE
   string x as the literal; a string like "::1:5222", which is an IPv6 literal as it
   stands, is inside them as that literal, without port).  A string that is not an
   IPv6 literal as a whole but an unbracketed IPv6 literal followed by ":digits"
   (":::1", "1:2:3:4:5:6:7:8:5222") is therefore none of the forms of T1-T5; the
   correspondence run compares model and code on such strings - as on addresses with
   white space at either end - by a constant only (harness/c20.go c20Excluded), i.e.
   by what the property fixes about them: nothing.  Only C20_ensure_port_idempotent
   and C20_T6_* are stated for every string; the first is a fact about the model
   where the model is not compared.

   "Valid, dialable host:port" means here: net.SplitHostPort accepts it and returns
   exactly the given host and the given-or-default port.  Nothing is claimed about
   resolving the host or the port (net.LookupPort of a service name the user wrote is
   the user's business; a default port prints as digits, C20_ports_are_ok).
   "host:" and "[v6]:" - a separator with an EMPTY port - give no port: port_ok (an
   EXPLICIT port) excludes the empty string, and C20_empty_port_is_no_port states that
   these forms are completed and dialled like the address without the colon. *)
From Coq Require Import List ZArith NArith Bool.
From XV Require Import Lib.Sx Model.Addr Proofs.AddrP Gen.Generated.
Import ListNotations.
Open Scope Z_scope.

(* T1: host name / IPv4 without port: the default port n is appended, and the
   result splits into exactly that host and that port. *)
Theorem C20_T1_host_without_port : forall (h : str) (n : Z), name_or_v4 h = true ->
  ensure_port h n = h ++ c_colon :: itoa n /\
  split_host_port (ensure_port h n) = SplitOk h (itoa n).
Proof. exact T1. Qed.

(* T2: host name / IPv4 with an explicit port: unchanged; host and port kept. *)
Theorem C20_T2_host_with_port : forall (h p : str) (n : Z),
  name_or_v4 h = true -> port_ok p = true ->
  ensure_port (h ++ c_colon :: p) n = h ++ c_colon :: p /\
  split_host_port (ensure_port (h ++ c_colon :: p) n) = SplitOk h p.
Proof. exact T2. Qed.

(* T3: bracketed IPv6 without port: ":n" appended; host is the literal without brackets. *)
Theorem C20_T3_bracketed_v6_without_port : forall (x : str) (n : Z), v6 x = true ->
  ensure_port (c_lbr :: x ++ [c_rbr]) n = c_lbr :: x ++ c_rbr :: c_colon :: itoa n /\
  split_host_port (ensure_port (c_lbr :: x ++ [c_rbr]) n) = SplitOk x (itoa n).
Proof. exact T3. Qed.

(* T4: bracketed IPv6 with an explicit port: unchanged; host and port kept. *)
Theorem C20_T4_bracketed_v6_with_port : forall (x p : str) (n : Z),
  v6 x = true -> port_ok p = true ->
  ensure_port (c_lbr :: x ++ c_rbr :: c_colon :: p) n = c_lbr :: x ++ c_rbr :: c_colon :: p /\
  split_host_port (ensure_port (c_lbr :: x ++ c_rbr :: c_colon :: p) n) = SplitOk x p.
Proof. exact T4. Qed.

(* T5: bare IPv6 (no brackets, hence no port): bracketed and ":n" appended. *)
Theorem C20_T5_bare_v6 : forall (x : str) (n : Z), v6 x = true ->
  ensure_port x n = c_lbr :: x ++ c_rbr :: c_colon :: itoa n /\
  split_host_port (ensure_port x n) = SplitOk x (itoa n).
Proof. exact T5. Qed.

(* every port number prints as a well-formed port (digits, for the non-negative ones) *)
Theorem C20_ports_are_ok : forall n : Z,
  port_ok (itoa n) = true /\ (0 <= n -> digits (itoa n) = true).
Proof. intros n. split; [exact (itoa_port_ok n)|exact (itoa_nonneg_digits n)]. Qed.

(* the default port, as read from the live code into Generated.v, is Itoa(5222) = "5222" *)
Theorem C20_default_port : default_port = itoa 5222 /\ default_port = [53; 50; 50; 50]%N.
Proof. exact default_port_is_5222. Qed.

(* The SRV path (client.go: config.Address = ensurePort(srv.Target, srv.Port), then
   NewClientTransport applies ensurePort(.., 5222) again): a second application never
   changes the result of a first one - for EVERY address string and every two port
   numbers, not only for the host forms. *)
Theorem C20_ensure_port_idempotent : forall (a : str) (n m : Z),
  ensure_port (ensure_port a n) m = ensure_port a n.
Proof. exact ensure_port_idem. Qed.

(* T6: an address with a ws / wss scheme - the letters in any case, followed by
   "://" (s_sep) - gives the WebSocket transport for clients (address untouched)
   and a refusal for components; every other address gives the TCP transport
   dialling ensure_port addr 5222, for both constructors.  [lower] is the ASCII
   lower case of a byte; sch_ws = "ws", sch_wss = "wss". *)
Theorem C20_T6_scheme : forall a : str,
  (exists u r, a = u ++ s_sep ++ r /\ (map lower u = sch_ws \/ map lower u = sch_wss)) ->
  client_transport a = WebSocket a /\ component_transport a = NotSupported.
Proof. exact T6_scheme. Qed.

Theorem C20_T6_no_scheme : forall a : str,
  (forall u r, a = u ++ s_sep ++ r -> map lower u <> sch_ws /\ map lower u <> sch_wss) ->
  client_transport a = Tcp (ensure_port a 5222) /\
  component_transport a = Tcp (ensure_port a 5222).
Proof. exact T6_other. Qed.

(* T1..T6 combined: what both constructors dial, per host form ([dials a h p]: both
   return the TCP transport whose address splits into exactly host h and port p).
   host:port is a URL only when the port starts with "//" (no port number does);
   an IPv6 literal never starts with 'w' or 'W'. *)
Theorem C20_dial_host_without_port : forall h : str,
  name_or_v4 h = true -> dials h h default_port.
Proof. exact dial_T1. Qed.
Theorem C20_dial_host_with_port : forall h p : str,
  name_or_v4 h = true -> port_ok p = true ->
  has_prefix [c_slash; c_slash] p = false -> dials (h ++ c_colon :: p) h p.
Proof. exact dial_T2. Qed.
Theorem C20_dial_host_with_numeric_port : forall h p : str,
  name_or_v4 h = true -> digits p = true -> dials (h ++ c_colon :: p) h p.
Proof. exact dial_T2_numeric. Qed.
Theorem C20_dial_bracketed_v6_without_port : forall x : str,
  v6 x = true -> dials (c_lbr :: x ++ [c_rbr]) x default_port.
Proof. exact dial_T3. Qed.
Theorem C20_dial_bracketed_v6_with_port : forall x p : str,
  v6 x = true -> port_ok p = true -> dials (c_lbr :: x ++ c_rbr :: c_colon :: p) x p.
Proof. exact dial_T4. Qed.
Theorem C20_dial_bare_v6 : forall x : str,
  v6 x = true -> starts_w x = false -> dials x x default_port.
Proof. exact dial_T5. Qed.
(* a host called "ws" or "wss" with a port is dialled like any other host *)
Theorem C20_ws_named_host : forall p : str, digits p = true ->
  dials (sch_ws ++ c_colon :: p) sch_ws p /\ dials (sch_wss ++ c_colon :: p) sch_wss p.
Proof. exact ws_named_host_dials. Qed.

(* Reconnections.  A client keeps ONE transport object and calls its Connect again for
   every reconnection; [client_dials a outcomes] / [component_dials a outcomes] are the
   addresses dialled by the successive Connects of the transport the constructor returns
   for a, [outcomes] saying for each attempt which peer address it reached or that it
   failed.  Whatever dials a host port (every C20_dial_* theorem above and below), EVERY
   Connect - the second and the third as the first, after successes and failures - dials a
   host:port that splits into exactly that host and port: the host given is kept (not
   replaced by the IP address an earlier connection reached). *)
Theorem C20_redial_keeps_host : forall (a host port : str) (outcomes : list (option str)),
  dials a host port ->
  Forall (fun d => split_host_port d = SplitOk host port) (client_dials a outcomes) /\
  Forall (fun d => split_host_port d = SplitOk host port) (component_dials a outcomes) /\
  length (client_dials a outcomes) = length outcomes /\
  length (component_dials a outcomes) = length outcomes.
Proof. exact redial. Qed.

(* SRV: a portless host completed with the SRV port n is dialled at exactly that host
   and port n - 5222 is not added a second time (srv.Target is a DNS name; the IPv6
   forms are stated for completeness). *)
Theorem C20_dial_srv :
  (forall (h : str) (n : Z), name_or_v4 h = true -> dials (ensure_port h n) h (itoa n)) /\
  (forall (x : str) (n : Z), v6 x = true -> dials (ensure_port x n) x (itoa n)) /\
  (forall (x : str) (n : Z), v6 x = true -> dials (ensure_port (c_lbr :: x ++ [c_rbr]) n) x (itoa n)).
Proof. split; [exact dial_srv_name|]. split; [exact dial_srv_bare_v6|exact dial_srv_bracketed_v6]. Qed.

(* "host:" and "[v6]:" - a separator with an EMPTY port.  None was given, so the default
   is due (REPAIRED, hunt2 C20/f1: ensurePort used to return such an address unchanged,
   the transports dialled it and net.Dial made TCP port 0 of the empty port, while the
   certificate checker already read it as "no port").  For every port argument n the
   result is host:n; both constructors and the certificate checker dial exactly the
   given host and 5222 - the same as for the address without the colon. *)
Theorem C20_empty_port_is_no_port :
  (forall (h : str) (n : Z), name_or_v4 h = true ->
     ensure_port (h ++ [c_colon]) n = h ++ c_colon :: itoa n /\
     split_host_port (ensure_port (h ++ [c_colon]) n) = SplitOk h (itoa n)) /\
  (forall (x : str) (n : Z), v6 x = true ->
     ensure_port (c_lbr :: x ++ [c_rbr; c_colon]) n = c_lbr :: x ++ c_rbr :: c_colon :: itoa n /\
     split_host_port (ensure_port (c_lbr :: x ++ [c_rbr; c_colon]) n) = SplitOk x (itoa n)) /\
  (forall h : str, name_or_v4 h = true ->
     dials (h ++ [c_colon]) h default_port /\ checks (h ++ [c_colon]) h default_port) /\
  (forall x : str, v6 x = true ->
     dials (c_lbr :: x ++ [c_rbr; c_colon]) x default_port /\
     checks (c_lbr :: x ++ [c_rbr; c_colon]) x default_port).
Proof.
  split; [exact T_empty_name|]. split; [exact T_empty_bracketed|].
  split; [intros h H; split; [exact (dial_empty_name h H)|exact (check_empty_name h H)]|].
  intros x H; split; [exact (dial_empty_bracketed x H)|exact (check_empty_bracketed x H)].
Qed.

(* the certificate checker (NewChecker) accepts every form and dials the same
   host:port ([checks a h p]: accepted, host h, dial address splits into h and p) *)
Theorem C20_checker_host_without_port : forall h : str,
  name_or_v4 h = true -> checks h h default_port.
Proof. exact check_T1. Qed.
Theorem C20_checker_host_with_port : forall h p : str,
  name_or_v4 h = true -> port_ok p = true -> checks (h ++ c_colon :: p) h p.
Proof. exact check_T2. Qed.
Theorem C20_checker_bracketed_v6_without_port : forall x : str,
  v6 x = true -> checks (c_lbr :: x ++ [c_rbr]) x default_port.
Proof. exact check_T3. Qed.
Theorem C20_checker_bracketed_v6_with_port : forall x p : str,
  v6 x = true -> port_ok p = true -> checks (c_lbr :: x ++ c_rbr :: c_colon :: p) x p.
Proof. exact check_T4. Qed.
Theorem C20_checker_bare_v6 : forall x : str, v6 x = true -> checks x x default_port.
Proof. exact check_T5. Qed.

(* non-vacuity: the hypotheses hold of real addresses and the conclusions compute.
   "a-1.example." / "fe80::1%eth0" / "::ffff:1.2.3.4" / port "65535" *)
Definition ex_name : str := s_ [97;45;49;46;101;120;97;109;112;108;101;46].
Definition ex_v6z : str := s_ [102;101;56;48;58;58;49;37;101;116;104;48].
Definition ex_v6m : str := s_ [58;58;102;102;102;102;58;49;46;50;46;51;46;52].
Definition ex_port : str := s_ [54;53;53;51;53].
Definition ex_WSS : str := s_ [87;115;83].   (* "WsS" *)
Example C20_example :
  name_or_v4 ex_name = true /\ v6 ex_v6z = true /\ v6 ex_v6m = true /\ port_ok ex_port = true /\
  client_transport ex_name = Tcp (ex_name ++ c_colon :: default_port) /\
  split_host_port (ex_name ++ c_colon :: ex_port) = SplitOk ex_name ex_port /\
  client_transport ex_v6z = Tcp (c_lbr :: ex_v6z ++ c_rbr :: c_colon :: default_port) /\
  split_host_port (c_lbr :: ex_v6z ++ c_rbr :: c_colon :: default_port) = SplitOk ex_v6z default_port /\
  component_transport (c_lbr :: ex_v6m ++ c_rbr :: c_colon :: ex_port)
    = Tcp (c_lbr :: ex_v6m ++ c_rbr :: c_colon :: ex_port) /\
  client_transport (ex_WSS ++ s_sep ++ ex_name) = WebSocket (ex_WSS ++ s_sep ++ ex_name) /\
  component_transport (sch_ws ++ s_sep ++ ex_name) = NotSupported /\
  client_transport (sch_ws ++ c_colon :: ex_port) = Tcp (sch_ws ++ c_colon :: ex_port) /\
  checker_params (c_lbr :: ex_v6m ++ c_rbr :: c_colon :: ex_port)
    = Some (c_lbr :: ex_v6m ++ c_rbr :: c_colon :: ex_port, ex_v6m) /\
  (* three Connects of the transport for "a-1.example.:65535"; the first reached some peer address *)
  client_dials (ex_name ++ c_colon :: ex_port) [Some ex_v6m; None; Some ex_v6z]
    = [ex_name ++ c_colon :: ex_port; ex_name ++ c_colon :: ex_port; ex_name ++ c_colon :: ex_port] /\
  (* SRV: "a-1.example." completed with port 5269, then handed to the constructor *)
  client_transport (ensure_port ex_name 5269) = Tcp (ex_name ++ c_colon :: itoa 5269) /\
  (* outside the statement: bare IPv6 directly followed by ":port" *)
  ensure_port (ex_v6m ++ c_colon :: ex_port) 5222
    = c_lbr :: (ex_v6m ++ c_colon :: ex_port) ++ c_rbr :: c_colon :: default_port.
Proof. repeat split; reflexivity. Qed.

Print Assumptions C20_T1_host_without_port.
Print Assumptions C20_T2_host_with_port.
Print Assumptions C20_T3_bracketed_v6_without_port.
Print Assumptions C20_T4_bracketed_v6_with_port.
Print Assumptions C20_T5_bare_v6.
Print Assumptions C20_ports_are_ok.
Print Assumptions C20_default_port.
Print Assumptions C20_ensure_port_idempotent.
Print Assumptions C20_dial_srv.
Print Assumptions C20_redial_keeps_host.
Print Assumptions C20_empty_port_is_no_port.
Print Assumptions C20_T6_scheme.
Print Assumptions C20_T6_no_scheme.
Print Assumptions C20_dial_host_without_port.
Print Assumptions C20_dial_host_with_port.
Print Assumptions C20_dial_bracketed_v6_without_port.
Print Assumptions C20_dial_bracketed_v6_with_port.
Print Assumptions C20_dial_bare_v6.
Print Assumptions C20_ws_named_host.
Print Assumptions C20_dial_host_with_numeric_port.
Print Assumptions C20_checker_host_without_port.
Print Assumptions C20_checker_host_with_port.
Print Assumptions C20_checker_bracketed_v6_without_port.
Print Assumptions C20_checker_bracketed_v6_with_port.
Print Assumptions C20_checker_bare_v6.
