(* C06 — the router runs only the first matching route; unhandled IQ requests get
   exactly one feature-not-implemented error.  Only statements, closed by [exact]
   or a short application of lemmas of Proofs/RouterP.v, with their assumptions printed.

   All theorems are over arbitrary tables (any number and order of routes, each any
   list of name / type / namespace matchers, possibly none) and arbitrary packets
   (message, presence, IQ of any type with or without payload, non-stanza packets),
   and an arbitrary set [pend] of ids of pending SendIQ requests.
   Domain: every route has a handler (a route without one is a nil call when it matches
   first: configuration error, outside "the handler of the first registered route");
   the arguments of Packet / StanzaType are ASCII ([ascii], hypothesis of C06_matcher_name /
   C06_matcher_type): the model's [lower] is strings.ToLower there and only there (Go also
   maps U+0130, U+212A, U+017F to ASCII letters; the harness draws such names and compares
   with Go's own lower-casing); SMAnswer is one of the non-stanza packets for every Sender
   but a *Client (whose retransmission before routing is C10's).  The reply is what is
   handed to Sender.Send; its result is discarded by the code and not part of the text. *)
From Coq Require Import List ZArith NArith Bool.
From XV Require Import Lib.Sx Model.Router Proofs.RouterP.
Import ListNotations.
Open Scope N_scope.

(* "the handler of the first registered route whose matchers all accept it is invoked
   exactly once and no other handler runs": for a packet not claimed by a pending
   request, when route_pkt reports handler i, route i accepts, every earlier route
   rejects, and the whole handler log is [i]; when it reports none, no route accepts
   and the log is empty. *)
Theorem C06_first_match : forall (t : table) (pend : list str) (p : pkt),
  pending_hit pend p = false ->
  match fst (route_pkt t pend p) with
  | Some i =>
      ((exists r, nth_error t i = Some r /\ route_match r p = true) /\
       (forall j, (j < i)%nat -> exists r, nth_error t j = Some r /\ route_match r p = false)) /\
      handler_log (fst (do_route t pend p)) = [i]
  | None =>
      (forall j r, nth_error t j = Some r -> route_match r p = false) /\
      handler_log (fst (do_route t pend p)) = []
  end.
Proof. exact first_match. Qed.

(* conversely: whenever some route is the first accepting one, it is the one that runs *)
Theorem C06_first_match_complete : forall (t : table) (pend : list str) (p : pkt) (i : nat),
  pending_hit pend p = false ->
  (handler_log (fst (do_route t pend p)) = [i] <-> first_accepting t p i).
Proof. exact handler_log_first. Qed.

(* never more than one handler call, pending or not *)
Theorem C06_at_most_one_handler : forall (t : table) (pend : list str) (p : pkt),
  (length (handler_log (fst (do_route t pend p))) <= 1)%nat.
Proof. exact handler_log_le_1. Qed.

(* "its matchers all accept": a route is the conjunction of its matchers *)
Theorem C06_route_conjunction : forall (r : route) (p : pkt),
  route_match r p = true <-> forall m, In m r -> m_match m p = true.
Proof. exact route_match_all. Qed.

(* "a route without matchers accepts everything" *)
Theorem C06_empty_route : forall p : pkt, route_match [] p = true.
Proof. exact empty_route_accepts. Qed.

(* "matchers behave as documented" — packet name (argument lower-cased) *)
Theorem C06_matcher_name : forall (s : str) (p : pkt),
  ascii s ->
  (m_match (b_packet s) p = true <-> kind_name p = lower s) /\
  (forall a, kind_name (PMessage a) = s_message) /\
  (forall a, kind_name (PPresence a) = s_presence) /\
  (forall a ns any, kind_name (PIQ a ns any) = s_iq) /\
  (forall k, kind_name (POther k) = []).
Proof. intros s p _. split; [apply name_matcher_sem | exact kind_name_def]. Qed.

(* stanza type, with 'normal' as the default message type; never a non-stanza packet *)
Theorem C06_matcher_type : forall (l : list str) (p : pkt),
  Forall ascii l ->
  (m_match (b_stanza_type l) p = true <->
     exists ty, stanza_type p = Some ty /\ In ty (map lower l)) /\
  (forall a, a_type a = [] -> stanza_type (PMessage a) = Some s_normal) /\
  (forall a, a_type a <> [] -> stanza_type (PMessage a) = Some (a_type a)) /\
  (forall a, stanza_type (PPresence a) = Some (a_type a)) /\
  (forall a ns any, stanza_type (PIQ a ns any) = Some (a_type a)) /\
  (forall k, stanza_type (POther k) = None).
Proof. intros l p _. split; [apply type_matcher_sem | exact stanza_type_def]. Qed.

(* the domain hypothesis is satisfiable, and [lower] does there what strings.ToLower does:
   "IQ" / "Chat" in any letter case *)
Example C06_ascii_example :
  ascii [73;81] /\ lower [73;81] = s_iq /\ Forall ascii [[67;104;65;116]] /\
  map lower [[67;104;65;116]] = [[99;104;97;116]].
Proof. repeat split; repeat constructor. Qed.

(* IQ payload namespace: an IQ with a payload — typed (Payload) or, for payload types
   the stanza registry does not know, generic (Any) — whose namespace is, verbatim, one of
   the namespaces given; namespace names are case-sensitive *)
Theorem C06_matcher_ns : forall (l : list str) (p : pkt),
  (m_match (b_iq_namespaces l) p = true <->
     exists a ns any n, p = PIQ a ns any /\ iq_namespace ns any = Some n /\ In n l) /\
  (forall n any, iq_namespace (Some n) any = Some n) /\
  (forall any, iq_namespace None any = any).
Proof. intros l p. split; [apply ns_matcher_sem | exact iq_namespace_def]. Qed.

(* "An IQ request (get or set) that matches no route is answered with exactly one
   feature-not-implemented error carrying the request's id with from/to swapped, and
   unmatched packets of any other kind produce no reply." *)
Theorem C06_auto_reply : forall (t : table) (pend : list str) (p : pkt),
  pending_hit pend p = false ->
  (forall j r, nth_error t j = Some r -> route_match r p = false) ->
  (forall a ns any, p = PIQ a ns any -> a_type a = s_get \/ a_type a = s_set ->
     replies (fst (do_route t pend p)) = [err_reply a]) /\
  ((forall a ns any, p = PIQ a ns any -> a_type a <> s_get /\ a_type a <> s_set) ->
     replies (fst (do_route t pend p)) = []).
Proof. exact auto_reply. Qed.

Theorem C06_err_reply : forall a : attrs,
  a_id (rp_attrs (err_reply a)) = a_id a /\
  a_from (rp_attrs (err_reply a)) = a_to a /\
  a_to (rp_attrs (err_reply a)) = a_from a /\
  a_type (rp_attrs (err_reply a)) = s_error /\
  rp_condition (err_reply a) = Some s_feature_not_implemented.
Proof. exact err_reply_fields. Qed.

(* a packet that some route handles gets no reply from the router itself *)
Theorem C06_matched_no_reply : forall (t : table) (pend : list str) (p : pkt) (i : nat),
  first_accepting t p i -> replies (fst (do_route t pend p)) = [].
Proof. exact matched_no_reply. Qed.

(* the sequential part of the IQ-result table: only a response (result / error) whose id
   is pending goes to the waiting request — and then to it only (no route consulted, no
   reply), the id being unregistered; any other packet leaves the table alone and is
   delivered to nobody.  In particular a request (get / set) that happens to carry the id
   of one of our own pending requests is routed like any other request. *)
Theorem C06_pending : forall (t : table) (pend : list str) (p : pkt),
  (pending_hit pend p = true <->
     exists a ns any, p = PIQ a ns any /\
       (a_type a = s_result \/ a_type a = s_error) /\ In (a_id a) pend) /\
  (pending_hit pend p = true ->
     exists a ns any, p = PIQ a ns any /\
       handler_log (fst (do_route t pend p)) = [] /\
       replies (fst (do_route t pend p)) = [] /\
       deliveries (fst (do_route t pend p)) = [a] /\
       (forall x, In x (snd (do_route t pend p)) <-> In x pend /\ x <> a_id a)) /\
  (pending_hit pend p = false ->
     deliveries (fst (do_route t pend p)) = [] /\ snd (do_route t pend p) = pend).
Proof.
  intros t pend p. split; [apply pending_hit_iff|].
  split; [apply pending_delivery | apply not_pending_no_delivery].
Qed.

(* a response whose id belongs to a request that has already ENDED (context cancelled or
   timed out, entry not yet removed by its clean-up) is a received packet like any other: it
   is delivered to nobody, produces exactly the events it would produce with no such entry -
   so C06_first_match / C06_first_match_complete / C06_at_most_one_handler apply to it: the
   handler of the first accepting route runs exactly once - and the stale entry is gone; a
   live pending request still takes its response first, the ended entries untouched. *)
Theorem C06_ended_request_routed : forall (t : table) (pend ended : list str) (p : pkt),
  pending_hit pend p = false ->
  let '(ev, pend', ended') := do_route_e t pend ended p in
  ev = fst (do_route t pend p) /\ pend' = pend /\ deliveries ev = [] /\
  (pending_hit ended p = true ->
     exists a ns any, p = PIQ a ns any /\ forall x, In x ended' <-> In x ended /\ x <> a_id a) /\
  (pending_hit ended p = false -> ended' = ended).
Proof. exact ended_routed. Qed.

Theorem C06_live_request_first : forall (t : table) (pend ended : list str) (p : pkt),
  pending_hit pend p = true ->
  do_route_e t pend ended p = (fst (do_route t pend p), snd (do_route t pend p), ended).
Proof. exact ended_live_first. Qed.

Theorem C06_request_never_a_response : forall (pend : list str) (a : attrs) (ns any : option str),
  a_type a = s_get \/ a_type a = s_set -> pending_hit pend (PIQ a ns any) = false.
Proof. exact request_not_pending. Qed.

(* non-vacuity: catch-all in a non-final position shadowing a later exact route, a
   conjunction name+type+namespace given in mixed case, an unmatched get, a pending id *)
Example C06_example :
  let nsx := [117;114;110;58;88] in                        (* "urn:X": case kept *)
  let a ty := {| a_type := ty; a_id := [49]; a_from := [97]; a_to := [98] |} in
  let t := [ [b_packet [73;81]; b_stanza_type [[71;69;84]]; b_iq_namespaces [nsx]];
             [b_packet [77;101;115;115;97;103;101]; b_stanza_type [s_normal]];
             [];
             [b_packet s_presence] ] in
  route_pkt t [] (PIQ (a s_get) (Some nsx) None) = (Some 0%nat, []) /\
  route_pkt t [] (PIQ (a s_get) None (Some nsx)) = (Some 0%nat, []) /\       (* unregistered payload type *)
  route_pkt t [] (PIQ (a s_get) (Some (lower nsx)) None) = (Some 2%nat, []) /\ (* another namespace *)
  route_pkt t [] (PMessage (a [])) = (Some 1%nat, []) /\
  route_pkt t [] (PPresence (a [])) = (Some 2%nat, []) /\
  route_pkt (firstn 2 t) [] (PIQ (a s_set) None (Some nsx)) = (None, [err_reply (a s_set)]) /\
  route_pkt (firstn 2 t) [[49]] (PIQ (a s_set) None None) = (None, [err_reply (a s_set)]) /\ (* id clash *)
  route_pkt (firstn 2 t) [] (PIQ (a s_error) None None) = (None, []) /\
  route_pkt (firstn 2 t) [] (POther 0) = (None, []) /\
  do_route t [[50]; [49]] (PIQ (a s_result) (Some nsx) None) = ([EDeliver (a s_result)], [[50]]).
Proof. vm_compute. repeat split. Qed.

(* Routes registered while the router is in use (from inside a handler, or from another goroutine
   between / during dispatches): for EVERY interleaving [h] of route registrations and dispatches
   starting from any table, every packet is dispatched exactly once (one outcome per packet, in
   order), on the table as it is when its dispatch begins: the handler of the first accepting route
   of that table and nothing else, or - no route accepting - exactly one feature-not-implemented
   reply for an IQ get/set and nothing for any other packet. *)
Theorem C06_history : forall (t : table) (h : list hop),
  length (run_hist t h) = length (hist_packets h) /\
  map snd (dispatches t h) = hist_packets h /\
  Forall2 (fun tp ev =>
      (exists i, router_match (fst tp) (snd tp) = Some i /\ ev = [EHandle i]) \/
      (router_match (fst tp) (snd tp) = None /\
       exists a ns any, snd tp = PIQ a ns any /\ is_request (a_type a) = true /\
                        ev = [ESend (err_reply a)]) \/
      (router_match (fst tp) (snd tp) = None /\ ev = [] /\
       forall a ns any, snd tp = PIQ a ns any -> is_request (a_type a) = false))
    (dispatches t h) (run_hist t h).
Proof.
  intros t h. destruct (hist_one_outcome t h) as [Hl Hf].
  repeat split; [exact Hl | apply dispatches_packets | exact Hf].
Qed.

(* Registering routes never changes who handles a packet some route already accepts (order of
   registration is the precedence), and a packet no route accepted goes to the first accepting
   one among the new routes. *)
Theorem C06_growth_keeps_precedence : forall (t t' : table) (p : pkt) (i : nat),
  router_match t p = Some i -> router_match (t ++ t') p = Some i.
Proof. exact router_match_app_some. Qed.

Theorem C06_growth_new_routes_last : forall (t t' : table) (p : pkt),
  router_match t p = None ->
  router_match (t ++ t') p =
  match router_match t' p with Some j => Some (length t + j)%nat | None => None end.
Proof. exact router_match_app_none. Qed.

Example C06_history_example :
  let a ty := {| a_type := ty; a_id := [49]; a_from := [97]; a_to := [98] |} in
  let q := PIQ (a s_get) None None in
  run_hist [[b_packet s_message]]
    [HDispatch q []; HDispatch (PMessage (a [])) [[b_packet s_iq]]; HDispatch q [];
     HAdd []; HDispatch (PPresence (a [])) []; HDispatch q []]
  = [[ESend (err_reply (a s_get))]; [EHandle 0%nat]; [EHandle 1%nat]; [EHandle 2%nat]; [EHandle 1%nat]].
Proof. vm_compute. reflexivity. Qed.

Print Assumptions C06_first_match.
Print Assumptions C06_first_match_complete.
Print Assumptions C06_at_most_one_handler.
Print Assumptions C06_route_conjunction.
Print Assumptions C06_empty_route.
Print Assumptions C06_matcher_name.
Print Assumptions C06_matcher_type.
Print Assumptions C06_matcher_ns.
Print Assumptions C06_auto_reply.
Print Assumptions C06_err_reply.
Print Assumptions C06_matched_no_reply.
Print Assumptions C06_pending.
Print Assumptions C06_ended_request_routed.
Print Assumptions C06_live_request_first.
Print Assumptions C06_request_never_a_response.
Print Assumptions C06_history.
Print Assumptions C06_growth_keeps_precedence.
Print Assumptions C06_growth_new_routes_last.
