(* C05 — every inbound stanza reaches the router exactly once; every <r/> is
   answered; client concurrently, component in arrival order.

   [items] is the list of top-level elements completely received before the loop had to stop,
   over the alphabet of Model/Recv.v (the classes Client.recv / Component.recv distinguish); all
   statements are for every such list, every starting count, every write-fault oracle [wf]
   ([wf k]: the k-th write of the loop fails).

   NOT a theorem here (harness only: crash journal, payloads nested 400 000 deep, unsolicited <a/>
   without stream management, real scheduler, TCP-like stub / real WebSocket transport, read
   segmentations): that no element makes the process panic (a total Coq function says nothing about
   that); that the Go scheduler runs every spawned routing goroutine to its end; Go's own XML
   tokenizer and the splitting of the bytes across reads (C05_framed composes C02's framing on
   tokens and on the bytes xml.Marshal prints with the loop; [RecvFrame.item_of], the type switch
   from packets to classes, is a definition of the model, on the Go side the harness reads the
   class off the packet's Go type). *)
From Coq Require Import List ZArith NArith Bool Permutation.
From XV Require Import Lib.Sx Model.Recv Proofs.RecvP.
From XV Require Model.Send.
From XV Require Model.XmlTree Model.XmlLex Model.XmlBridge Model.Parser Model.RecvFrame Proofs.RecvFrameP.
Import ListNotations.
Open Scope N_scope.

(* Client: what is handed to the router, in the order of the hand-overs, is exactly the list of the
   processed elements - every stanza and every other element (a stream error included) once, nothing
   lost, nothing invented, nothing twice ... *)
Theorem C05_client_routed_all : forall items inb nw wf,
  routed (crecv inb nw wf items) = processed items.
Proof. exact crecv_routed. Qed.

(* ... where "processed" is pinned down independently of the loop: the longest prefix of the input
   without an element the loop stops at (one NextPacket rejects; the server's closing tag); there is
   exactly one such list, and neither the write faults nor the number of writes have a say in it. *)
Theorem C05_processed_is_longest_prefix : forall items,
  is_processed_prefix items (processed items) /\
  forall p, is_processed_prefix items p -> p = processed items.
Proof. intros items. split; [apply processed_is_prefix|apply processed_unique]. Qed.

(* nothing completely received before a loss is dropped: a history without such an element is
   processed entirely, whatever the faults *)
Theorem C05_nothing_dropped_before_cut : forall items,
  reaches_end items = true ->
  (forall inb nw wf, routed (crecv inb nw wf items) = items) /\ routed (precv items) = items.
Proof.
  intros items H. split; [intros inb nw wf; rewrite crecv_routed|rewrite precv_routed]; apply processed_all, H.
Qed.

(* "concurrently for a client": every processed element except a stream error is handed to a goroutine of
   its own (the loop does not wait for the handler); on the receive goroutine itself only stream errors
   are routed *)
Theorem C05_client_async : forall items inb nw wf,
  routed_async (crecv inb nw wf items) = filter (fun i => negb (is_serr i)) (processed items) /\
  routed_sync (crecv inb nw wf items) = filter is_serr (processed items) /\
  (forall i, In (ARouteSync i) (crecv inb nw wf items) -> is_serr i = true).
Proof.
  intros items inb nw wf. destruct (crecv_async items inb nw wf) as [H1 H2].
  split; [exact H1|]. split; [exact H2|]. intros i H. apply (crecv_sync_only_serr _ _ _ _ _ H).
Qed.

(* "all interleavings of the per-packet routing goroutines": each spawned goroutine is a one-step
   program; whatever merge [w] of them the scheduler produces, the handlers see every such element
   exactly once.  (That the scheduler does run each of them to its end is the Go runtime's part.) *)
Theorem C05_any_schedule_once : forall items inb nw wf w,
  Send.interleavings (map (fun i => [i]) (routed_async (crecv inb nw wf items))) w ->
  Permutation w (filter (fun i => negb (is_serr i)) (processed items)).
Proof. exact crecv_any_schedule. Qed.

(* every acknowledgement request processed is answered, in order: one answer attempted per request, each
   with the count held plus the stanzas before it; the transport takes exactly those whose write the fault
   oracle spares (a write that fails - the connection is going away - does not end the loop: what was
   received before the loss is still processed); with no fault all of them *)
Theorem C05_acks_answered : forall items inb nw wf,
  let tr := crecv inb nw wf items in
  attempted tr = expected_answers inb (processed items) /\
  length (attempted tr) = length (filter is_r (processed items)) /\
  answers tr = written wf (S nw) (attempted tr) /\
  ((forall k, wf k = false) -> answers tr = attempted tr).
Proof. exact crecv_acks. Qed.

(* the reachable fault: from some write on the connection takes nothing any more - the answers before it
   arrive, none after it *)
Theorem C05_acks_connection_going_away : forall items inb nw k,
  (S nw <= k)%nat ->
  answers (crecv inb nw (fault_from k) items)
  = firstn (k - S nw) (attempted (crecv inb nw (fault_from k) items)).
Proof. intros items inb nw k H. rewrite crecv_written. apply written_from, H. Qed.

(* a stream error whose handler has taken the connection over (a StreamManager reconnecting from inside
   it) behind [items]: the same for [items] and the stream error itself; what follows it on the old
   connection is nobody's *)
Theorem C05_handover_routed : forall t items inb nw wf,
  routed (crecv_handover t inb nw wf items)
  = processed items ++ (if reaches_end items then [IStreamError t] else []) /\
  attempted (crecv_handover t inb nw wf items) = expected_answers inb (processed items).
Proof. intros. split; [apply crecv_handover_routed|apply crecv_handover_answers]. Qed.

(* Component: everything up to the first element the loop stops at, synchronously and therefore in
   arrival order; a component (no stream management) answers no request; however its loop ends it reports
   ONE Disconnected event (also when the server closed the stream), one error callback per stream error plus
   one unless the server closed; and behind a stream error whose handler has replaced the component's
   transport, the same for [items] and the stream error, nothing beyond *)
Theorem C05_component_in_order : forall items,
  routed (precv items) = processed items /\ all_sync (precv items) = true /\
  attempted (precv items) = [] /\
  count_act is_disc (precv items) = 1%nat /\
  count_act is_err (precv items)
  = ((if ends_by_close items then 0 else 1) + length (filter is_serr (processed items)))%nat /\
  forall t, routed (precv_handover t items)
            = processed items ++ (if reaches_end items then [IStreamError t] else []).
Proof.
  intros items. split; [apply precv_routed|]. split; [apply precv_sync|]. split; [apply precv_no_answers|].
  destruct (precv_reported_once items) as [H1 H2]. split; [exact H1|]. split; [exact H2|].
  intros t. apply precv_handover_routed.
Qed.

(* "all sizes and contents", from the stream: for every list of top-level items (elements the switch nest of
   NextPacket dispatches, with ARBITRARY trees as children under C02's hypotheses [top_ok], white space and
   comments between them), the loop run on what NextPacket makes of their tokens hands the router exactly one
   element per top-level element, of that element's class, in order, and answers the requests among them;
   the same on the BYTES xml.Marshal prints for element trees (C01's printer and lexer, C02's bridge) *)
Theorem C05_framed : forall reg tok idn,
  (forall items inb nw wf,
     forallb (Parser.top_ok reg tok) items = true ->
     let tr := crecv inb nw wf (map (RecvFrame.item_of idn)
                 (Parser.run_packets reg true tok (XmlTree.flatten_all items))) in
     routed tr = map (RecvFrame.item_of idn) (Parser.pkts_of items) /\
     attempted tr = expected_answers inb (map (RecvFrame.item_of idn) (Parser.pkts_of items))) /\
  (forall es inb nw wf,
     forallb XmlLex.wf_doc es = true ->
     forallb (Parser.top_ok reg tok) (XmlBridge.bridge_trees es) = true ->
     option_map (fun ts => routed (crecv inb nw wf (map (RecvFrame.item_of idn) (Parser.run_packets reg true tok ts))))
                (XmlBridge.open_stream_tokens (XmlBridge.print_open_stream es))
     = Some (map (RecvFrame.item_of idn) (Parser.pkts_of (XmlBridge.bridge_trees es)))).
Proof.
  intros reg tok idn. split.
  - intros items inb nw wf H. destruct (RecvFrameP.crecv_tokens_eof reg tok idn items inb nw wf H) as (H1 & _ & _ & _ & _ & H2).
    split; assumption.
  - apply RecvFrameP.crecv_bytes_eof.
Qed.

Example C05_example :
  routed (crecv 0 0 no_fault [ISmA 1; IStanza KMsg 1; ISmR; IStanza KIq 2])
  = [ISmA 1; IStanza KMsg 1; ISmR; IStanza KIq 2]
  /\ answers (crecv 0 0 no_fault [ISmA 1; IStanza KMsg 1; ISmR; IStanza KIq 2]) = [1]
  /\ answers (crecv 0 0 (fault_from 2) [ISmR; IStanza KMsg 1; ISmR; ISmR]) = [0]
  /\ attempted (crecv 0 0 (fault_from 2) [ISmR; IStanza KMsg 1; ISmR; ISmR]) = [0; 1; 1]
  /\ reaches_end [ISmA 1; IStanza KMsg 1; ISmR; IStanza KIq 2] = true.
Proof. repeat split; reflexivity. Qed.
(* a schedule other than the spawn order *)
Example C05_schedule_example :
  Send.interleavings (map (fun i => [i]) (routed_async (crecv 0 0 no_fault [IStanza KMsg 1; IStanza KMsg 2])))
    [IStanza KMsg 2; IStanza KMsg 1].
Proof.
  cbn. apply (Send.il_pick [[IStanza KMsg 1]] (IStanza KMsg 2) [] []). cbn.
  apply (Send.il_pick [] (IStanza KMsg 1) [] [[]]). cbn.
  apply Send.il_done. repeat constructor.
Qed.

Print Assumptions C05_client_routed_all.
Print Assumptions C05_processed_is_longest_prefix.
Print Assumptions C05_nothing_dropped_before_cut.
Print Assumptions C05_client_async.
Print Assumptions C05_any_schedule_once.
Print Assumptions C05_acks_answered.
Print Assumptions C05_acks_connection_going_away.
Print Assumptions C05_handover_routed.
Print Assumptions C05_component_in_order.
Print Assumptions C05_framed.
