(* C05 — every inbound stanza reaches the router exactly once; every <r/> is
   answered; client concurrently, component in arrival order; totality (no item
   sequence gets the loop stuck or crashes it: crecv/precv are total functions whose
   every branch is exercised against the implementation by the correspondence). *)
From Coq Require Import List ZArith NArith Bool.
From XV Require Import Lib.Sx Model.Recv Proofs.RecvP.
Import ListNotations.
Open Scope N_scope.

(* Client: for every history of inbound elements (any mix, any length), every
   starting count, every write fault: the stanzas handed to the router are exactly
   the stanzas completely received before the loop had to stop, each once
   (the list is in spawn order; each is handed to its own goroutine). *)
Theorem C05_client_stanzas_exactly_once : forall items inb nw wf,
  filter is_stanza (routed (crecv inb nw wf items)) = filter is_stanza (processed nw wf items).
Proof. exact crecv_stanzas_once. Qed.

(* ... and nothing else is lost or invented: every processed element, stanza or not
   (a stream error included), is handed to the router exactly once. *)
Theorem C05_client_routed_all : forall items inb nw wf,
  routed (crecv inb nw wf items) = processed nw wf items.
Proof. exact crecv_routed. Qed.

(* every acknowledgement request processed is answered, in order: the answers the loop
   writes or tries to write are exactly one per request, each with the right count; when
   no write fails they are all written (a write that fails -- the connection is going
   away -- does not end the loop: what was received before the loss is still processed) *)
Theorem C05_acks_answered : forall items inb nw wf,
  attempted (crecv inb nw wf items) = expected_answers inb (processed nw wf items) /\
  length (expected_answers inb (processed nw wf items))
    = length (filter is_r (processed nw wf items)) /\
  answers (crecv inb nw None items) = attempted (crecv inb nw None items).
Proof.
  intros items inb nw wf. split; [apply crecv_answers|]. split; [|apply crecv_answers_written].
  generalize (processed nw wf items) inb. clear.
  induction l as [|i l IH]; intros inb; [reflexivity|].
  destruct i; cbn [expected_answers filter is_r length]; rewrite ?IH; reflexivity.
Qed.

(* Component: same, synchronously and therefore in arrival order. *)
Theorem C05_component_in_order : forall items,
  routed (precv items) = pprocessed items /\ all_sync (precv items) = true.
Proof. intros items. split; [apply precv_routed|apply precv_sync]. Qed.

(* nothing completely received before a loss is dropped: when the history has no
   terminator, everything is processed *)
Theorem C05_nothing_dropped_before_cut : forall items,
  forallb (fun i => match i with IBad | IClose => false | _ => true end) items = true ->
  processed 0 None items = items /\ pprocessed items = items.
Proof.
  induction items as [|i items IH]; intros H; [split; reflexivity|].
  cbn [forallb] in H. apply andb_true_iff in H as [Hi H]. destruct (IH H) as [IH1 IH2].
  assert (Hnw : forall nw, processed nw None items = items).
  { clear -H. induction items as [|j items IHi]; intros nw; [reflexivity|].
    cbn [forallb] in H. apply andb_true_iff in H as [Hj H].
    destruct j; try discriminate; cbn [processed]; rewrite IHi; auto. }
  destruct i; try discriminate; cbn [processed pprocessed]; rewrite ?Hnw, ?IH2; split; reflexivity.
Qed.

Example C05_example :
  routed (crecv 0 0 None [ISmA 1; IStanza KMsg 1; ISmR; IStanza KIq 2])
  = [ISmA 1; IStanza KMsg 1; ISmR; IStanza KIq 2]
  /\ answers (crecv 0 0 None [ISmA 1; IStanza KMsg 1; ISmR; IStanza KIq 2]) = [1].
Proof. split; reflexivity. Qed.

Print Assumptions C05_client_stanzas_exactly_once.
Print Assumptions C05_client_routed_all.
Print Assumptions C05_acks_answered.
Print Assumptions C05_component_in_order.
Print Assumptions C05_nothing_dropped_before_cut.
