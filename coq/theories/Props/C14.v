(* C14 — SASL: only an advertised, supported mechanism is used; the PLAIN payload
   is exact.  Only statements, closed by [exact], with their assumptions printed.
   Strings are byte strings ([is_bytes]: every element below 256). *)
From Coq Require Import List NArith Bool.
From XV Require Import Lib.Sx Model.Base64 Model.Sasl Model.SaslReply Proofs.Base64P Proofs.SaslP.
From XV Require Model.Jid Model.ClientConfig Proofs.ClientConfigP.
From XV Require Model.Session Model.SessionSpec Proofs.SessionSpecP Proofs.SessionEvP Proofs.SaslSessionP Model.Parser Gen.Generated.
Import ListNotations.
Open Scope N_scope.

(* The mechanism chosen from ANY credential list: it is in the credential's list,
   in the server's list, and it is the first such in credential order. *)
Theorem C14_mech_sound : forall (creds server : list str) (m : str),
  choose_mech creds server = Some m <->
  exists pre post, creds = pre ++ m :: post /\ In m server /\
                   forall x, In x pre -> ~ In x server.
Proof. exact choose_mech_some. Qed.

(* PLAIN for passwords, X-OAUTH2 for tokens, exactly when the server lists it. *)
Theorem C14_mech_by_kind : forall k server m,
  choose_mech (cred_mechs k) server = Some m <->
  m = (match k with CPassword => s_PLAIN | COAuthToken => s_XOAUTH2 end) /\ In m server.
Proof. exact choose_by_kind. Qed.

(* What goes on the wire, for every credential kind, server list, user, secret,
   write result and reply: either there is no common mechanism, nothing is
   written and the error is permanent; or exactly one element is written and it
   names the first common mechanism with the PLAIN payload as its content. *)
Theorem C14_written : forall k server user secret w r,
  ((forall x, In x (cred_mechs k) -> ~ In x server) /\
   auth_sasl k server user secret w r = ([], ErrPermanent)) \/
  (exists m, first_common (cred_mechs k) server m /\
     fst (auth_sasl k server user secret w r)
       = [auth_element m (plain_payload user secret)]).
Proof. exact auth_sasl_written. Qed.

Theorem C14_none : forall k server user secret w r,
  (forall x, In x (cred_mechs k) -> ~ In x server) ->
  auth_sasl k server user secret w r = ([], ErrPermanent).
Proof. exact auth_sasl_no_common. Qed.

(* What "advertised" means on the features element: only <mechanism/> children in the SASL
   namespace count, each by its character data without the XML white space around it (the name
   is an xs:NMTOKEN: a server that writes its features indented advertises the same names); a
   child of <mechanisms/> in any other namespace, whatever it is called and whatever it
   contains, advertises nothing. *)
Theorem C14_advertised : forall (children : list fchild) (m : str),
  In m (advertised children) <-> exists text, In (s_ns_sasl, s_mechanism, text) children /\ m = trim text.
Proof. exact advertised_spec. Qed.

(* trimming takes nothing but white space at the two ends: a name that has none there is itself
   (so PLAIN and X-OAUTH2 are advertised by exactly the texts that trim to them) *)
Theorem C14_trim_clean : forall l : str,
  match l with c :: _ => is_xml_ws c = false | [] => True end ->
  match rev l with c :: _ => is_xml_ws c = false | [] => True end ->
  trim l = l.
Proof. exact trim_clean. Qed.

Theorem C14_foreign_child_ignored : forall k children user secret w r,
  (forall m text, In m (cred_mechs k) -> In (s_ns_sasl, s_mechanism, text) children -> m <> trim text) ->
  auth_sasl_features k children user secret w r = ([], ErrPermanent).
Proof. exact foreign_child_ignored. Qed.

(* ... and one level up, on the children of <stream:features/> themselves: a mechanism is
   advertised exactly when it is the character data of a SASL <mechanism/> child of a
   <mechanisms/> child of the features that is itself in the SASL namespace.  A
   <mechanisms/> element in another namespace, a <mechanism/> directly under the features
   or a SASL list nested inside another child advertise nothing; several SASL lists in one
   features element advertise all their mechanisms, in document order. *)
Theorem C14_advertised_in_features : forall (nodes : list fnode) (m : str),
  In m (advertised_in nodes) <->
  exists children text, In (s_ns_sasl, s_mechanisms, children) nodes /\
    In (s_ns_sasl, s_mechanism, text) children /\ m = trim text.
Proof. exact advertised_in_spec. Qed.

Theorem C14_lists_concatenate : forall a b : list fnode,
  advertised_in (a ++ b) = advertised_in a ++ advertised_in b.
Proof. exact advertised_in_app. Qed.

Theorem C14_nothing_advertised_nothing_sent : forall k nodes user secret w r,
  (forall m children text, In m (cred_mechs k) -> In (s_ns_sasl, s_mechanisms, children) nodes ->
                           In (s_ns_sasl, s_mechanism, text) children -> m <> trim text) ->
  auth_sasl_nodes k nodes user secret w r = ([], ErrPermanent).
Proof. exact nodes_no_sasl_list. Qed.

(* Base64 decode inverts encode on every byte string ... *)
Theorem C14_b64_roundtrip : forall l : str,
  is_bytes l = true -> b64_decode (b64_encode l) = Some l.
Proof. exact b64_roundtrip. Qed.

(* ... so the payload decodes to NUL user NUL secret, byte for byte, for ALL
   user names and secrets. *)
Theorem C14_payload_exact : forall user secret : str,
  is_bytes user = true -> is_bytes secret = true ->
  b64_decode (plain_payload user secret) = Some (0 :: user ++ 0 :: secret).
Proof. exact payload_exact. Qed.

(* Every payload character is one of A-Z a-z 0-9 + / =  (no hypothesis on the
   input), hence no XML markup character and nothing above 127: the innerxml
   field needs no escaping. *)
Theorem C14_b64_alphabet : forall user secret : str,
  Forall (fun c => is_b64_text c = true) (plain_payload user secret) /\
  Forall (fun c => xml_plain c = true) (plain_payload user secret).
Proof. intros user secret. split; [apply payload_alphabet|apply payload_xml_plain]. Qed.

(* The written element reads back as (mechanism, payload) whatever the user
   name and secret contain. *)
Theorem C14_wire_parses : forall k server user secret w r m,
  first_common (cred_mechs k) server m ->
  fst (auth_sasl k server user secret w r) = [auth_element m (plain_payload user secret)] /\
  parse_auth (auth_element m (plain_payload user secret)) = Some (m, plain_payload user secret).
Proof. exact wire_parses. Qed.

(* A <failure/> reply to an element that was sent: exactly that element was written (it
   names the first common mechanism) and the error is permanent because of the reply; any
   other non-success reply (another packet, a read error) gives an error that is not the
   permanent one. *)
Theorem C14_failure_after_sending : forall k server user secret reason m,
  first_common (cred_mechs k) server m ->
  auth_sasl k server user secret WOk (RFailure reason)
  = ([auth_element m (plain_payload user secret)], ErrPermanent).
Proof. exact failure_after_sending. Qed.

Theorem C14_other_reply_after_sending : forall k server user secret r m,
  first_common (cred_mechs k) server m -> r = ROther \/ r = RReadErr ->
  auth_sasl k server user secret WOk r
  = ([auth_element m (plain_payload user secret)], ErrOther).
Proof. exact other_reply_after_sending. Qed.

(* A <failure/> reply is a permanent error (also when nothing was sent). *)
Theorem C14_failure_permanent : forall k server user secret reason,
  snd (auth_sasl k server user secret WOk (RFailure reason)) = ErrPermanent.
Proof. exact failure_permanent. Qed.

(* Authenticated exactly when the reply is <success/> (and the element was sent). *)
Theorem C14_only_success_authenticates : forall k server user secret w r,
  snd (auth_sasl k server user secret w r) = Ok <->
  r = RSuccess /\ w = WOk /\ exists m, first_common (cred_mechs k) server m.
Proof. exact only_success_authenticates. Qed.

(* Which concrete element IS <success/>: the reply classified from the expanded name of a
   complete element by Model/Parser.v (the model of stanza.NextPacket's switch nest).  Only
   {urn:ietf:params:xml:ns:xmpp-sasl}success authenticates: a <success/> in any other
   namespace, or any other name in the SASL namespace, never does. *)
Theorem C14_only_sasl_success : forall k server user secret w n reason,
  snd (auth_sasl k server user secret w (reply_of_name n reason)) = Ok ->
  n = (Generated.ns_sasl, Parser.s_success).
Proof. exact SaslSessionP.only_sasl_success_authenticates. Qed.

(* ---- the session level: what Client.connect does with all this (Model/Session.v) ----
   The session model has its own copy of the mechanism choice; it is the same function: *)
Theorem C14_models_agree : forall creds server m,
  Session.choose_mech creds server = choose_mech creds server /\
  Session.implemented m = plain_family m /\
  Session.mech_plain = s_PLAIN /\ Session.mech_oauth = s_XOAUTH2.
Proof.
  intros creds server m. split; [apply SaslSessionP.choose_mech_agree|]. repeat split.
Qed.

(* every <auth/> of every connection, whatever the server does, names the mechanism authSASL
   chooses (so C14_mech_sound / C14_mech_by_kind speak about it) from the mechanism list of a
   features element of THIS connection, and it is one the credential has *)
Theorem C14_session_mechanism : forall cfg dial tls p script m,
  In (Session.RAuth m) (Session.reqs (SessionSpecP.outs (Session.connect cfg dial tls p script))) ->
  exists f, In (Session.SFeatures f) script /\
    choose_mech (Session.c_mechs cfg) (Session.f_mechs f) = Some m /\ plain_family m = true /\
    In m (Session.c_mechs cfg) /\ In m (Session.f_mechs f).
Proof. exact SaslSessionP.connect_mechanism. Qed.

(* no common (implemented) mechanism: the authentication step writes nothing and the error
   is a permanent ConnError *)
Theorem C14_session_none : forall cfg c p f s sn,
  (choose_mech (Session.c_mechs cfg) (Session.f_mechs f) = None \/
   exists m, choose_mech (Session.c_mechs cfg) (Session.f_mechs f) = Some m /\ plain_family m = false) ->
  Session.step_auth cfg c p f s sn = ([], Session.Err true true, p).
Proof. exact SaslSessionP.auth_none. Qed.

(* the reply is anything but <success/> (failure, another element, malformed XML, closed
   stream, nothing): exactly the <auth/> was written, nothing after it, the state held on
   the Client is untouched, and the result is an error - the permanent one exactly for
   <failure/> *)
Theorem C14_session_only_success : forall cfg c p f s sn m,
  choose_mech (Session.c_mechs cfg) (Session.f_mechs f) = Some m -> plain_family m = true ->
  is_success s = false ->
  Session.step_auth cfg c p f s sn
  = ([Session.o c (Session.RAuth m) sn],
     (if is_failure s then Session.Err true true else Session.Err false false), p).
Proof. exact SaslSessionP.auth_not_success. Qed.

(* ... and Client.connect hands exactly that on, on a clear-text stream and after STARTTLS:
   the requests end with the <auth/>, the error is the one of the step (permanent for
   <failure/>), nothing is announced, no session state changes *)
Theorem C14_connect_not_success_clear : forall cfg tls p id f s2 m,
  Session.c_insecure cfg = true -> Session.f_tls f = Session.TlsNone ->
  choose_mech (Session.c_mechs cfg) (Session.f_mechs f) = Some m -> plain_family m = true ->
  is_success s2 = false ->
  let x := Session.client_connect cfg true tls p (Session.SHeader id :: Session.SFeatures f :: s2) in
  Session.reqs (fst (fst (fst x))) = [Session.ROpen; Session.RAuth m] /\
  SessionEvP.cres x = (if is_failure s2 then Session.Err true true else Session.Err false false) /\
  SessionEvP.evs x = [] /\
  snd (fst x) = Session.with_session (Session.set_flags p false false).
Proof. exact SaslSessionP.connect_auth_reply_clear. Qed.

Theorem C14_connect_not_success_tls : forall cfg p id f id1 f1 s5 m,
  Session.f_tls f <> Session.TlsNone ->
  choose_mech (Session.c_mechs cfg) (Session.f_mechs f1) = Some m -> plain_family m = true ->
  is_success s5 = false ->
  let x := Session.client_connect cfg true true p
             (Session.SHeader id :: Session.SFeatures f :: Session.SProceed :: Session.SHeader id1 :: Session.SFeatures f1 :: s5) in
  Session.reqs (fst (fst (fst x))) = [Session.ROpen; Session.RStartTls; Session.ROpen; Session.RAuth m] /\
  SessionEvP.cres x = (if is_failure s5 then Session.Err true true else Session.Err false false) /\
  SessionEvP.evs x = [] /\
  snd (fst x) = Session.with_session (Session.set_flags p true true).
Proof. exact SaslSessionP.connect_auth_reply_tls. Qed.

(* in every connection, whatever the script: a request that follows an <auth/> was sent
   after reading <success/>, and nothing else, from this server; and a connection that
   succeeds has read a <success/> *)
Theorem C14_after_auth_only_on_success : forall cfg dial tls p s w1 x y w2 m,
  SessionSpecP.outs (Session.connect cfg dial tls p s) = w1 ++ x :: y :: w2 ->
  Session.o_req x = Session.RAuth m -> Session.o_seen y = [Session.SSuccess].
Proof. exact SaslSessionP.after_auth_only_on_success. Qed.

Theorem C14_connect_ok_needs_success : forall cfg dial tls p s,
  SessionSpecP.res (Session.connect cfg dial tls p s) = Session.Ok -> In Session.SSuccess s.
Proof. exact SaslSessionP.connect_ok_needs_success. Qed.

(* non-vacuity: user "a<b", secret "&" with NUL and a byte above 127, server
   offering SCRAM-SHA-1 (as "S") before PLAIN: one element, PLAIN, payload
   "AGE8YgAmAP8=" *)
Example C14_example :
  auth_sasl CPassword [[83]; s_PLAIN] [97; 60; 98] [38; 0; 255] WOk RSuccess
  = ([auth_open ++ s_PLAIN ++ auth_mid ++
      [65; 71; 69; 56; 89; 103; 65; 109; 65; 80; 56; 61] ++ auth_close], Ok)
  /\ b64_decode [65; 71; 69; 56; 89; 103; 65; 109; 65; 80; 56; 61]
     = Some [0; 97; 60; 98; 0; 38; 0; 255]
  /\ auth_sasl COAuthToken [[83]; s_PLAIN] [97] [98] WOk RSuccess = ([], ErrPermanent)
  (* SCRAM (as "S") advertised, plus a foreign-namespace child called mechanism
     holding PLAIN: nothing is sent *)
  /\ auth_sasl_features CPassword
       [(s_ns_sasl, s_mechanism, [83]); ([117; 114; 110; 58; 120], s_mechanism, s_PLAIN)]
       [97] [98] WOk RSuccess = ([], ErrPermanent)
  (* two SASL lists in one features element (SCRAM as "S" in the first, PLAIN in the second), a
     <mechanisms/> in another namespace and a <mechanism/> directly under the features: PLAIN is
     advertised by the second list only *)
  /\ advertised_in [(s_ns_sasl, s_mechanisms, [(s_ns_sasl, s_mechanism, [83])]);
                    ([117; 114; 110; 58; 120], s_mechanisms, [([117; 114; 110; 58; 120], s_mechanism, s_XOAUTH2)]);
                    (s_ns_sasl, s_mechanism, []);
                    (s_ns_sasl, s_mechanisms, [(s_ns_sasl, s_mechanism, s_PLAIN)])] = [[83]; s_PLAIN]
  (* a pretty-printed list: " PLAIN\n" advertises PLAIN, and PLAIN is what the <auth/> names *)
  /\ fst (auth_sasl_features CPassword [(s_ns_sasl, s_mechanism, [32; 80; 76; 65; 73; 78; 10])] [97] [98] WOk RSuccess)
     = [auth_element s_PLAIN (plain_payload [97] [98])]
  (* only the SASL <success/> is success *)
  /\ reply_of_name (Generated.ns_sasl, Parser.s_success) [] = RSuccess
  /\ reply_of_name (Generated.ns_client, Parser.s_success) [] = RReadErr
  /\ reply_of_name (Generated.ns_sasl, Parser.s_failure) [] = RFailure [].
Proof. repeat split; reflexivity. Qed.

Print Assumptions C14_mech_sound.
Print Assumptions C14_mech_by_kind.
Print Assumptions C14_written.
Print Assumptions C14_none.
Print Assumptions C14_advertised.
Print Assumptions C14_trim_clean.
Print Assumptions C14_foreign_child_ignored.
Print Assumptions C14_advertised_in_features.
Print Assumptions C14_lists_concatenate.
Print Assumptions C14_nothing_advertised_nothing_sent.
Print Assumptions C14_b64_roundtrip.
Print Assumptions C14_payload_exact.
Print Assumptions C14_b64_alphabet.
Print Assumptions C14_wire_parses.
Print Assumptions C14_failure_after_sending.
Print Assumptions C14_other_reply_after_sending.
Print Assumptions C14_failure_permanent.
Print Assumptions C14_only_success_authenticates.
Print Assumptions C14_only_sasl_success.
Print Assumptions C14_models_agree.
Print Assumptions C14_session_mechanism.
Print Assumptions C14_session_none.
Print Assumptions C14_session_only_success.
Print Assumptions C14_connect_not_success_clear.
Print Assumptions C14_connect_not_success_tls.
Print Assumptions C14_after_auth_only_on_success.
Print Assumptions C14_connect_ok_needs_success.

(* ---- from the CONFIGURED JID STRING to the payload (Model/ClientConfig.v: NewClient's
   stanza.NewJid, parsedJid.Node handed to authSASL, parsedJid.Resource to <bind/>, the domain
   to the stream header).  jid is Go's reading of the configured string as units
   (Model/Jid.v), [bytes_of jid] its bytes: the correspondence check compares them with the
   string's own bytes on every case. ---- *)

(* Whatever JID string is configured: if NewClient accepts it, the payload is base64 of
   NUL ++ (the BYTES of the string before its first '@' - nothing when it has none) ++ NUL ++
   secret.  Nothing is trimmed, case-folded, normalised, unescaped or re-encoded on the way
   NewJid -> parsedJid.Node -> authSASL -> authPlain. *)
Theorem C14_config_payload_exact : forall (jid dom secret pl : str),
  ClientConfig.units_ok jid = true -> is_bytes secret = true ->
  ClientConfig.config_plain_payload jid dom secret = Some pl ->
  pl = b64_encode (0 :: ClientConfig.local_bytes (ClientConfig.bytes_of jid) ++ 0 :: secret) /\
  b64_decode pl = Some (0 :: ClientConfig.local_bytes (ClientConfig.bytes_of jid) ++ 0 :: secret).
Proof. exact ClientConfigP.config_payload_exact. Qed.

(* [local_bytes] is what it says: the configured bytes are local ++ "@" ++ rest with no '@'
   in local, or they hold no '@' at all and the local part is empty. *)
Theorem C14_config_local_is_prefix : forall b : str,
  (exists rest, b = ClientConfig.local_bytes b ++ Jid.c_at :: rest /\
                ~ In Jid.c_at (ClientConfig.local_bytes b)) \/
  (~ In Jid.c_at b /\ ClientConfig.local_bytes b = []).
Proof. exact ClientConfigP.local_bytes_prefix. Qed.

(* All three parts the negotiation uses are pieces of the configured bytes: local part,
   resource asked for in <bind/> (after the first '/' that follows the first '@'; may itself
   contain '@' and '/'), and the domain of the stream header unless one is configured. *)
Theorem C14_config_parts : forall (jid dom secret : str) (p : ClientConfig.parts),
  ClientConfig.units_ok jid = true -> ClientConfig.new_client jid dom secret = Some p ->
  ClientConfig.p_local p = ClientConfig.local_bytes (ClientConfig.bytes_of jid) /\
  ClientConfig.p_resource p = ClientConfig.resource_bytes (ClientConfig.bytes_of jid) /\
  ClientConfig.p_domain p =
    (if Jid.is_empty dom then ClientConfig.domain_bytes (ClientConfig.bytes_of jid) else dom).
Proof. exact ClientConfigP.config_parts. Qed.

(* A JID NewJid refuses, or an empty secret: no client, hence no payload; every other
   configuration yields a client. *)
Theorem C14_config_refused_no_payload : forall jid dom secret : str,
  Jid.new_jid jid = Jid.Err \/ secret = [] ->
  ClientConfig.new_client jid dom secret = None /\
  ClientConfig.config_plain_payload jid dom secret = None.
Proof. exact ClientConfigP.config_refused. Qed.

Theorem C14_config_accepted : forall (jid dom secret : str) (j : Jid.jid),
  Jid.new_jid jid = Jid.Ok j -> secret <> [] ->
  exists p, ClientConfig.new_client jid dom secret = Some p.
Proof. exact ClientConfigP.config_accepted. Qed.

(* the bridge: cutting the BYTES at an ASCII byte cuts where the units are cut *)
Theorem C14_config_split_commutes : forall (c : N) (s : str),
  c < 128 -> ClientConfig.units_ok s = true ->
  Jid.split_first c (ClientConfig.bytes_of s) =
  match Jid.split_first c s with
  | Some (a, b) => Some (ClientConfig.bytes_of a, ClientConfig.bytes_of b)
  | None => None
  end.
Proof. exact ClientConfigP.split_first_bytes. Qed.

(* non-trivial instance: "\xC3\x9Cs.Er\xFF@d.e/r@x/y" (upper case, U+00DC, a stray byte 0xFF
   in the local part, a resource containing '@' and '/'), secret "p" *)
Example C14_config_example :
  let jid := [220; 115; 46; 69; 114; 1114367; 64; 100; 46; 101; 47; 114; 64; 120; 47; 121] in
  ClientConfig.units_ok jid = true /\
  ClientConfig.new_client jid [] [112] =
    Some (ClientConfig.mkParts [195; 156; 115; 46; 69; 114; 255] [100; 46; 101] [114; 64; 120; 47; 121]) /\
  option_map b64_decode (ClientConfig.config_plain_payload jid [] [112]) =
    Some (Some [0; 195; 156; 115; 46; 69; 114; 255; 0; 112]).
Proof. vm_compute. repeat split; reflexivity. Qed.

Print Assumptions C14_config_payload_exact.
Print Assumptions C14_config_local_is_prefix.
Print Assumptions C14_config_parts.
Print Assumptions C14_config_refused_no_payload.
Print Assumptions C14_config_accepted.
Print Assumptions C14_config_split_commutes.
