(* C14 — SASL: only an advertised, supported mechanism is used; the PLAIN payload
   is exact.  Only statements, closed by [exact], with their assumptions printed.
   Strings are byte strings ([is_bytes]: every element below 256). *)
From Coq Require Import List NArith Bool.
From XV Require Import Lib.Sx Model.Base64 Model.Sasl Proofs.Base64P Proofs.SaslP.
Import ListNotations.
Open Scope N_scope.

(* The mechanism chosen from ANY credential list: it is in the credential's list,
   in the server's list, and it is the first such in credential order. *)
Theorem C14_mech_sound : forall (creds server : list str) (m : str),
  choose_mech creds server = Some m <->
  exists pre post, creds = pre ++ m :: post /\ In m server /\
                   forall x, In x pre -> ~ In x server.
Proof. exact choose_mech_some. Qed.

(* PLAIN for passwords, X-OAUTH2 for tokens, exactly when the server lists it. *)
Theorem C14_mech_by_kind : forall k server m,
  choose_mech (cred_mechs k) server = Some m <->
  m = (match k with CPassword => s_PLAIN | COAuthToken => s_XOAUTH2 end) /\ In m server.
Proof. exact choose_by_kind. Qed.

(* What goes on the wire, for every credential kind, server list, user, secret,
   write result and reply: either there is no common mechanism, nothing is
   written and the error is permanent; or exactly one element is written and it
   names the first common mechanism with the PLAIN payload as its content. *)
Theorem C14_written : forall k server user secret w r,
  ((forall x, In x (cred_mechs k) -> ~ In x server) /\
   auth_sasl k server user secret w r = ([], ErrPermanent)) \/
  (exists m, first_common (cred_mechs k) server m /\
     fst (auth_sasl k server user secret w r)
       = [auth_element m (plain_payload user secret)]).
Proof. exact auth_sasl_written. Qed.

Theorem C14_none : forall k server user secret w r,
  (forall x, In x (cred_mechs k) -> ~ In x server) ->
  auth_sasl k server user secret w r = ([], ErrPermanent).
Proof. exact auth_sasl_no_common. Qed.

(* What "advertised" means on the features element: only <mechanism/> children in
   the SASL namespace count; a child of <mechanisms/> in any other namespace, whatever
   it is called and whatever it contains, advertises nothing. *)
Theorem C14_advertised : forall (children : list fchild) (m : str),
  In m (advertised children) <-> In (s_ns_sasl, s_mechanism, m) children.
Proof. exact advertised_spec. Qed.

Theorem C14_foreign_child_ignored : forall k children user secret w r,
  (forall m, In m (cred_mechs k) -> ~ In (s_ns_sasl, s_mechanism, m) children) ->
  auth_sasl_features k children user secret w r = ([], ErrPermanent).
Proof. exact foreign_child_ignored. Qed.

(* Base64 decode inverts encode on every byte string ... *)
Theorem C14_b64_roundtrip : forall l : str,
  is_bytes l = true -> b64_decode (b64_encode l) = Some l.
Proof. exact b64_roundtrip. Qed.

(* ... so the payload decodes to NUL user NUL secret, byte for byte, for ALL
   user names and secrets. *)
Theorem C14_payload_exact : forall user secret : str,
  is_bytes user = true -> is_bytes secret = true ->
  b64_decode (plain_payload user secret) = Some (0 :: user ++ 0 :: secret).
Proof. exact payload_exact. Qed.

(* Every payload character is one of A-Z a-z 0-9 + / =  (no hypothesis on the
   input), hence no XML markup character and nothing above 127: the innerxml
   field needs no escaping. *)
Theorem C14_b64_alphabet : forall user secret : str,
  Forall (fun c => is_b64_text c = true) (plain_payload user secret) /\
  Forall (fun c => xml_plain c = true) (plain_payload user secret).
Proof. intros user secret. split; [apply payload_alphabet|apply payload_xml_plain]. Qed.

(* The written element reads back as (mechanism, payload) whatever the user
   name and secret contain. *)
Theorem C14_wire_parses : forall k server user secret w r m,
  first_common (cred_mechs k) server m ->
  fst (auth_sasl k server user secret w r) = [auth_element m (plain_payload user secret)] /\
  parse_auth (auth_element m (plain_payload user secret)) = Some (m, plain_payload user secret).
Proof. exact wire_parses. Qed.

(* A <failure/> reply is a permanent error (also when nothing was sent). *)
Theorem C14_failure_permanent : forall k server user secret reason,
  snd (auth_sasl k server user secret WOk (RFailure reason)) = ErrPermanent.
Proof. exact failure_permanent. Qed.

(* Authenticated exactly when the reply is <success/> (and the element was sent). *)
Theorem C14_only_success_authenticates : forall k server user secret w r,
  snd (auth_sasl k server user secret w r) = Ok <->
  r = RSuccess /\ w = WOk /\ exists m, first_common (cred_mechs k) server m.
Proof. exact only_success_authenticates. Qed.

(* non-vacuity: user "a<b", secret "&" with NUL and a byte above 127, server
   offering SCRAM-SHA-1 (as "S") before PLAIN: one element, PLAIN, payload
   "AGE8YgAmAP8=" *)
Example C14_example :
  auth_sasl CPassword [[83]; s_PLAIN] [97; 60; 98] [38; 0; 255] WOk RSuccess
  = ([auth_open ++ s_PLAIN ++ auth_mid ++
      [65; 71; 69; 56; 89; 103; 65; 109; 65; 80; 56; 61] ++ auth_close], Ok)
  /\ b64_decode [65; 71; 69; 56; 89; 103; 65; 109; 65; 80; 56; 61]
     = Some [0; 97; 60; 98; 0; 38; 0; 255]
  /\ auth_sasl COAuthToken [[83]; s_PLAIN] [97] [98] WOk RSuccess = ([], ErrPermanent)
  (* SCRAM (as "S") advertised, plus a foreign-namespace child called mechanism
     holding PLAIN: nothing is sent *)
  /\ auth_sasl_features CPassword
       [(s_ns_sasl, s_mechanism, [83]); ([117; 114; 110; 58; 120], s_mechanism, s_PLAIN)]
       [97] [98] WOk RSuccess = ([], ErrPermanent).
Proof. repeat split; reflexivity. Qed.

Print Assumptions C14_mech_sound.
Print Assumptions C14_mech_by_kind.
Print Assumptions C14_written.
Print Assumptions C14_none.
Print Assumptions C14_advertised.
Print Assumptions C14_foreign_child_ignored.
Print Assumptions C14_b64_roundtrip.
Print Assumptions C14_payload_exact.
Print Assumptions C14_b64_alphabet.
Print Assumptions C14_wire_parses.
Print Assumptions C14_failure_permanent.
Print Assumptions C14_only_success_authenticates.
