(* C18 — keep-alive: sent at every tick while the session is up; a keep-alive that
   cannot be written closes the connection (once) and ends the loop; once the
   session has ended no further keep-alive is sent.

   Quantification: every schedule (list of what the successive selects observed),
   every fault oracle [fail] (so a write failure at the k-th keep-alive for every
   k), every continuation of the schedule after the loop ended, every positive
   interval.  [time.NewTicker] panics for an interval <= 0: [Client] replaces 0 by
   30 s, a negative [Config.KeepaliveInterval] is a configuration error and is
   outside "all intervals" here (C18_nonpositive_interval shows what the code does).

   RUNTIME, OBSERVED BY THE HARNESS WITH TOLERANCE, NOT PROVED:
   * real-time spacing: that [time.Ticker] fires every [interval] (the model takes
     the fires as given events);
   * Go's select fairness: with quit closed AND a tick pending the runtime may
     choose the tick.  What is proved instead: such late pings are bounded by the
     tick pending when quit closed plus one per later fire (C18_late_pings_bounded),
     a select with quit closed and no tick pending ends the loop at once
     (C18_quit_seen_at_once), and after the loop has taken the quit branch nothing
     follows (C18_after_quit_silent).  That the runtime eventually picks the quit
     case is not proved.
   * the WebSocket transport's Ping (a ping control frame, not whitespace) is not
     modelled; the loop itself is transport-independent. *)
From Coq Require Import List ZArith NArith Bool Lia.
From XV Require Import Lib.Sx Model.Keepalive Proofs.KeepaliveP.
From XV Require Model.Recv Proofs.RecvP.
Import ListNotations.

(* Exactly one Ping per tick the loop takes: every step makes one Ping iff the loop
   is still running and the select chose the ticker; and over a whole schedule the
   number of Pings is the number of ticks chosen up to the step that ended the loop. *)
Theorem C18_one_ping_per_tick : forall fail sched,
  (forall st s, count is_ping (snd (ka_step fail st s))
                = match st, s with Running _, STick => 1 | _, _ => 0 end) /\
  count is_ping (ka_trace fail sched) = count is_tick (taken fail 0 sched).
Proof.
  intros fail sched. split; [intros st s; apply step_pings|].
  exact (pings_eq_ticks fail sched 0).
Qed.

(* While the session is up (quit open) and writes succeed: n fires, each followed by
   a select, give exactly n successful pings and the loop keeps running. *)
Theorem C18_sent_at_every_tick : forall fail bs,
  (forall k, fail k = false) ->
  let sched := resolve false false (flat_map (fun b => [EFire; ESelect b]) bs) in
  ka_trace fail sched = repeat APingOk (length bs) /\
  ka_state fail sched = Running (length bs).
Proof.
  intros fail bs Hok. cbn zeta. rewrite resolve_rounds. unfold ka_trace, ka_state.
  rewrite (run_all_ok fail (length bs) 0); [split; reflexivity|].
  intros k _. apply Hok.
Qed.

(* Write failure at the k-th keep-alive (k = n+1), for every k and every continuation
   [suf] of the schedule: n good pings, the failing one, the ticker is stopped, the
   transport is closed exactly once, the loop returns, and nothing follows. *)
Theorem C18_failure_closes_once_and_stops : forall fail n suf,
  (forall k, k <= n -> fail k = false) -> fail (S n) = true ->
  let tr := ka_trace fail (repeat STick n ++ STick :: suf) in
  tr = repeat APingOk n ++ [APingFail; ATickerStop; AClose; AReturn] /\
  ka_state fail (repeat STick n ++ STick :: suf) = Stopped /\
  count is_close tr = 1 /\ count is_ping tr = S n.
Proof.
  intros fail n suf Hok Hf. cbn zeta. unfold ka_trace, ka_state.
  rewrite (run_fail_at fail suf n 0); [|intros k Hk; apply Hok; lia|exact Hf].
  cbn [fst snd]. split; [reflexivity|]. split; [reflexivity|].
  rewrite !count_app, count_repeat_false, count_repeat_true by reflexivity.
  cbn. split; lia.
Qed.

(* The same for an arbitrary schedule: whenever a ping fails, the trace is exactly
   "good pings, failed ping, stop, close, return"; and in every run there is at most
   one failed ping, exactly as many Close calls, at most one return, nothing after it. *)
Theorem C18_failure_any_schedule : forall fail sched,
  let tr := ka_trace fail sched in
  (In APingFail tr ->
     exists n, tr = repeat APingOk n ++ [APingFail; ATickerStop; AClose; AReturn] /\
               ka_state fail sched = Stopped /\ fail (S n) = true) /\
  count is_close tr = count is_pingfail tr /\ count is_pingfail tr <= 1 /\
  count is_return tr <= 1 /\ after_return tr = [].
Proof.
  intros fail sched. cbn zeta. unfold ka_trace, ka_state. split.
  - intros Hin. destruct (failure_shape fail sched 0 Hin) as (n & Htr & Hst & Hf & _).
    exists n. split; [exact Htr|]. split; [exact Hst|exact Hf].
  - pose proof (closes_eq_failures fail sched 0) as (Hc & Hf & Hr). cbn zeta in *.
    split; [exact Hc|]. split; [exact Hf|]. split; [exact Hr|].
    apply nothing_after_return.
Qed.

(* "...the connection is closed so that the loss is detected and reported": on the TCP
   transport the Close that follows the failed ping writes the closing tag and then closes
   the connection exactly once WHATEVER that write returns [cr] (on a connection that is
   dead for writing it fails too) ... *)
Theorem C18_failure_closes_connection : forall fail n suf cr,
  (forall k, k <= n -> fail k = false) -> fail (S n) = true ->
  let ct := conn_trace cr (ka_trace fail (repeat STick n ++ STick :: suf)) in
  ct = repeat (CWrite ping_data) (S n) ++ [CWrite stream_close_data; CConnClose] /\
  count is_connclose ct = 1.
Proof.
  intros fail n suf cr Hok Hf. cbn zeta.
  destruct (C18_failure_closes_once_and_stops fail n suf Hok Hf) as (Htr & _ & Hc & _).
  cbn zeta in Htr, Hc. rewrite conn_closes_eq_closes. split; [|exact Hc].
  rewrite Htr, conn_trace_app, conn_trace_oks. cbn [repeat].
  rewrite repeat_cons, <- app_assoc. reflexivity.
Qed.

(* ... in every run the connection is closed exactly as often as a ping failed (0 or 1) ... *)
Theorem C18_connection_closed_iff_failed : forall fail sched cr,
  count is_connclose (conn_trace cr (ka_trace fail sched)) = count is_pingfail (ka_trace fail sched).
Proof.
  intros fail sched cr. rewrite conn_closes_eq_closes.
  exact (proj1 (closes_eq_failures fail sched 0)).
Qed.

(* ... and the receive loop (Model/Recv.v, property C12) whose blocked read then fails
   closes quit and reports the loss: one error callback, one Disconnected event. *)
Theorem C18_loss_reported : forall inb,
  Recv.crecv inb 0 None [] = [Recv.AQuit; Recv.AErrCall; Recv.AEvDisconnected inb].
Proof. reflexivity. Qed.

(* "once the session has ended": however the receive loop ends (read error, element it
   rejects, answer it cannot write, the server's closing tag) it closes quit, exactly once,
   BEFORE it reports the loss (the Disconnected handler of a StreamManager returns only
   when a new session is up: the keepalive of the lost connection must not tick during
   the outage), and routes or writes nothing afterwards; the theorems below say what the
   keep-alive loop does from there. *)
Theorem C18_session_end_closes_quit : forall items inb nw wf,
  let rt := Recv.crecv inb nw wf items in
  Recv.count_act Recv.is_quit rt = 1 /\
  Recv.quit_before_disc rt = true /\ Recv.quiet_after_quit rt = true.
Proof.
  intros items inb nw wf. pose proof (RecvP.crecv_loss items inb nw wf) as H.
  cbn zeta in *. destruct H as (H1 & (H2 & H3) & _). repeat split; assumption.
Qed.

(* ... in this receive loop's own terms, for each of the four ways it ends a session - a stream error
   from the server included: quit is closed before the first application callback (router, event
   handler, error callback) is entered, and never again.  Together with C18_no_ping_once_quit_closed:
   no keep-alive while those callbacks run, however long they take. *)
Theorem C18_quit_before_callbacks : forall e,
  exists rest, recv_ending e = RQuit :: rest /\ ~ In RQuit rest /\ existsb is_callback rest = true.
Proof.
  intros e. destruct e; cbn [recv_ending]; eexists; (split; [reflexivity|]); split;
    try reflexivity; cbn [In]; intros H; repeat (destruct H as [H|H]; [discriminate|]); exact H.
Qed.

(* Once the loop has taken the quit branch no action follows, whatever the schedule
   offers afterwards: n pings, stop the ticker, return; no Close, no later ping. *)
Theorem C18_after_quit_silent : forall fail n suf,
  (forall k, k <= n -> fail k = false) ->
  ka_trace fail (repeat STick n ++ SQuit :: suf) = repeat APingOk n ++ [ATickerStop; AReturn] /\
  ka_state fail (repeat STick n ++ SQuit :: suf) = Stopped.
Proof.
  intros fail n suf Hok. unfold ka_trace, ka_state.
  rewrite (run_quit_at fail suf n 0); [split; reflexivity|].
  intros k Hk. apply Hok. lia.
Qed.

(* In general: a returned loop ignores every continuation of the schedule. *)
Theorem C18_stopped_silent : forall fail pre suf,
  ka_state fail pre = Stopped ->
  ka_trace fail (pre ++ suf) = ka_trace fail pre /\ ka_state fail (pre ++ suf) = Stopped.
Proof.
  intros fail pre suf Hst. unfold ka_trace, ka_state in *.
  rewrite (stopped_silent fail pre suf Hst). split; [reflexivity|exact Hst].
Qed.

(* The loop has returned iff a ping failed or quit was observed (and only then). *)
Theorem C18_stops_iff : forall fail sched,
  (ka_state fail sched = Stopped <->
     (In APingFail (ka_trace fail sched) \/ In SQuit (taken fail 0 sched))) /\
  (In AReturn (ka_trace fail sched) <-> ka_state fail sched = Stopped).
Proof. intros fail sched. split; [apply stopped_iff|apply returned_iff]. Qed.

(* XMPPTransport.Ping hands exactly the one byte "\n" to the connection and succeeds
   iff the write reports no error and one byte written; everything the loop puts on
   the wire of the TCP transport is that byte, once per tick taken. *)
Theorem C18_ping_content : forall (wr : nat -> wres) sched r,
  fst (xmpp_ping r) = [10%N] /\
  (snd (xmpp_ping r) = true <-> r = WOk 1%Z) /\
  wire (ka_trace (tcp_fail wr) sched)
  = repeat 10%N (count is_tick (taken (tcp_fail wr) 0 sched)).
Proof.
  intros wr sched r. split; [apply ping_writes_newline|]. split; [apply ping_ok_iff|].
  rewrite wire_is_newlines. unfold ka_trace. rewrite pings_eq_ticks. reflexivity.
Qed.

(* ... and that byte is a whitespace keep-alive in the sense of the property (a non-empty run
   of XML white space): the class the correspondence compares, whatever the byte. *)
Theorem C18_ping_is_whitespace : forall r,
  is_keepalive_payload (fst (xmpp_ping r)) = true /\ is_keepalive_payload stream_close_data = false.
Proof. intros r. split; reflexivity. Qed.

(* Environment level.  After quit has been closed the loop can still ping only for the
   tick pending at that moment and for later fires... *)
Theorem C18_late_pings_bounded : forall fail np pending evs,
  count is_ping (snd (ka_run fail (Running np) (resolve pending true evs)))
  <= (if pending then 1 else 0) + count_fire evs.
Proof. exact late_pings_bounded. Qed.

(* Since the tick branch polls quit before pinging: once quit is closed NO ping follows,
   pending tick or not, whatever the runtime picks. *)
Theorem C18_no_ping_once_quit_closed : forall fail np pending evs,
  count is_ping (snd (ka_run fail (Running np) (resolve pending true evs))) = 0.
Proof. exact no_ping_once_closed. Qed.

(* ...and with no tick pending the very next select observes quit: no ping at all. *)
Theorem C18_quit_seen_at_once : forall fail np b evs,
  ka_run fail (Running np) (resolve false true (ESelect b :: evs))
  = (Stopped, [ATickerStop; AReturn]).
Proof. exact quit_seen_at_once. Qed.

(* The quit branch is never taken while quit is open. *)
Theorem C18_no_quit_before_close : forall evs pending,
  existsb (fun e => match e with ECloseQuit => true | _ => false end) evs = false ->
  count is_quit (resolve pending false evs) = 0.
Proof. exact resolve_no_quit_before_close. Qed.

(* The transport object is re-used across reconnections: the Close that follows a failed
   keep-alive closes the connection it was entered with (the one the ping failed on), not the
   one a reconnection has installed during its wait. *)
Theorem C18_close_hits_own_connection : forall at_entry after_wait,
  xmpp_close_target at_entry after_wait = at_entry.
Proof. reflexivity. Qed.

(* One keep-alive loop per established session over any history of Resume attempts on one
   client: an attempt that reports failure (connect error, or the PostResumeHook's error)
   starts none and leaves no session behind. *)
Theorem C18_one_loop_per_session : forall h : list attempt,
  loops_of h = count is_att_ok h /\
  (forall a, In a h -> loops_started a = (if attempt_leaves_session a then 1 else 0)).
Proof.
  intros h. split; [apply loops_of_count|]. intros a _. destruct a; reflexivity.
Qed.

(* Through NewClient every configured interval is usable: a non-positive one is replaced by
   the default, so the loop started by Connect/Resume never hits the panic below. *)
Theorem C18_client_interval : forall cfg fail sched,
  (0 < client_interval cfg)%Z /\
  ((0 < cfg)%Z -> client_interval cfg = cfg) /\
  keepalive (client_interval cfg) fail sched = ka_trace fail sched.
Proof.
  intros cfg fail sched.
  assert (Hp : (0 < client_interval cfg)%Z).
  { unfold client_interval, default_interval. destruct (cfg <=? 0)%Z eqn:He; [lia|]. apply Z.leb_gt in He. lia. }
  split; [exact Hp|]. split.
  - intros Hc. unfold client_interval. destruct (cfg <=? 0)%Z eqn:He; [apply Z.leb_le in He; lia|reflexivity].
  - unfold keepalive. destruct (client_interval cfg <=? 0)%Z eqn:He; [apply Z.leb_le in He; lia|reflexivity].
Qed.

(* Outside the domain (keepalive called directly, not through NewClient): a non-positive
   interval makes time.NewTicker panic. *)
Theorem C18_nonpositive_interval : forall interval fail sched,
  (interval <= 0)%Z -> keepalive interval fail sched = [APanic].
Proof.
  intros interval fail sched Hi. unfold keepalive.
  destruct (interval <=? 0)%Z eqn:He; [reflexivity|]. apply Z.leb_gt in He. lia.
Qed.
Theorem C18_positive_interval : forall interval fail sched,
  (0 < interval)%Z -> keepalive interval fail sched = ka_trace fail sched.
Proof.
  intros interval fail sched Hi. unfold keepalive.
  destruct (interval <=? 0)%Z eqn:He; [|reflexivity]. apply Z.leb_le in He. lia.
Qed.

(* non-vacuity: the third ping fails while the schedule goes on offering ticks and quit;
   and a tick pending when quit is closed: the runtime picks the tick, the loop still stops
   without pinging; three attempts on one client, one loop *)
Example C18_example :
  keepalive 2000 (fun k => Nat.eqb k 3) [STick; STick; STick; STick; SQuit]
  = [APingOk; APingOk; APingFail; ATickerStop; AClose; AReturn] /\
  taken (fun k => Nat.eqb k 3) 0 [STick; STick; STick; STick; SQuit] = [STick; STick; STick] /\
  ka_trace (fun _ => false)
    (resolve false false [EFire; ESelect false; EFire; ECloseQuit; ESelect true; ESelect true; EFire; ESelect true])
  = [APingOk; ATickerStop; AReturn] /\
  wire [APingOk; APingOk; ATickerStop; AReturn] = [10%N; 10%N] /\
  loops_of [AttHookFails; AttConnectFails; AttOk] = 1 /\ client_interval (-5) = 30000000%Z.
Proof. repeat split; reflexivity. Qed.

Print Assumptions C18_one_ping_per_tick.
Print Assumptions C18_sent_at_every_tick.
Print Assumptions C18_failure_closes_once_and_stops.
Print Assumptions C18_failure_any_schedule.
Print Assumptions C18_failure_closes_connection.
Print Assumptions C18_connection_closed_iff_failed.
Print Assumptions C18_loss_reported.
Print Assumptions C18_session_end_closes_quit.
Print Assumptions C18_quit_before_callbacks.
Print Assumptions C18_after_quit_silent.
Print Assumptions C18_stopped_silent.
Print Assumptions C18_stops_iff.
Print Assumptions C18_ping_content.
Print Assumptions C18_ping_is_whitespace.
Print Assumptions C18_late_pings_bounded.
Print Assumptions C18_quit_seen_at_once.
Print Assumptions C18_no_quit_before_close.
Print Assumptions C18_no_ping_once_quit_closed.
Print Assumptions C18_close_hits_own_connection.
Print Assumptions C18_one_loop_per_session.
Print Assumptions C18_client_interval.
Print Assumptions C18_nonpositive_interval.
Print Assumptions C18_positive_interval.
