(* C18 — keep-alive: sent at every tick while the session is up; a keep-alive that
   cannot be written closes the connection (once) and ends the loop; once the
   session has ended no further keep-alive is sent.

   Quantification: every schedule (list of what the successive iterations of the loop
   observed), every fault oracle [fail] (so a write failure at the k-th keep-alive for
   every k), every continuation of the schedule after the loop ended, every list of
   environment events (ticker fires, quit closed at ANY point between two steps of the
   loop, the loop's own steps), every interleaving with re-dials of the transport, every
   history of Connect/Resume attempts, every interval (NewClient replaces a non-positive
   one by the default; [keepalive] called directly with one panics in time.NewTicker).

   WHAT THE ATOMICITY OF THE CODE ALLOWS, AND IS STATED AS SUCH: the tick branch polls
   quit, then pings, then (after a failed ping) looks at quit again; the receiver may
   close quit between any two of these.  So ONE ping can follow the end of the session
   per loop - the one already past the poll (C18_at_most_one_ping_after_quit: none when
   the loop had not passed the poll) - and it may be written on the connection a
   reconnection has installed meanwhile, or fail without a write when the re-dial failed.
   It is never answered by Close (C18_no_close_after_quit, C18_no_close_on_later_connection).
   ONE STEP REMAINS ATOMIC IN THE MODEL AND IS NOT IN THE CODE: between the second look at
   quit (open) and the first statement of transport.Close() the receiver could close quit
   and a whole reconnection complete; the Close would then act on the new connection.
   The harness cannot stop the loop there (no call boundary); closing that window needs a
   keep-alive bound to a connection handle instead of the shared Transport.

   RUNTIME, OBSERVED BY THE HARNESS WITH TOLERANCE, NOT PROVED:
   * real-time spacing: that [time.Ticker] fires every [interval]; the model takes the
     fires as events and relates pings to fires (C18_pings_vs_fires);
   * that Go's select eventually picks the closed quit; that a blocked read returns once
     the connection is closed, i.e. the second half of "closed SO THAT the loss is detected
     and reported": the receive loop's reaction to a failing read is property C12's, the
     link from conn.Close() to that failing read is exercised by the harness only (real
     receive loop blocked on the scripted connection / the real socket);
   * the WebSocket transport (Ping is a control frame awaiting a pong, not whitespace; the
     library underneath closes the connection itself when a ping or write fails) is not
     modelled: the loop is transport-independent, the harness checks the
     closed-and-reported clause there end to end. *)
From Coq Require Import List ZArith NArith Bool Lia.
From XV Require Import Lib.Sx Model.Keepalive Proofs.KeepaliveP.
From XV Require Model.Recv Proofs.RecvP.
Import ListNotations.

(* ---------- the loop over its own observations ---------- *)

(* Exactly one Ping per tick the loop takes: every step makes one Ping iff the loop is still
   running and the iteration was a tick; over a whole schedule the number of Pings is the
   number of ticks up to the step that ended the loop. *)
Theorem C18_one_ping_per_tick : forall fail sched,
  (forall st s, count is_ping (snd (ka_step fail st s))
                = match st with Running _ => if is_tick s then 1 else 0 | Stopped => 0 end) /\
  count is_ping (ka_trace fail sched) = count is_tick (taken fail 0 sched).
Proof.
  intros fail sched. split; [intros st s; apply step_pings|].
  exact (pings_eq_ticks fail sched 0).
Qed.

(* While the session is up (quit open) and writes succeed: n fires, each followed by a whole
   iteration, give exactly n successful pings and the loop keeps running. *)
Theorem C18_sent_at_every_tick : forall fail bs,
  (forall k, fail k = false) ->
  let sched := resolve PIdle false false (flat_map round bs) in
  ka_trace fail sched = repeat APingOk (length bs) /\
  ka_state fail sched = Running (length bs).
Proof.
  intros fail bs Hok. cbn zeta. rewrite resolve_rounds. unfold ka_trace, ka_state.
  rewrite (run_all_ok fail (length bs) 0); [split; reflexivity|].
  intros k _. apply Hok.
Qed.

(* "at the configured interval", as far as events go: whatever the order of fires, of the
   loop's steps (a slow Ping lets fires coalesce in the one-slot channel) and of the end of
   the session, every ping has its own ticker fire (plus the tick already pending or taken). *)
Theorem C18_pings_vs_fires : forall fail np ph pending closed evs,
  count is_ping (snd (ka_run fail (Running np) (resolve ph pending closed evs)))
  <= b2n (in_tick ph) + b2n pending + count_fire evs.
Proof. exact pings_vs_fires. Qed.

(* Write failure at the k-th keep-alive (k = n+1) with the session still up, for every k and
   every continuation [suf]: n good pings, the failing one, the ticker is stopped, the transport
   is closed exactly once, the loop returns, and nothing follows. *)
Theorem C18_failure_closes_once_and_stops : forall fail n suf,
  (forall k, k <= n -> fail k = false) -> fail (S n) = true ->
  let tr := ka_trace fail (repeat STick n ++ STick :: suf) in
  tr = repeat APingOk n ++ [APingFail; ATickerStop; AClose; AReturn] /\
  ka_state fail (repeat STick n ++ STick :: suf) = Stopped /\
  count is_close tr = 1 /\ count is_ping tr = S n.
Proof.
  intros fail n suf Hok Hf. cbn zeta. unfold ka_trace, ka_state.
  rewrite (run_fail_at fail suf n 0); [|intros k Hk; apply Hok; lia|exact Hf].
  cbn [fst snd]. split; [reflexivity|]. split; [reflexivity|].
  rewrite !count_app, count_repeat_false, count_repeat_true by reflexivity.
  cbn. split; lia.
Qed.

(* The same failure when quit was closed while that ping was under way: the loop returns
   WITHOUT Close - the session is over, its loss is being reported by the receiver, and the
   transport may already belong to the next connection. *)
Theorem C18_late_failure_does_not_close : forall fail n suf,
  (forall k, k <= n -> fail k = false) -> fail (S n) = true ->
  let tr := ka_trace fail (repeat STick n ++ STickLate :: suf) in
  tr = repeat APingOk n ++ [APingFail; ATickerStop; AReturn] /\
  ka_state fail (repeat STick n ++ STickLate :: suf) = Stopped /\ count is_close tr = 0.
Proof.
  intros fail n suf Hok Hf. cbn zeta. unfold ka_trace, ka_state.
  rewrite (run_fail_late fail suf n 0); [|intros k Hk; apply Hok; lia|exact Hf].
  cbn [fst snd]. split; [reflexivity|]. split; [reflexivity|].
  rewrite count_app, count_repeat_false by reflexivity. reflexivity.
Qed.

(* For an arbitrary schedule: whenever a ping fails the trace is "good pings, failed ping, stop,
   [Close,] return"; in every run at most one failed ping, at most one Close and only after it,
   at most one return, nothing after it; with quit never closed under a ping, Close exactly when
   a ping failed. *)
Theorem C18_failure_any_schedule : forall fail sched,
  let tr := ka_trace fail sched in
  (In APingFail tr ->
     exists n, (tr = repeat APingOk n ++ [APingFail; ATickerStop; AClose; AReturn] \/
                tr = repeat APingOk n ++ [APingFail; ATickerStop; AReturn]) /\
               ka_state fail sched = Stopped /\ fail (S n) = true) /\
  count is_close tr <= count is_pingfail tr /\ count is_pingfail tr <= 1 /\
  count is_return tr <= 1 /\ after_return tr = [] /\
  (existsb is_late sched = false -> count is_close tr = count is_pingfail tr).
Proof.
  intros fail sched. cbn zeta. unfold ka_trace, ka_state. split.
  - intros Hin. destruct (failure_shape fail sched 0 Hin) as (n & Htr & Hst & Hf & _).
    exists n. split; [exact Htr|]. split; [exact Hst|exact Hf].
  - pose proof (closes_le_failures fail sched 0) as (Hc & Hf & Hr). cbn zeta in *.
    split; [exact Hc|]. split; [exact Hf|]. split; [exact Hr|].
    split; [apply nothing_after_return|]. apply closes_eq_failures.
Qed.

(* On the TCP transport the Close that follows the failed ping writes the closing tag (its
   result is not looked at) and then closes the connection, exactly once. *)
Theorem C18_failure_closes_connection : forall fail n suf,
  (forall k, k <= n -> fail k = false) -> fail (S n) = true ->
  let ct := conn_trace (ka_trace fail (repeat STick n ++ STick :: suf)) in
  ct = repeat (CWrite ping_data) (S n) ++ [CWrite stream_close_data; CConnClose] /\
  count is_connclose ct = 1.
Proof.
  intros fail n suf Hok Hf. cbn zeta.
  destruct (C18_failure_closes_once_and_stops fail n suf Hok Hf) as (Htr & _ & Hc & _).
  cbn zeta in Htr, Hc. rewrite conn_closes_eq_closes. split; [|exact Hc].
  rewrite Htr, conn_trace_app, conn_trace_oks. cbn [repeat].
  rewrite repeat_cons, <- app_assoc. reflexivity.
Qed.

(* Once the loop has taken the quit branch no action follows, whatever the schedule offers
   afterwards: n pings, stop the ticker, return; no Close, no later ping. *)
Theorem C18_after_quit_silent : forall fail n suf,
  (forall k, k <= n -> fail k = false) ->
  ka_trace fail (repeat STick n ++ SQuit :: suf) = repeat APingOk n ++ [ATickerStop; AReturn] /\
  ka_state fail (repeat STick n ++ SQuit :: suf) = Stopped.
Proof.
  intros fail n suf Hok. unfold ka_trace, ka_state.
  rewrite (run_quit_at fail suf n 0); [split; reflexivity|].
  intros k Hk. apply Hok. lia.
Qed.

(* In general: a returned loop ignores every continuation of the schedule. *)
Theorem C18_stopped_silent : forall fail pre suf,
  ka_state fail pre = Stopped ->
  ka_trace fail (pre ++ suf) = ka_trace fail pre /\ ka_state fail (pre ++ suf) = Stopped.
Proof.
  intros fail pre suf Hst. unfold ka_trace, ka_state in *.
  rewrite (stopped_silent fail pre suf Hst). split; [reflexivity|exact Hst].
Qed.

(* The loop has returned iff a ping failed or quit was observed (and only then). *)
Theorem C18_stops_iff : forall fail sched,
  (ka_state fail sched = Stopped <->
     (In APingFail (ka_trace fail sched) \/ In SQuit (taken fail 0 sched))) /\
  (In AReturn (ka_trace fail sched) <-> ka_state fail sched = Stopped).
Proof. intros fail sched. split; [apply stopped_iff|apply returned_iff]. Qed.

(* XMPPTransport.Ping hands exactly the one byte "\n" to the connection and succeeds iff the
   write reports no error and one byte written; everything the loop puts on the wire of the TCP
   transport is that byte, once per tick taken. *)
Theorem C18_ping_content : forall (wr : nat -> wres) sched r,
  fst (xmpp_ping r) = [10%N] /\
  (snd (xmpp_ping r) = true <-> r = WOk 1%Z) /\
  wire (ka_trace (tcp_fail wr) sched)
  = repeat 10%N (count is_tick (taken (tcp_fail wr) 0 sched)).
Proof.
  intros wr sched r. split; [apply ping_writes_newline|]. split; [apply ping_ok_iff|].
  rewrite wire_is_newlines. unfold ka_trace. rewrite pings_eq_ticks. reflexivity.
Qed.

(* ... and that byte is a whitespace keep-alive in the sense of the property (a non-empty run of
   XML white space): the class the correspondence compares, whatever the byte. *)
Theorem C18_ping_is_whitespace : forall r,
  is_keepalive_payload (fst (xmpp_ping r)) = true /\ is_keepalive_payload stream_close_data = false.
Proof. intros r. split; reflexivity. Qed.

(* ---------- the end of the session, at any point between two steps of the loop ---------- *)

(* "once the session has ended": the owner of the quit channel is the receive loop (Model/Recv.v,
   Client.recv).  However it ends - read error, rejected element, the server's closing tag, a stream
   error (also one whose handler reconnects the client and takes the transport over) - it closes quit
   exactly once ... *)
Theorem C18_session_end_closes_quit : forall items inb nw wf t,
  Recv.count_act Recv.is_quit (Recv.crecv inb nw wf items) = 1 /\
  (Recv.reaches_end items = true ->
   Recv.count_act Recv.is_quit (Recv.crecv_handover t inb nw wf items) = 1).
Proof.
  intros items inb nw wf t. split.
  - exact (proj1 (RecvP.crecv_loss items inb nw wf)).
  - intros Hre. exact (proj1 (RecvP.crecv_handed_over t items inb nw wf Hre)).
Qed.

(* ... and BEFORE the first application callback (router, event handler, error callback) is entered:
   those run synchronously in the receive loop and may take arbitrarily long - a StreamManager's handler
   only returns once a new session is up.  With the two theorems below: while they run at most the one
   ping already past its poll goes out, and no Close. *)
Theorem C18_quit_before_callbacks : forall items inb nw wf pre a post,
  Recv.crecv inb nw wf items = pre ++ a :: post -> Recv.is_callback a = true -> In Recv.AQuit pre.
Proof. exact RecvP.crecv_callbacks_after_quit. Qed.

Theorem C18_quit_before_callbacks_handover : forall t items inb nw wf,
  Recv.reaches_end items = true ->
  Recv.quit_before_callbacks (Recv.crecv_handover t inb nw wf items) = true.
Proof.
  intros t items inb nw wf Hre.
  exact (proj1 (proj2 (RecvP.crecv_handed_over t items inb nw wf Hre))).
Qed.

(* What the correspondence runs expect the receive loop to report (error callbacks, Disconnected events)
   for each way the harness ends a session is what Model/Recv.v says, not a table of its own. *)
Theorem C18_session_report_is_recv :
  let rep tr := (Recv.count_act Recv.is_err tr, Recv.count_act Recv.is_disc tr) in
  session_report SeReadFails = rep (Recv.crecv 0 0 Recv.no_fault []) /\
  session_report SeStreamClose = rep (Recv.crecv 0 0 Recv.no_fault [Recv.IClose]) /\
  session_report SeStreamError = rep (Recv.crecv 0 0 Recv.no_fault [Recv.IStreamError 0]) /\
  session_report SeHandedOver = rep (Recv.crecv_handover 0 0 0 Recv.no_fault []) /\
  session_report SeNone = (0, 0).
Proof. cbn zeta. repeat split; reflexivity. Qed.

(* Once quit is closed at most ONE ping follows, and none unless the loop was already past its
   poll of quit at that moment (about to ping, or pinging). *)
Theorem C18_at_most_one_ping_after_quit : forall fail np ph pending evs,
  count is_ping (snd (ka_run fail (Running np) (resolve ph pending true evs))) <= b2n (past_poll ph).
Proof. exact pings_once_closed. Qed.

(* ... and whatever that ping does, the loop calls no Close once quit is closed. *)
Theorem C18_no_close_after_quit : forall fail st ph pending evs,
  count is_close (snd (ka_run fail st (resolve ph pending true evs))) = 0.
Proof. exact no_close_once_closed. Qed.

(* With quit closed, the loop at its select and no tick pending: the very next select ends it. *)
Theorem C18_quit_seen_at_once : forall fail np b evs,
  ka_run fail (Running np) (resolve PIdle false true (ESelect b :: evs))
  = (Stopped, [ATickerStop; AReturn]).
Proof. exact quit_seen_at_once. Qed.

(* While quit is open the quit branch is never taken and no iteration is a late one. *)
Theorem C18_no_quit_before_close : forall evs ph pending,
  existsb (fun e => match e with ECloseQuit => true | _ => false end) evs = false ->
  count is_quit (resolve ph pending false evs) = 0 /\
  existsb is_late (resolve ph pending false evs) = false.
Proof. exact resolve_open. Qed.

(* ---------- which connection: the Transport object outlives its connections ---------- *)

(* Without a re-dial in between, everything the loop does - pings and the Close that answers
   a failed one - is done to the connection the loop was started on. *)
Theorem C18_loop_touches_own_connection : forall c fail st sched,
  forallb (touches c) (conn_run (Some c) (map TAct (snd (ka_run fail st sched)))) = true.
Proof. intros c fail st sched. apply conn_run_own. Qed.

(* Re-dials only start after quit is closed (the receiver closes quit before it runs the
   callbacks that reconnect, C18_quit_before_callbacks).  From then on, however the rest of the
   loop's run is interleaved with dials (failed ones included: the transport then holds no
   connection and a ping fails without a write): no connection is closed by the loop. *)
Theorem C18_no_close_on_later_connection : forall fail st ph pending evs l cur,
  flat_map act_of l = snd (ka_run fail st (resolve ph pending true evs)) ->
  count closes_conn (conn_run cur l) = 0.
Proof.
  intros fail st ph pending evs l cur Hl. apply conn_run_no_close.
  rewrite Hl. apply no_close_once_closed.
Qed.

(* ---------- sessions: Connect / Resume attempts on one client ---------- *)

(* One keep-alive loop per session left up, over any history of attempts: an attempt whose
   connect() fails starts none and leaves nothing; an attempt whose post-connection hook fails
   returns the error, starts none and CLOSES the session it had established (computed from the
   steps of the attempt: session established / closed again / loops started). *)
Theorem C18_one_loop_per_session : forall h : list attempt,
  loops_of h = count is_att_ok h /\
  (forall a, In a h -> loops_started a = (if attempt_leaves_session a then 1 else 0)) /\
  (forall a, In a h -> o_loops (run_attempt a) = 0 -> o_session (run_attempt a) = true ->
             o_closed (run_attempt a) = true /\ o_state (run_attempt a) = CsDisconnected) /\
  (forall a, In a h -> o_state (run_attempt a) = CsEstablished -> attempt_leaves_session a = true).
Proof.
  intros h. split; [apply loops_of_count|]. split; [|split]; intros a _; destruct a; cbn;
    try congruence; intros; try split; congruence.
Qed.

(* The end of the session the application asks for (Client.Disconnect, StreamManager.Stop): the keep-alive
   is stopped before the closing tag is written, so during the whole wait for the peer's closing tag (up to
   ConnectTimeout) at most the one ping already past its poll goes out, and no Close by the loop. *)
Theorem C18_disconnect_stops_keepalive_first : forall fail np ph pending rest,
  (exists post, client_disconnect = DStopKeepalive :: post /\ In DWriteCloseTag post) /\
  count is_ping (snd (ka_run fail (Running np) (resolve ph pending false (disconnect_events rest))))
    <= b2n (past_poll ph) /\
  count is_close (snd (ka_run fail (Running np) (resolve ph pending false (disconnect_events rest)))) = 0.
Proof.
  intros fail np ph pending rest. split; [eexists; split; [reflexivity|cbn; auto]|].
  unfold disconnect_events. cbn [resolve]. split; [apply pings_once_closed|apply no_close_once_closed].
Qed.

(* Through NewClient every configured interval is usable: a non-positive one is replaced by the
   default, so the loop started by Connect/Resume never hits the panic below. *)
Theorem C18_client_interval : forall cfg fail sched,
  (0 < client_interval cfg)%Z /\
  ((0 < cfg)%Z -> client_interval cfg = cfg) /\
  keepalive (client_interval cfg) fail sched = ka_trace fail sched.
Proof.
  intros cfg fail sched.
  assert (Hp : (0 < client_interval cfg)%Z).
  { unfold client_interval, default_interval. destruct (cfg <=? 0)%Z eqn:He; [lia|]. apply Z.leb_gt in He. lia. }
  split; [exact Hp|]. split.
  - intros Hc. unfold client_interval. destruct (cfg <=? 0)%Z eqn:He; [apply Z.leb_le in He; lia|reflexivity].
  - unfold keepalive. destruct (client_interval cfg <=? 0)%Z eqn:He; [apply Z.leb_le in He; lia|reflexivity].
Qed.

(* Outside the domain (keepalive called directly, not through NewClient): a non-positive
   interval makes time.NewTicker panic. *)
Theorem C18_nonpositive_interval : forall interval fail sched,
  (interval <= 0)%Z -> keepalive interval fail sched = [APanic].
Proof.
  intros interval fail sched Hi. unfold keepalive.
  destruct (interval <=? 0)%Z eqn:He; [reflexivity|]. apply Z.leb_gt in He. lia.
Qed.
Theorem C18_positive_interval : forall interval fail sched,
  (0 < interval)%Z -> keepalive interval fail sched = ka_trace fail sched.
Proof.
  intros interval fail sched Hi. unfold keepalive.
  destruct (interval <=? 0)%Z eqn:He; [|reflexivity]. apply Z.leb_le in He. lia.
Qed.

(* ---------- histories: the successive sessions of ONE client object ---------- *)

(* Every session has its own quit channel and its own closer (Model/Keepalive.v, client_quits: what
   newKeepaliveQuit / keepaliveStop do to the client's state).  Over any history of sessions on one client,
   each ended with one or more requests to stop its keep-alive (Disconnect, the receiver, or both): the quit
   of the k-th session is closed - whatever k, not only for the first - and so, with the loop of that session
   in any phase at that moment and whatever follows, at most the one ping already past its poll goes out and
   the loop calls no Close: no keep-alive once session k has ended, none follows the transport to session k+1. *)
Theorem C18_every_session_stops_its_loop : forall (h : list nat) k,
  (k < length h)%nat ->
  quit_closed (client_quits [] (history_ops h)) k = true /\
  forall fail np ph pending evs,
    (count is_ping (snd (ka_run fail (Running np)
        (resolve ph pending (quit_closed (client_quits [] (history_ops h)) k) evs))) <= b2n (past_poll ph))%nat /\
    count is_close (snd (ka_run fail (Running np)
        (resolve ph pending (quit_closed (client_quits [] (history_ops h)) k) evs))) = 0%nat.
Proof.
  intros h k Hk. rewrite (history_every_quit_closed h k Hk). split; [reflexivity|].
  intros fail np ph pending evs. split; [apply pings_once_closed|apply no_close_once_closed].
Qed.

(* The quit of a new session starts open, and establishing and ending a session leaves the channels of
   all the earlier sessions as they were: a closer acts on its own channel only. *)
Theorem C18_session_quit_is_its_own : forall n st,
  client_quits st [OpNew] = false :: st /\ tl (client_quits st (session_ops n)) = st.
Proof. exact client_session_frame. Qed.

(* non-vacuity: the third ping fails while the schedule goes on offering ticks and quit; quit
   closed between the poll and the ping: that ping still goes out (and is the only one), its
   failure is not answered by Close even when the transport was re-dialled (first refused,
   then connection 2) in between; quit closed before the poll: no ping; three attempts on one
   client, one loop *)
Example C18_example :
  keepalive 2000 (fun k => Nat.eqb k 3) [STick; STick; STick; STick; SQuit]
  = [APingOk; APingOk; APingFail; ATickerStop; AClose; AReturn] /\
  taken (fun k => Nat.eqb k 3) 0 [STick; STick; STick; STick; SQuit] = [STick; STick; STick] /\
  ka_trace (fun k => Nat.eqb k 2)
    (resolve PIdle false false (round true ++ [EFire; ESelect true; EPoll; ECloseQuit; EPing; ERecheck; EFire; ESelect true; EPoll]))
  = [APingOk; APingFail; ATickerStop; AReturn] /\
  conn_run (Some 1%N) [TAct APingOk; TDial None; TAct APingFail; TDial (Some 2%N); TAct ATickerStop; TAct AReturn]
  = [CW 1%N ping_data; CNoConn] /\
  ka_trace (fun _ => false)
    (resolve PIdle false false (round true ++ [EFire; ESelect true; ECloseQuit; EPoll; EPing; ERecheck]))
  = [APingOk; ATickerStop; AReturn] /\
  wire [APingOk; APingOk; ATickerStop; AReturn] = [10%N; 10%N] /\
  loops_of [AttHookFails; AttConnectFails; AttOk] = 1 /\ client_interval (-5) = 30000000%Z /\
  client_quits [] (history_ops [0; 1; 0]%nat) = [true; true; true] /\
  client_quits [] (session_ops 1 ++ [OpNew]) = [false; true].
Proof. repeat split; reflexivity. Qed.

Print Assumptions C18_one_ping_per_tick.
Print Assumptions C18_sent_at_every_tick.
Print Assumptions C18_pings_vs_fires.
Print Assumptions C18_failure_closes_once_and_stops.
Print Assumptions C18_late_failure_does_not_close.
Print Assumptions C18_failure_any_schedule.
Print Assumptions C18_failure_closes_connection.
Print Assumptions C18_after_quit_silent.
Print Assumptions C18_stopped_silent.
Print Assumptions C18_stops_iff.
Print Assumptions C18_ping_content.
Print Assumptions C18_ping_is_whitespace.
Print Assumptions C18_session_end_closes_quit.
Print Assumptions C18_quit_before_callbacks.
Print Assumptions C18_quit_before_callbacks_handover.
Print Assumptions C18_session_report_is_recv.
Print Assumptions C18_at_most_one_ping_after_quit.
Print Assumptions C18_no_close_after_quit.
Print Assumptions C18_quit_seen_at_once.
Print Assumptions C18_no_quit_before_close.
Print Assumptions C18_loop_touches_own_connection.
Print Assumptions C18_no_close_on_later_connection.
Print Assumptions C18_one_loop_per_session.
Print Assumptions C18_disconnect_stops_keepalive_first.
Print Assumptions C18_client_interval.
Print Assumptions C18_nonpositive_interval.
Print Assumptions C18_positive_interval.
Print Assumptions C18_every_session_stops_its_loop.
Print Assumptions C18_session_quit_is_its_own.
