(* C09 — stream management: the handled-stanza count the client reports equals the
   number of stanzas received on the stream-managed session so far.
   (The h of <resume/> is the same counter: see Props/C11.v, C11_resume_content.) *)
From Coq Require Import List ZArith NArith Bool.
From XV Require Import Lib.Sx Model.Recv Proofs.RecvP Model.Session Model.SessionSpec Model.SessionRecv
  Proofs.SessionSpecP Proofs.SessionHistP Proofs.RecvSessionP.
Import ListNotations.
Open Scope N_scope.

(* For every inbound history, every answer the client writes (or tries to write: one per
   request, C05_acks_answered) carries the count the session started (or was resumed)
   with plus the number of stanzas received before the request it answers; non-stanza
   elements before it are not counted. *)
Theorem C09_h_exact : forall items inb nw wf k h,
  nth_error (attempted (crecv inb nw wf items)) k = Some h ->
  exists pre post,
    processed items = pre ++ ISmR :: post /\
    length (filter is_r pre) = k /\
    h = inb + count_stanzas pre.
Proof.
  intros items inb nw wf k h H. rewrite crecv_answers in H.
  exact (expected_answers_spec _ _ _ _ H).
Qed.

(* The count handed on with the Disconnected event (and used by a later <resume/>)
   is the starting count plus all stanzas processed: nothing else was counted. *)
Theorem C09_count_at_loss : forall items inb nw wf,
  In (AEvDisconnected (inb + count_stanzas (processed items))) (crecv inb nw wf items)
  /\ count_act is_disc (crecv inb nw wf items) = 1%nat.
Proof.
  intros items inb nw wf. pose proof (crecv_loss items inb nw wf) as H. cbn zeta in H.
  destruct H as (_ & _ & Hd & _ & Hin). split; assumption.
Qed.

(* ---- "continued across a resumption": the receive loop and the negotiation together ----
   [run_full] (Model/SessionRecv.v) is a history of connections on one Client in which every
   established session runs the receive loop [crecv] on the elements that arrive on it,
   started with the count the negotiation left; the count the Client holds afterwards is
   READ FROM the Disconnected event the loop ends with (nothing is added up on the side).

   The loop hands on exactly its starting count plus the stanzas it processed, in the one
   Disconnected event it emits: *)
Theorem C09_loop_hands_on_count : forall inb nw wf items,
  lost_with (crecv inb nw wf items) = Some (inb + count_stanzas (processed items)).
Proof. exact crecv_hands_on. Qed.

(* ... so the history with real traffic is, connection by connection (requests, result,
   state held afterwards), the history in which each session's traffic is summarised by the
   number of stanzas its loop processed ([conn_of], [traffic_of]): *)
Theorem C09_history_is_counted : forall cfg xs p,
  map (fun y => fst (fst y)) (run_full cfg p xs) = run_conns cfg p (map conn_of xs).
Proof. exact run_full_conns. Qed.

(* ... every answer written during a session of the history carries the count that
   negotiation left plus the stanzas received on this connection before the request
   (C09_h_exact instantiated at the loop the history really runs): *)
Theorem C09_history_answers : forall cfg xs p i w r p2 ev tr k h,
  nth_error (run_full cfg p xs) i = Some (w, r, p2, ev, tr) -> r = Ok ->
  nth_error (attempted tr) k = Some h ->
  exists x p1 pre post, nth_error xs i = Some x /\
    p2 = add_inbound p1 (traffic_of x) /\
    processed (t_items x) = pre ++ ISmR :: post /\
    length (filter is_r pre) = k /\ h = p_inbound p1 + count_stanzas pre.
Proof. exact history_answers. Qed.

(* ... and the h of every <resume/> of the history is the number of stanzas received on the
   stream-managed session so far, as computed from the history alone ([session_counts],
   Model/SessionSpec.v: a connection that binds starts a new session whose count is what
   its own loop processed; one that succeeds without a bind continues the session and adds
   what its loop processed; a failed attempt - refused dial, TLS, authentication, any step
   - receives nothing and leaves the count alone), NOT from the state the client keeps. *)
Theorem C09_resume_h_is_total : forall cfg xs p i y prev h a,
  nth_error (run_full cfg p xs) i = Some y ->
  nth_error (session_counts (p_inbound p) (map conn_of xs) (run_conns cfg p (map conn_of xs))) i = Some a ->
  In (RResume prev h) (reqs (fst (fst (fst (fst y))))) -> h = a.
Proof. exact resume_h_counts_received. Qed.

(* Per connection of a history, for every server script and every amount of traffic
   ([hist_ok], Model/SessionSpec.v): a <resume/> carries the count held; after a session
   that was resumed the count held is the old one plus the stanzas received on it; after a
   session on which stream management was newly enabled it is the number of stanzas
   received on that session alone; after a new session without stream management no id is
   held (nothing will be reported to anybody); after a FAILED attempt, whatever the step
   it failed at, id and count are both as before or nothing is held any more. *)
Theorem C09_count_across_resumptions : forall cfg cs p,
  hist_ok p cs (run_conns cfg p cs).
Proof. intros cfg cs p. exact (run_conns_hist cfg cs p). Qed.

(* enable, 3 stanzas, resume with h = 3, 2 more stanzas, resume with h = 5 *)
Example C09_history_example :
  let f1 := {| f_tls := TlsNone; f_mechs := [mech_plain]; f_bind := false; f_sess := SessAbsent; f_sm := false |} in
  let f2 := {| f_tls := TlsNone; f_mechs := []; f_bind := true; f_sess := SessAbsent; f_sm := true |} in
  let cfg := {| c_insecure := true; c_resource := []; c_sm_resume := true; c_mechs := [mech_plain] |} in
  let hello := [SHeader []; SFeatures f1; SSuccess; SHeader []; SFeatures f2] in
  let c1 := {| k_dial := true; k_tls := true; k_script := hello ++ [SIq TResult (PlBind [1]) false; SEnabled [7] ResTrue]; k_traffic := 3 |} in
  let c2 := {| k_dial := true; k_tls := true; k_script := hello ++ [SResumed [7]]; k_traffic := 2 |} in
  let c3 := {| k_dial := true; k_tls := true; k_script := hello ++ [SResumed [7]]; k_traffic := 0 |} in
  map (fun x => filter (fun r => match r with RResume _ _ => true | _ => false end) (reqs (outs x)))
      (run_conns cfg (fresh true) [c1; c2; c3])
  = [[]; [RResume [7] 3]; [RResume [7] 5]].
Proof. reflexivity. Qed.

(* enable, 3 stanzas (two <r/> in between), a refused dial, a failed TLS handshake, a rejected
   password, then a resumption: h = 3; 2 more stanzas; resume with h = 5 *)
Example C09_full_history_example :
  let f0 := {| f_tls := TlsOffered; f_mechs := [mech_plain]; f_bind := false; f_sess := SessAbsent; f_sm := false |} in
  let f1 := {| f_tls := TlsNone; f_mechs := [mech_plain]; f_bind := false; f_sess := SessAbsent; f_sm := false |} in
  let f2 := {| f_tls := TlsNone; f_mechs := []; f_bind := true; f_sess := SessAbsent; f_sm := true |} in
  let cfg := {| c_insecure := true; c_resource := []; c_sm_resume := true; c_mechs := [mech_plain] |} in
  let hello := [SHeader []; SFeatures f1; SSuccess; SHeader []; SFeatures f2] in
  let t s items d tl := {| t_dial := d; t_tls := tl; t_script := s; t_items := items; t_wf := no_fault |} in
  let xs := [t (hello ++ [SIq TResult (PlBind [1]) false; SEnabled [7] ResTrue])
               [IStanza KMsg 1; ISmR; IStanza KPres 2; ISmA 0; IStanza KIq 3; ISmR] true true;
             t hello [] false true;
             t [SHeader []; SFeatures f0; SProceed] [] true false;
             t [SHeader []; SFeatures f1; SSaslFailure] [] true true;
             t (hello ++ [SResumed [7]]) [IStanza KMsg 4; INonza 0; IStanza KMsg 5] true true;
             t (hello ++ [SResumed [7]]) [] true true] in
  map (fun y => (filter (fun r => match r with RResume _ _ => true | _ => false end) (reqs (fst (fst (fst (fst y))))),
                 attempted (snd y)))
      (run_full cfg (fresh true) xs)
  = [([], [1; 3]); ([], []); ([], []); ([], []); ([RResume [7] 3], []); ([RResume [7] 5], [])] /\
  session_counts 0 (map conn_of xs) (run_conns cfg (fresh true) (map conn_of xs)) = [0; 3; 3; 3; 3; 5].
Proof. split; reflexivity. Qed.

(* <enabled/> without resumption granted: stream management is on all the same; the next
   connection resumes (h = 2) and the one after a refusal asks for <enable/> again, now with
   resume false, and counts from zero *)
Example C09_enabled_without_resume_example :
  let f1 := {| f_tls := TlsNone; f_mechs := [mech_plain]; f_bind := false; f_sess := SessAbsent; f_sm := false |} in
  let f2 := {| f_tls := TlsNone; f_mechs := []; f_bind := true; f_sess := SessAbsent; f_sm := true |} in
  let cfg := {| c_insecure := true; c_resource := []; c_sm_resume := true; c_mechs := [mech_plain] |} in
  let hello := [SHeader []; SFeatures f1; SSuccess; SHeader []; SFeatures f2] in
  let bind := SIq TResult (PlBind [1]) false in
  let k s t := {| k_dial := true; k_tls := true; k_script := s; k_traffic := t |} in
  map (fun x => (filter (fun r => match r with RResume _ _ | REnable _ => true | _ => false end) (reqs (fst (fst x))),
                 p_inbound (snd x)))
      (run_conns cfg (fresh true)
         [k (hello ++ [bind; SEnabled [7] ResAbsent]) 2;
          k (hello ++ [SResumed [7]]) 1;
          k (hello ++ [SFailed; bind; SEnabled [8] ResTrue]) 4])
  = [([REnable true], 2); ([RResume [7] 2], 3); ([RResume [7] 3; REnable false], 4)].
Proof. reflexivity. Qed.

Example C09_example :
  answers (crecv 5 0 no_fault [ISmA 0; INonza 0; ISmR; IStanza KMsg 1; IStanza KPres 2; ISmA 3; ISmR])
  = [5; 7].
Proof. reflexivity. Qed.

Print Assumptions C09_h_exact.
Print Assumptions C09_count_at_loss.
Print Assumptions C09_loop_hands_on_count.
Print Assumptions C09_history_is_counted.
Print Assumptions C09_history_answers.
Print Assumptions C09_resume_h_is_total.
Print Assumptions C09_count_across_resumptions.
