(* C09 — stream management: the handled-stanza count the client reports equals the
   number of stanzas received on the stream-managed session so far.
   (The h of <resume/> is the same counter: see Props/C11.v, C11_resume_content.) *)
From Coq Require Import List ZArith NArith Bool.
From XV Require Import Lib.Sx Model.Recv Proofs.RecvP.
Import ListNotations.
Open Scope N_scope.

(* For every inbound history, every answer written carries the count the session
   started (or was resumed) with plus the number of stanzas received before the
   request it answers; non-stanza elements before it are not counted. *)
Theorem C09_h_exact : forall items inb nw wf k h,
  nth_error (answers (crecv inb nw wf items)) k = Some h ->
  exists pre post,
    processed nw wf items = pre ++ ISmR :: post /\
    length (filter is_r pre) = k /\
    h = inb + count_stanzas pre.
Proof.
  intros items inb nw wf k h H. rewrite crecv_answers in H.
  exact (expected_answers_spec _ _ _ _ H).
Qed.

(* The count handed on with the Disconnected event (and used by a later <resume/>)
   is the starting count plus all stanzas processed: nothing else was counted. *)
Theorem C09_count_at_loss : forall items inb nw wf,
  In (AEvDisconnected (inb + count_stanzas (processed nw wf items))) (crecv inb nw wf items)
  /\ count_act is_disc (crecv inb nw wf items) = 1%nat.
Proof.
  intros items inb nw wf. pose proof (crecv_loss items inb nw wf) as H. cbn zeta in H.
  destruct H as (_ & _ & Hd & _ & Hin). split; assumption.
Qed.

Example C09_example :
  answers (crecv 5 0 None [ISmA 0; INonza 0; ISmR; IStanza KMsg 1; IStanza KPres 2; ISmA 3; ISmR])
  = [5; 7].
Proof. reflexivity. Qed.

Print Assumptions C09_h_exact.
Print Assumptions C09_count_at_loss.
