(* C09 — stream management: the handled-stanza count the client reports equals the
   number of stanzas received on the stream-managed session so far.
   (The h of <resume/> is the same counter: see Props/C11.v, C11_resume_content.) *)
From Coq Require Import List ZArith NArith Bool.
From XV Require Import Lib.Sx Model.Recv Proofs.RecvP Model.Session Model.SessionSpec Proofs.SessionSpecP Proofs.SessionHistP.
Import ListNotations.
Open Scope N_scope.

(* For every inbound history, every answer the client writes (or tries to write: one per
   request, C05_acks_answered) carries the count the session started (or was resumed)
   with plus the number of stanzas received before the request it answers; non-stanza
   elements before it are not counted. *)
Theorem C09_h_exact : forall items inb nw wf k h,
  nth_error (attempted (crecv inb nw wf items)) k = Some h ->
  exists pre post,
    processed nw wf items = pre ++ ISmR :: post /\
    length (filter is_r pre) = k /\
    h = inb + count_stanzas pre.
Proof.
  intros items inb nw wf k h H. rewrite crecv_answers in H.
  exact (expected_answers_spec _ _ _ _ H).
Qed.

(* The count handed on with the Disconnected event (and used by a later <resume/>)
   is the starting count plus all stanzas processed: nothing else was counted. *)
Theorem C09_count_at_loss : forall items inb nw wf,
  In (AEvDisconnected (inb + count_stanzas (processed nw wf items))) (crecv inb nw wf items)
  /\ count_act is_disc (crecv inb nw wf items) = 1%nat.
Proof.
  intros items inb nw wf. pose proof (crecv_loss items inb nw wf) as H. cbn zeta in H.
  destruct H as (_ & _ & Hd & _ & Hin). split; assumption.
Qed.

(* Across connections ("continued across a resumption"), for every history of
   connections on one Client, every server script and every amount of traffic:
   a <resume/> always carries the count held; after a session that was resumed the
   count held is the old one plus the stanzas received on it (C09_h_exact and
   C09_count_at_loss give the per-stanza counting, [k_traffic] is their total); after a
   session on which stream management was newly enabled it is the number of stanzas
   received on that session alone.  ([hist_ok], Model/SessionSpec.v, is exactly these
   three clauses for each connection of the history, the state after one connection
   being the state before the next.) *)
Theorem C09_count_across_resumptions : forall cfg cs p,
  hist_ok p cs (run_conns cfg p cs).
Proof. intros cfg cs p. exact (run_conns_hist cfg cs p). Qed.

(* enable, 3 stanzas, resume with h = 3, 2 more stanzas, resume with h = 5 *)
Example C09_history_example :
  let f1 := {| f_tls := TlsNone; f_mechs := [mech_plain]; f_bind := false; f_sess := SessAbsent; f_sm := false |} in
  let f2 := {| f_tls := TlsNone; f_mechs := []; f_bind := true; f_sess := SessAbsent; f_sm := true |} in
  let cfg := {| c_insecure := true; c_resource := []; c_sm_resume := true; c_mechs := [mech_plain] |} in
  let hello := [SHeader []; SFeatures f1; SSuccess; SHeader []; SFeatures f2] in
  let c1 := {| k_dial := true; k_tls := true; k_script := hello ++ [SIq TResult (PlBind [1]) false; SEnabled [7] ResTrue]; k_traffic := 3 |} in
  let c2 := {| k_dial := true; k_tls := true; k_script := hello ++ [SResumed [7]]; k_traffic := 2 |} in
  let c3 := {| k_dial := true; k_tls := true; k_script := hello ++ [SResumed [7]]; k_traffic := 0 |} in
  map (fun x => filter (fun r => match r with RResume _ _ => true | _ => false end) (reqs (outs x)))
      (run_conns cfg (fresh true) [c1; c2; c3])
  = [[]; [RResume [7] 3]; [RResume [7] 5]].
Proof. reflexivity. Qed.

Example C09_example :
  answers (crecv 5 0 None [ISmA 0; INonza 0; ISmR; IStanza KMsg 1; IStanza KPres 2; ISmA 3; ISmR])
  = [5; 7].
Proof. reflexivity. Qed.

Print Assumptions C09_h_exact.
Print Assumptions C09_count_at_loss.
Print Assumptions C09_count_across_resumptions.
