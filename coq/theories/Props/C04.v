(* C04 — no credentials or stanzas without verified TLS unless Insecure is set.

   The code decides with two flags that live on objects re-used by every connection of a Client:
   transport.IsSecure() (XMPPTransport.isSecure, [p_code_secure]) and Session.TlsEnabled
   ([p_tls_enabled]).  Model/TlsPolicy.connect_fl READS them where the code does; [o_tls] of every
   write is a ghost: the state of the real channel (false on a new TCP connection, true from a
   successful StartTLS on), never derived from the flags.  connect_fl true (with the two resets the
   repaired code performs) is proved equal to the shared Session.connect, which is what the
   correspondence runs compare with the implementation. *)
From Coq Require Import List ZArith NArith Bool.
From XV Require Import Lib.Sx Model.Session Model.SessionSpec Proofs.SessionP Proofs.SessionSpecP.
From XV Require Import Model.Gate Proofs.GateP Model.TlsPolicy Proofs.TlsPolicyP.
Import ListNotations.

(* The flag-reading model with the resets is the session model (for every input and state). *)
Theorem C04_flag_model_is_session_model :
  (forall cfg dial tls p s, connect_fl true cfg dial tls p s = connect cfg dial tls p s) /\
  (forall cfg p cs, run_conns_fl true cfg p cs = run_conns cfg p cs).
Proof. split; [exact connect_fl_is_connect|intros; apply run_conns_fl_is_run_conns]. Qed.

(* One connection, the gate as the code decides it.  Whether or not the resets are there: if at the
   start of the connection the transport does not claim to be secure, then with Insecure = false
   everything written outside TLS is a stream header or <starttls/>.  The resets (reset = true)
   establish that premise from ANY state. *)
Theorem C04_gate_by_flags : forall reset cfg dial tls p0 s,
  reset = true \/ p_code_secure p0 = false ->
  c_insecure cfg = false ->
  Forall (fun x => o_tls x = false -> clear_ok (o_req x) = true) (fst (fst (connect_fl reset cfg dial tls p0 s))).
Proof. exact connect_fl_no_cleartext. Qed.

(* For every history of connections (any scripts, any TLS outcomes) from ANY state the re-used
   objects may be in -- stale flags included, they are states of this model --: with Insecure =
   false everything written outside TLS is a stream header or <starttls/>. *)
Theorem C04_no_cleartext : forall cfg p conns,
  c_insecure cfg = false ->
  Forall (fun wrp => Forall (fun x => o_tls x = false -> clear_ok (o_req x) = true) (fst (fst wrp)))
         (run_conns_fl true cfg p conns).
Proof. intros cfg p conns. apply run_conns_fl_no_cleartext. Qed.

(* ... and without the resets it is false, from a NEW client: a session over verified TLS, then a
   connection to a server that offers no TLS: the stale isSecure lets the gate pass, the stale
   TlsEnabled restarts the stream, and the password goes out in clear text (D12, repaired by
   98e9755); with the resets the same history is clean. *)
Theorem C04_stale_flags_refuted :
  c_insecure d12_cfg = false /\
  map (fun wrp => leaks (fst (fst wrp))) (run_conns_fl false d12_cfg (fresh false) d12_history) = [false; true] /\
  map (fun wrp => leaks (fst (fst wrp))) (run_conns_fl true d12_cfg (fresh false) d12_history) = [false; false].
Proof. split; [reflexivity|exact stale_flags_leak]. Qed.

(* The flags are sound for the channel: isSecure left true by a connection means that THIS
   connection's handshake and verification went through and TLS was written on; after a successful
   negotiation Session.TlsEnabled says exactly whether the session runs over TLS. *)
Theorem C04_flags_sound : forall cfg tls p s,
  let x := connect cfg true tls p s in
  stale_secure (fst (fst x)) (snd x) = false /\
  (snd (fst x) = Ok -> p_tls_enabled (snd x) = existsb o_tls (fst (fst x))) /\
  (p_code_secure (snd x) = true -> tls = true).
Proof. exact connect_flags_sound. Qed.

(* "never over TLS when the server certificate does not validate for the configured domain (unless
   certificate verification was explicitly disabled)": the outcome of StartTLS is the decision of
   Model/TlsPolicy.start_tls (ServerName defaulting to the domain, handshake, then
   VerifyHostname(Domain) unless InsecureSkipVerify).  Anything written inside TLS implies
   InsecureSkipVerify, or a trusted unexpired chain AND a certificate valid for the configured
   domain (and for ServerName when one is set). *)
Theorem C04_verified_for_domain : forall cfg dial t c p s,
  Exists (fun x => o_tls x = true) (fst (fst (connect cfg dial (start_tls t c) p s))) ->
  t_skip t = true \/
  (c_trusted c = true /\ valid_for c (t_domain t) = true /\
   valid_for c (match t_servername t with [] => t_domain t | n => n end) = true).
Proof. exact connect_verified_for_domain. Qed.

(* Whether crypto/tls RESUMED a session of an earlier connection of the client (ClientSessionCache; the
   session is cached at handshake time, also when the domain check then refused the certificate) does
   not matter to the outcome of StartTLS: the domain check runs on every connection ... *)
Theorem C04_resumed_session_irrelevant : forall t c resumed, start_tls_r t c resumed = start_tls t c.
Proof. exact start_tls_resumed_irrelevant. Qed.

(* ... and it must: a StartTLS that trusts a resumed session accepts, on the second connection, a
   certificate that is valid for ServerName only. *)
Theorem C04_skip_on_resume_refuted :
  exists t c, t_skip t = false /\ valid_for c (t_domain t) = false /\
              start_tls_on true t c false = false /\ start_tls_on true t c true = true.
Proof. exact start_tls_skip_on_resume_refuted. Qed.

(* STARTTLS not offered / <failure/> / garbage / close / failed handshake, with Insecure = false:
   no success and no authentication request at all ... *)
Theorem C04_starttls_replies : forall cfg dial tls p script,
  c_insecure cfg = false ->
  (forall id f id1 f1 s5, script = SHeader id :: SFeatures f :: SProceed :: SHeader id1 :: SFeatures f1 :: s5 ->
                          f_tls f = TlsNone \/ tls = false) ->
  res (connect cfg dial tls p script) <> Ok /\
  forall m, ~ In (RAuth m) (reqs (outs (connect cfg dial tls p script))).
Proof. exact starttls_replies. Qed.

(* ... and the error is a permanent ConnError whenever it is a matter of policy: the feature is
   absent, the server answered something else than <proceed/> (the connection being still there), or
   the handshake / the certificate was not accepted. *)
Theorem C04_starttls_refusals_permanent : forall cfg tls p id f s2,
  c_insecure cfg = false ->
  f_tls f = TlsNone \/
  (f_tls f <> TlsNone /\ read_proceed s2 = None /\ is_cut s2 = false) \/
  (f_tls f <> TlsNone /\ read_proceed s2 <> None /\ tls = false) ->
  snd (fst (connect cfg true tls p (SHeader id :: SFeatures f :: s2))) = Err true true.
Proof. exact starttls_refusals_permanent. Qed.

(* What the APPLICATION sends (Client.Send / SendRaw / SendIQ and the stream-management resend all end
   in sendWithWriter, behind the send gate of Model/Gate.v), from any goroutine, at any moment of any
   history of connections on one Client -- while connect() is negotiating on the new clear-text
   connection, after it failed, after it succeeded: with Insecure = false nothing is ever written on
   a connection that is not TLS (g_tls is the ghost state of the real channel, fed by the requests
   of Session.connect).  [g]: the gate as earlier connections left it; a new Client is gate0. *)
Theorem C04_sends_gated : forall cfg p g cs,
  c_insecure cfg = false ->
  (g_closed g = false -> g_conn g = true -> g_tls g = true) ->
  Forall (Forall (fun r => r <> Written false)) (gate_conns cfg p g cs).
Proof. intros cfg p g cs Hi Hg. apply gate_conns_no_clear; assumption. Qed.

(* ... and whatever Insecure says, a send or a stream-management retransmission (GResend: an <a h/>
   routed late, or SendMissingStz called by the application) made while a connection attempt runs is
   refused, as are those made after the attempt failed (the transport still holds that connection). *)
Theorem C04_no_send_while_connecting : forall dial w r pl g,
  exists meanwhile later,
    snd (grun g (conn_trace dial w r pl)) = meanwhile ++ later /\
    Forall (fun x => x = Refused) meanwhile /\ length later = (pl_after pl + pl_rafter pl)%nat /\
    (r <> Ok -> Forall (fun x => x = Refused) later).
Proof. intros. apply conn_trace_during_refused. Qed.

(* No held stanza is written while the gate is closed: the retransmission passes the same gate as
   every other write of the application (C04_sends_gated and C04_no_send_while_connecting speak about
   both kinds of writes in whole histories; this is the single step). *)
Theorem C04_resend_gated : forall g,
  g_closed g = true -> gstep g GResend = (g, [Refused]) /\ gstep g GSend = (g, [Refused]).
Proof. intros g Hc. split; [apply gstep_resend_closed; exact Hc|cbn; rewrite Hc; reflexivity]. Qed.

(* Writers in flight (Gate.gstep2): a send is not atomic -- gate check, write on whatever connection the
   transport holds at the time of the write, release.  For EVERY interleaving of senders entering and
   leaving, retransmissions, and connection attempts that the read/write lock permits, from a new
   Client, with Insecure = false: nothing is ever written on a connection that is not TLS ... *)
Theorem C04_inflight_writes_safe : forall es s rs,
  grun2 false true gate2_0 es = Some (s, rs) -> Forall (fun r => r <> Written false) rs.
Proof. intros es s rs H. exact (proj2 (grun2_safe es _ _ _ gate2_0_inv H)). Qed.

(* ... because the dial of connect() happens only when every write in flight has returned ... *)
Theorem C04_dial_after_inflight_writes : forall insecure s d x,
  gstep2 insecure true s (GE (GBegin d)) = Some x -> h_inflight s = 0%nat.
Proof. exact dial_after_writes. Qed.

(* ... and with the lock released right after the check it is false: a sender that passed the gate on
   a TLS session is overtaken by the reconnection and writes on its new clear-text connection; the
   lock does not permit that interleaving. *)
Theorem C04_lock_released_early_refuted :
  option_map snd (grun2 false false gate2_0 overtaken_trace) = Some [Written false] /\
  grun2 false true gate2_0 overtaken_trace = None.
Proof. exact lock_released_early_refuted. Qed.

(* WebSocket transport (the opening handshake may be answered by redirects; TLS is that of the https
   requests, under the TLS configuration of the application: handshake_ok with the host of the URL in
   the place of the domain).  Authentication data is written only if the application allowed
   insecure connections, or: the CONFIGURED address is a wss:// one, every URL of the redirect chain
   is https, the connection is TLS, and the certificate was accepted under the application's
   configuration (its roots; ServerName or the host of the URL) unless it disabled verification.  In
   particular a ws:// address redirected to https:// does not count as secure: whoever answered the
   clear-text handshake chose the host. *)
Theorem C04_ws_credentials : forall insecure t c addr redirects b,
  ws_connect insecure (handshake_ok t c) addr redirects = WAuth b ->
  insecure = true \/
  (addr = Https /\ Forall (fun x => x = Https) redirects /\ b = true /\
   (t_skip t = true \/
    (c_trusted c = true /\ valid_for c (match t_servername t with [] => t_domain t | n => n end) = true))).
Proof.
  intros insecure t c addr redirects b H. apply ws_connect_credentials in H as [H|(H1 & H2 & H3 & H4)]; [left; exact H|].
  right. repeat split; try assumption. apply handshake_ok_sound; exact H3.
Qed.

(* Whatever Insecure says: what is written over TLS went to an endpoint whose certificate was accepted
   under the application's configuration. *)
Theorem C04_ws_tls_verified : forall insecure t c addr redirects,
  ws_connect insecure (handshake_ok t c) addr redirects = WAuth true ->
  t_skip t = true \/
  (c_trusted c = true /\ valid_for c (match t_servername t with [] => t_domain t | n => n end) = true).
Proof. intros insecure t c addr redirects H. apply handshake_ok_sound. eapply ws_connect_tls_verified; exact H. Qed.

Theorem C04_ws_redirects_never_leave_tls : forall ok cur redirects n s,
  ws_dial ok cur redirects n = Some s -> cur = Https \/ In Https redirects -> s = Https.
Proof. intros ok cur redirects n s. apply ws_dial_no_downgrade. Qed.

(* hypotheses are satisfiable, and the flags matter: the second connection of a history whose first
   one ran over TLS, from the state that connection left (isSecure, TlsEnabled = true): with the
   resets nothing but the header and <starttls/> is written; without them the request after the
   header is the authentication, in clear text *)
Example C04_example :
  let f0 := {| f_tls := TlsNone; f_mechs := [mech_plain]; f_bind := false; f_sess := SessAbsent; f_sm := false |} in
  let cfg := {| c_insecure := false; c_resource := []; c_sm_resume := false; c_mechs := [mech_plain] |} in
  let p := set_flags (with_session (fresh false)) true true in
  let script := [SHeader []; SFeatures f0; SHeader []; SFeatures f0; SSuccess] in
  reqs (fst (fst (connect_fl true cfg true false p script))) = [ROpen] /\
  reqs (fst (fst (connect_fl false cfg true false p script))) = [ROpen; ROpen; RAuth mech_plain; ROpen].
Proof. split; reflexivity. Qed.

(* the certificate decision on the four kinds of certificate of the harness, ServerName unset / set *)
Example C04_cert_example :
  let dom := s_ [120]%Z in let other := s_ [121]%Z in
  let t := {| t_skip := false; t_servername := []; t_domain := dom |} in
  let tsn := {| t_skip := false; t_servername := other; t_domain := dom |} in
  start_tls t {| c_trusted := true; c_names := [dom] |} = true /\
  start_tls t {| c_trusted := true; c_names := [other] |} = false /\
  start_tls t {| c_trusted := false; c_names := [dom] |} = false /\
  start_tls tsn {| c_trusted := true; c_names := [other] |} = false /\      (* valid for ServerName only *)
  start_tls tsn {| c_trusted := true; c_names := [dom] |} = false /\        (* valid for Domain only *)
  start_tls tsn {| c_trusted := true; c_names := [dom; other] |} = true /\
  start_tls {| t_skip := true; t_servername := []; t_domain := dom |} {| c_trusted := false; c_names := [] |} = true.
Proof. repeat split. Qed.

(* a Client that lost a TLS session and reconnects; the peer withholds <proceed/>; two sends and a
   retransmission arrive meanwhile (after the client's second request), one of each after the attempt
   failed: all refused; on the first connection the send and the retransmission after the negotiation
   went out inside TLS *)
Example C04_gate_example :
  let f0 := {| f_tls := TlsOffered; f_mechs := [mech_plain]; f_bind := true; f_sess := SessAbsent; f_sm := false |} in
  let f1 := {| f_tls := TlsNone; f_mechs := [mech_plain]; f_bind := true; f_sess := SessAbsent; f_sm := false |} in
  let cfg := {| c_insecure := false; c_resource := []; c_sm_resume := false; c_mechs := [mech_plain] |} in
  let good := [SHeader []; SFeatures f0; SProceed; SHeader []; SFeatures f1; SSuccess; SHeader []; SFeatures f1;
               SIq TResult (PlBind []) false] in
  gate_conns cfg (fresh false) gate0
    [({| k_dial := true; k_tls := true; k_script := good; k_traffic := 0 |}, {| pl_during := []; pl_after := 1%nat; pl_rduring := []; pl_rafter := 1%nat |});
     ({| k_dial := true; k_tls := true; k_script := [SHeader []; SFeatures f0]; k_traffic := 0 |},
      {| pl_during := [2; 2]%nat; pl_after := 1%nat; pl_rduring := [2]%nat; pl_rafter := 1%nat |})]
  = [[Written true; Written true]; [Refused; Refused; Refused; Refused; Refused]].
Proof. reflexivity. Qed.

Example C04_ws_example :
  ws_connect false true Https [Http] = WDialError /\ ws_connect false true Https [Https] = WAuth true /\
  ws_connect false true Http [] = WNoTls /\ ws_connect true true Http [] = WAuth false /\
  ws_connect true true Https [Https; Http] = WDialError /\
  ws_connect false true Http [Https] = WNoTls /\      (* redirected to https by a clear-text answer: not secure *)
  ws_connect true true Http [Https] = WAuth true /\
  ws_connect false false Https [] = WDialError.        (* certificate not accepted under the configuration *)
Proof. repeat split. Qed.

Print Assumptions C04_flag_model_is_session_model.
Print Assumptions C04_gate_by_flags.
Print Assumptions C04_no_cleartext.
Print Assumptions C04_stale_flags_refuted.
Print Assumptions C04_flags_sound.
Print Assumptions C04_verified_for_domain.
Print Assumptions C04_resumed_session_irrelevant.
Print Assumptions C04_skip_on_resume_refuted.
Print Assumptions C04_inflight_writes_safe.
Print Assumptions C04_dial_after_inflight_writes.
Print Assumptions C04_lock_released_early_refuted.
Print Assumptions C04_starttls_replies.
Print Assumptions C04_starttls_refusals_permanent.
Print Assumptions C04_sends_gated.
Print Assumptions C04_no_send_while_connecting.
Print Assumptions C04_resend_gated.
Print Assumptions C04_ws_credentials.
Print Assumptions C04_ws_tls_verified.
Print Assumptions C04_ws_redirects_never_leave_tls.
