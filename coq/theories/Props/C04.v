(* C04 — no credentials or stanzas without verified TLS unless Insecure is set.
   [o_tls] is a ghost flag: the state of the real channel when the request was
   written (reset by every new TCP connection, set only by a successful handshake
   with verification); the code's own flags (XMPPTransport.isSecure,
   Session.TlsEnabled) are separate fields of [persist] that survive reconnects. *)
From Coq Require Import List ZArith NArith Bool.
From XV Require Import Lib.Sx Model.Session Model.SessionSpec Proofs.SessionP Proofs.SessionSpecP.
Import ListNotations.

(* For every history of connections (any scripts, any TLS outcomes, any state left
   by earlier connections): with Insecure = false everything written outside TLS is
   a stream header or <starttls/>. *)
Theorem C04_no_cleartext : forall cfg p conns,
  c_insecure cfg = false ->
  Forall (fun wrp => Forall (fun x => o_tls x = false -> clear_ok (o_req x) = true) (fst (fst wrp)))
         (run_conns cfg p conns).
Proof. intros cfg p conns. apply run_conns_no_cleartext. Qed.

(* Anything written inside TLS implies that the handshake including certificate and
   host-name verification succeeded (tls_ok is that oracle). *)
Theorem C04_no_unverified : forall cfg dial tls p script,
  Exists (fun x => o_tls x = true) (outs (connect cfg dial tls p script)) -> tls = true.
Proof. intros cfg dial tls p script. apply connect_tls_verified. Qed.

(* STARTTLS not offered / <failure/> / garbage / close / failed handshake, with
   Insecure = false: error, permanent, and no authentication request at all. *)
Theorem C04_starttls_replies : forall cfg dial tls p script,
  c_insecure cfg = false ->
  (forall id f id1 f1 s5, script = SHeader id :: SFeatures f :: SProceed :: SHeader id1 :: SFeatures f1 :: s5 ->
                          f_tls f = TlsNone \/ tls = false) ->
  res (connect cfg dial tls p script) <> Ok /\
  forall m, ~ In (RAuth m) (reqs (outs (connect cfg dial tls p script))).
Proof.
  intros cfg dial tls p script Hi Hs. split.
  - intros H. apply connect_ok in H. destruct H as (_ & id & f & s2 & -> & H).
    destruct (f_tls f) eqn:Et.
    + destruct H as [H _]. congruence.
    + destruct H as (Ht & id1 & f1 & s5 & -> & _). destruct (Hs _ _ _ _ _ eq_refl); congruence.
    + destruct H as (Ht & id1 & f1 & s5 & -> & _). destruct (Hs _ _ _ _ _ eq_refl); congruence.
  - intros m Hin.
    pose proof (connect_no_cleartext cfg dial tls p script Hi) as Hc.
    pose proof (connect_tls_verified cfg dial tls p script) as Hv.
    unfold reqs, outs in *. apply in_map_iff in Hin as (x & Hx & Hin).
    rewrite Forall_forall in Hc. specialize (Hc x Hin).
    destruct (o_tls x) eqn:Ex.
    + (* written inside TLS: then the script had the whole STARTTLS exchange and tls = true *)
      assert (Ht : tls = true). { apply Hv. apply Exists_exists. exists x. split; assumption. }
      revert Hin. unfold connect. destruct (negb dial); [intros []|].
      destruct script as [|[] s1]; try (intros [H|[]]; subst; discriminate).
      destruct s1 as [|[] s2]; try (intros [H|[]]; subst; discriminate).
      cbn [read_header read_features]. rewrite Hi.
      destruct (f_tls f) eqn:Et; [intros [H|[]]; subst; discriminate| |].
      all: destruct s2 as [|[] s3]; try (intros [H|[H|[]]]; subst; discriminate).
      all: cbn [read_proceed]; rewrite Ht.
      all: destruct s3 as [|[] s4]; try (intros [H|[H|[H|[]]]]; subst; discriminate).
      all: cbn [read_header]; destruct s4 as [|[] s5]; try (intros [H|[H|[H|[]]]]; subst; discriminate).
      all: destruct (Hs _ _ _ _ _ eq_refl); congruence.
    + rewrite Hx in Hc. specialize (Hc eq_refl). discriminate.
Qed.

Example C04_example :
  let f0 := {| f_tls := TlsOffered; f_mechs := [mech_plain]; f_bind := false; f_sess := SessAbsent; f_sm := false |} in
  let cfg := {| c_insecure := false; c_resource := []; c_sm_resume := false; c_mechs := [mech_plain] |} in
  (* second connection of a history whose first one ran over TLS: the stale flags are reset *)
  let p := set_flags (with_session (fresh false)) true true in
  outs (connect cfg true false p [SHeader []; SFeatures f0; SProceed; SHeader []; SFeatures f0; SSuccess])
  = [o false ROpen []; o false RStartTls [SHeader []; SFeatures f0]].
Proof. reflexivity. Qed.

Print Assumptions C04_no_cleartext.
Print Assumptions C04_no_unverified.
Print Assumptions C04_starttls_replies.
