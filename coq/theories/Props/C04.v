(* C04 — no credentials or stanzas without verified TLS unless Insecure is set.
   [o_tls] is a ghost flag: the state of the real channel when the request was
   written (reset by every new TCP connection, set only by a successful handshake
   with verification); the code's own flags (XMPPTransport.isSecure,
   Session.TlsEnabled) are separate fields of [persist] that survive reconnects. *)
From Coq Require Import List ZArith NArith Bool.
From XV Require Import Lib.Sx Model.Session Model.SessionSpec Proofs.SessionP Proofs.SessionSpecP.
From XV Require Import Model.Gate Proofs.GateP.
Import ListNotations.

(* For every history of connections (any scripts, any TLS outcomes, any state left
   by earlier connections): with Insecure = false everything written outside TLS is
   a stream header or <starttls/>. *)
Theorem C04_no_cleartext : forall cfg p conns,
  c_insecure cfg = false ->
  Forall (fun wrp => Forall (fun x => o_tls x = false -> clear_ok (o_req x) = true) (fst (fst wrp)))
         (run_conns cfg p conns).
Proof. intros cfg p conns. apply run_conns_no_cleartext. Qed.

(* Anything written inside TLS implies that the handshake including certificate and
   host-name verification succeeded (tls_ok is that oracle). *)
Theorem C04_no_unverified : forall cfg dial tls p script,
  Exists (fun x => o_tls x = true) (outs (connect cfg dial tls p script)) -> tls = true.
Proof. intros cfg dial tls p script. apply connect_tls_verified. Qed.

(* STARTTLS not offered / <failure/> / garbage / close / failed handshake, with
   Insecure = false: error, permanent, and no authentication request at all. *)
Theorem C04_starttls_replies : forall cfg dial tls p script,
  c_insecure cfg = false ->
  (forall id f id1 f1 s5, script = SHeader id :: SFeatures f :: SProceed :: SHeader id1 :: SFeatures f1 :: s5 ->
                          f_tls f = TlsNone \/ tls = false) ->
  res (connect cfg dial tls p script) <> Ok /\
  forall m, ~ In (RAuth m) (reqs (outs (connect cfg dial tls p script))).
Proof.
  intros cfg dial tls p script Hi Hs. split.
  - intros H. apply connect_ok in H. destruct H as (_ & id & f & s2 & -> & H).
    destruct (f_tls f) eqn:Et.
    + destruct H as [H _]. congruence.
    + destruct H as (Ht & id1 & f1 & s5 & -> & _). destruct (Hs _ _ _ _ _ eq_refl); congruence.
    + destruct H as (Ht & id1 & f1 & s5 & -> & _). destruct (Hs _ _ _ _ _ eq_refl); congruence.
  - intros m Hin.
    pose proof (connect_no_cleartext cfg dial tls p script Hi) as Hc.
    pose proof (connect_tls_verified cfg dial tls p script) as Hv.
    unfold reqs, outs in *. apply in_map_iff in Hin as (x & Hx & Hin).
    rewrite Forall_forall in Hc. specialize (Hc x Hin).
    destruct (o_tls x) eqn:Ex.
    + (* written inside TLS: then the script had the whole STARTTLS exchange and tls = true *)
      assert (Ht : tls = true). { apply Hv. apply Exists_exists. exists x. split; assumption. }
      revert Hin. unfold connect. destruct (negb dial); [intros []|].
      destruct script as [|[] s1]; try (intros [H|[]]; subst; discriminate).
      destruct s1 as [|[] s2]; try (intros [H|[]]; subst; discriminate).
      cbn [read_header read_features]. rewrite Hi.
      destruct (f_tls f) eqn:Et; [intros [H|[]]; subst; discriminate| |].
      all: destruct s2 as [|[] s3]; try (intros [H|[H|[]]]; subst; discriminate).
      all: cbn [read_proceed]; rewrite Ht.
      all: destruct s3 as [|[] s4]; try (intros [H|[H|[H|[]]]]; subst; discriminate).
      all: cbn [read_header]; destruct s4 as [|[] s5]; try (intros [H|[H|[H|[]]]]; subst; discriminate).
      all: destruct (Hs _ _ _ _ _ eq_refl); congruence.
    + rewrite Hx in Hc. specialize (Hc eq_refl). discriminate.
Qed.

(* What the APPLICATION sends (Client.Send / SendRaw / SendIQ and the stream-management resend all end
   in sendWithWriter, behind the send gate of Model/Gate.v), from any goroutine, at any moment of any
   history of connections on one Client -- while connect() is negotiating on the new clear-text
   connection, after it failed, after it succeeded: with Insecure = false nothing is ever written on
   a connection that is not TLS (g_tls is the ghost state of the real channel, fed by the requests
   of Session.connect).  [g]: the gate as earlier connections left it; a new Client is gate0. *)
Theorem C04_sends_gated : forall cfg p g cs,
  c_insecure cfg = false ->
  (g_closed g = false -> g_conn g = true -> g_tls g = true) ->
  Forall (Forall (fun r => r <> Written false)) (gate_conns cfg p g cs).
Proof. intros cfg p g cs Hi Hg. apply gate_conns_no_clear; assumption. Qed.

(* ... and whatever Insecure says, a send or a stream-management retransmission (GResend: an <a h/>
   routed late, or SendMissingStz called by the application) made while a connection attempt runs is
   refused, as are those made after the attempt failed (the transport still holds that connection). *)
Theorem C04_no_send_while_connecting : forall dial w r pl g,
  exists meanwhile later,
    snd (grun g (conn_trace dial w r pl)) = meanwhile ++ later /\
    Forall (fun x => x = Refused) meanwhile /\ length later = (pl_after pl + pl_rafter pl)%nat /\
    (r <> Ok -> Forall (fun x => x = Refused) later).
Proof. intros. apply conn_trace_during_refused. Qed.

(* No held stanza is written while the gate is closed: the retransmission passes the same gate as
   every other write of the application (C04_sends_gated and C04_no_send_while_connecting speak about
   both kinds of writes in whole histories; this is the single step). *)
Theorem C04_resend_gated : forall g,
  g_closed g = true -> gstep g GResend = (g, [Refused]) /\ gstep g GSend = (g, [Refused]).
Proof. intros g Hc. split; [apply gstep_resend_closed; exact Hc|cbn; rewrite Hc; reflexivity]. Qed.

(* WebSocket transport: authentication data is written only when the connection the opening
   handshake ENDED on is TLS (unless Insecure); a wss:// address never ends on a clear-text
   connection, whatever redirects the HTTP endpoint answers with. *)
Theorem C04_ws_auth_only_over_tls : forall addr redirects b,
  ws_connect false addr redirects = WAuth b -> b = true.
Proof. intros addr redirects b. apply ws_connect_auth_tls. reflexivity. Qed.

Theorem C04_wss_never_downgraded : forall insecure redirects,
  ws_connect insecure Https redirects <> WAuth false.
Proof. exact ws_connect_wss_never_clear. Qed.

Theorem C04_ws_redirects_never_leave_tls : forall cur redirects n s,
  ws_dial cur redirects n = Some s -> cur = Https \/ In Https redirects -> s = Https.
Proof. intros cur redirects n s. apply ws_dial_no_downgrade. Qed.

Example C04_example :
  let f0 := {| f_tls := TlsOffered; f_mechs := [mech_plain]; f_bind := false; f_sess := SessAbsent; f_sm := false |} in
  let cfg := {| c_insecure := false; c_resource := []; c_sm_resume := false; c_mechs := [mech_plain] |} in
  (* second connection of a history whose first one ran over TLS: the stale flags are reset *)
  let p := set_flags (with_session (fresh false)) true true in
  outs (connect cfg true false p [SHeader []; SFeatures f0; SProceed; SHeader []; SFeatures f0; SSuccess])
  = [o false ROpen []; o false RStartTls [SHeader []; SFeatures f0]].
Proof. reflexivity. Qed.

(* a Client that lost a TLS session and reconnects; the peer withholds <proceed/>; two sends and a
   retransmission arrive meanwhile (after the client's second request), one of each after the attempt
   failed: all refused; on the first connection the send and the retransmission after the negotiation
   went out inside TLS *)
Example C04_gate_example :
  let f0 := {| f_tls := TlsOffered; f_mechs := [mech_plain]; f_bind := true; f_sess := SessAbsent; f_sm := false |} in
  let f1 := {| f_tls := TlsNone; f_mechs := [mech_plain]; f_bind := true; f_sess := SessAbsent; f_sm := false |} in
  let cfg := {| c_insecure := false; c_resource := []; c_sm_resume := false; c_mechs := [mech_plain] |} in
  let good := [SHeader []; SFeatures f0; SProceed; SHeader []; SFeatures f1; SSuccess; SHeader []; SFeatures f1;
               SIq TResult (PlBind []) false] in
  gate_conns cfg (fresh false) gate0
    [({| k_dial := true; k_tls := true; k_script := good; k_traffic := 0 |}, {| pl_during := []; pl_after := 1%nat; pl_rduring := []; pl_rafter := 1%nat |});
     ({| k_dial := true; k_tls := true; k_script := [SHeader []; SFeatures f0]; k_traffic := 0 |},
      {| pl_during := [2; 2]%nat; pl_after := 1%nat; pl_rduring := [2]%nat; pl_rafter := 1%nat |})]
  = [[Written true; Written true]; [Refused; Refused; Refused; Refused; Refused]].
Proof. reflexivity. Qed.

Example C04_ws_example :
  ws_connect false Https [Http] = WDialError /\ ws_connect false Https [Https] = WAuth true /\
  ws_connect false Http [] = WNoTls /\ ws_connect true Http [] = WAuth false /\
  ws_connect true Https [Https; Http] = WDialError.
Proof. repeat split. Qed.

Print Assumptions C04_no_cleartext.
Print Assumptions C04_no_unverified.
Print Assumptions C04_starttls_replies.
Print Assumptions C04_sends_gated.
Print Assumptions C04_no_send_while_connecting.
Print Assumptions C04_resend_gated.
Print Assumptions C04_ws_auth_only_over_tls.
Print Assumptions C04_wss_never_downgraded.
Print Assumptions C04_ws_redirects_never_leave_tls.
