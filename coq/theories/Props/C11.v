(* C11 — stream management: resume only with the previous id and count; drop stale state. *)
From Coq Require Import List ZArith NArith Bool.
From XV Require Import Lib.Sx Model.Session Model.SessionSpec Proofs.SessionP Proofs.SessionSpecP.
Import ListNotations.
Open Scope N_scope.

(* Any <resume/> the client sends on a connection carries exactly the id stored from
   the last <enabled/> and the current inbound count, and is never sent without an id. *)
Theorem C11_resume_content : forall cfg dial tls p script prev h,
  In (RResume prev h) (reqs (outs (connect cfg dial tls p script))) ->
  prev = p_sm_id p /\ h = p_inbound p /\ p_sm_id p <> [].
Proof. exact connect_resume_content. Qed.

(* the server confirms that id: the session continues without a new bind and keeps
   identity, counters and held stanzas (the persistent state is untouched) *)
Theorem C11_resumed_continues : forall cfg c p f rest sn,
  f_sm f = true -> has_id p = true ->
  step_resume cfg c p f (SResumed (p_sm_id p) :: rest) sn
  = ([o c (RResume (p_sm_id p) (p_inbound p)) sn], Ok, p).
Proof. exact resumed_continues. Qed.

(* the server refuses: the stale state is discarded and a bind request follows, always *)
Theorem C11_refused_binds_fresh : forall cfg c p f s1 sn,
  f_sm f = true -> has_id p = true ->
  step_resume cfg c p f (SFailed :: s1) sn
  = (let '(w, r, p2) := step_bind cfg c (clear_sm p) f s1 [SFailed] in
     (o c (RResume (p_sm_id p) (p_inbound p)) sn :: w, r, p2))
  /\ exists w', reqs (outs (step_bind cfg c (clear_sm p) f s1 [SFailed]))
               = RBind (c_resource cfg) (p_packet_id p + 1) :: w'.
Proof. exact refused_binds. Qed.

(* another id, an unexpected element, malformed XML or a closed stream: the state is
   discarded and the connection fails; the old session is never continued *)
Theorem C11_other_reply_discards : forall cfg c p f s sn,
  f_sm f = true -> has_id p = true ->
  (forall rest, s <> SResumed (p_sm_id p) :: rest) -> (forall s1, s <> SFailed :: s1) ->
  exists w cp, step_resume cfg c p f s sn = (w, Err false false, clear_sm p) /\
               cp = clear_sm p /\ p_sm_id cp = [].
Proof. exact other_reply_discards. Qed.

(* a stream on which the server does not offer stream management at all: nothing can be
   resumed there, a new session is bound, and the state held from the earlier session is
   discarded (stanzas of the new, unmanaged session are never counted into it, and the old
   id is never presented again: C11_stale_never_again) *)
Theorem C11_not_offered_discards : forall cfg c p f s sn,
  f_sm f = false ->
  step_resume cfg c p f s sn = step_bind cfg c (clear_sm p) f s sn.
Proof. intros cfg c p f s sn H. unfold step_resume. rewrite H. reflexivity. Qed.

(* once discarded the id is gone: with an empty stored id no connection, whatever the
   server says, contains a <resume/> (so a stale id is never presented again; a new
   id can only come from a new <enabled/>: enable_sm_id) *)
Theorem C11_stale_never_again : forall cfg dial tls p script prev h,
  p_sm_id p = [] -> ~ In (RResume prev h) (reqs (outs (connect cfg dial tls p script))).
Proof.
  intros cfg dial tls p script prev h He Hin.
  apply connect_resume_content in Hin as (_ & _ & Hne). contradiction.
Qed.

Theorem C11_new_id_only_from_enabled : forall cfg c p f s sn,
  let q := pst (step_enable cfg c p f s sn) in
  p_sm_id q = p_sm_id p \/ p_sm_id q = [] \/ exists r, In (SEnabled (p_sm_id q) r) s.
Proof. exact enable_sm_id. Qed.

(* a history: enable, lose the connection after 3 stanzas, resume with h = 3 *)
Example C11_example :
  let f1 := {| f_tls := TlsNone; f_mechs := [mech_plain]; f_bind := false; f_sess := SessAbsent; f_sm := false |} in
  let f2 := {| f_tls := TlsNone; f_mechs := []; f_bind := true; f_sess := SessAbsent; f_sm := true |} in
  let cfg := {| c_insecure := true; c_resource := []; c_sm_resume := true; c_mechs := [mech_plain] |} in
  let c1 := {| k_dial := true; k_tls := false; k_traffic := 3;
               k_script := [SHeader []; SFeatures f1; SSuccess; SHeader []; SFeatures f2;
                            SIq TResult (PlBind [1]) false; SEnabled [9] ResTrue] |} in
  let c2 := {| k_dial := true; k_tls := false; k_traffic := 0;
               k_script := [SHeader []; SFeatures f1; SSuccess; SHeader []; SFeatures f2; SResumed [9]] |} in
  map (fun x => (reqs (fst (fst x)), snd (fst x))) (run_conns cfg (fresh true) [c1; c2])
  = [([ROpen; RAuth mech_plain; ROpen; RBind [] 1; REnable true], Ok);
     ([ROpen; RAuth mech_plain; ROpen; RResume [9] 3], Ok)].
Proof. reflexivity. Qed.

Print Assumptions C11_resume_content.
Print Assumptions C11_resumed_continues.
Print Assumptions C11_refused_binds_fresh.
Print Assumptions C11_other_reply_discards.
Print Assumptions C11_not_offered_discards.
Print Assumptions C11_stale_never_again.
Print Assumptions C11_new_id_only_from_enabled.
