(* C11 — stream management: resume only with the previous id and count; drop stale state. *)
From Coq Require Import List ZArith NArith Bool.
From XV Require Model.XmlText Model.Codec Model.XmlPrint Model.XmlLex Proofs.CodecP Gen.Generated.
From XV Require Import Lib.Sx Model.Session Model.SessionSpec Proofs.SessionP Proofs.SessionSpecP
  Proofs.SessionSmP Proofs.SessionHistP Proofs.SessionEvP.
Import ListNotations.
Open Scope N_scope.

(* Any <resume/> the client sends on a connection carries exactly the id stored from
   the last <enabled/> and the current inbound count, and is never sent without an id. *)
Theorem C11_resume_content : forall cfg dial tls p script prev h,
  In (RResume prev h) (reqs (outs (connect cfg dial tls p script))) ->
  prev = p_sm_id p /\ h = p_inbound p /\ p_sm_id p <> [].
Proof. exact connect_resume_content. Qed.

(* the server confirms that id: the session continues without a new bind and keeps
   identity, counters and held stanzas (the persistent state is untouched) *)
Theorem C11_resumed_continues : forall cfg c p f rest sn,
  f_sm f = true -> has_id p = true ->
  step_resume cfg c p f (SResumed (p_sm_id p) :: rest) sn
  = ([o c (RResume (p_sm_id p) (p_inbound p)) sn], Ok, p).
Proof. exact resumed_continues. Qed.

(* ... and so does the whole connection: a negotiation that succeeds without a bind request
   leaves everything the Client holds as it was - identity (bound JID), counters (inbound
   count, packet ids), held stanzas (the queue), the id - only the TLS flags of the new
   connection differ *)
Theorem C11_resumed_keeps_state : forall cfg dial tls p script,
  res (connect cfg dial tls p script) = Ok -> no_bind (outs (connect cfg dial tls p script)) ->
  exists sec tlsen, pst (connect cfg dial tls p script) = set_flags (with_session p) sec tlsen.
Proof. exact connect_resumed_state. Qed.

(* the server refuses: the stale state is discarded and a bind request follows, always *)
Theorem C11_refused_binds_fresh : forall cfg c p f s1 sn,
  f_sm f = true -> has_id p = true ->
  step_resume cfg c p f (SFailed :: s1) sn
  = (let '(w, r, p2) := step_bind cfg c (clear_sm p) f s1 [SFailed] in
     (o c (RResume (p_sm_id p) (p_inbound p)) sn :: w, r, p2))
  /\ exists w', reqs (outs (step_bind cfg c (clear_sm p) f s1 [SFailed]))
               = RBind (c_resource cfg) (p_packet_id p + 1) :: w'.
Proof. exact refused_binds. Qed.

(* ... and what the fresh session holds: no id, or an id this server issued in an <enabled/>
   AFTER the refusal (then the negotiation succeeded and a new queue exists); the count
   restarts at zero either way; the requests are <resume/> with the old id, then the bind *)
Theorem C11_refused_state : forall cfg c p f s1 sn,
  f_sm f = true -> has_id p = true ->
  let x := step_resume cfg c p f (SFailed :: s1) sn in
  (p_sm_id (pst x) = [] \/ issued s1 (p_sm_id (pst x)) /\ res x = Ok /\ p_has_queue (pst x) = true) /\
  p_inbound (pst x) = 0 /\
  exists w', reqs (outs x) = RResume (p_sm_id p) (p_inbound p) :: RBind (c_resource cfg) (p_packet_id p + 1) :: w'.
Proof. exact refused_state. Qed.

(* another id, an unexpected element, malformed XML or a closed stream - anything the server
   DOES answer: nothing but the <resume/> was written, the connection fails, and the state is
   discarded (no id, count zero, no queue: [clear_sm]); the old session is never continued *)
Theorem C11_other_reply_discards : forall cfg c p f s sn,
  f_sm f = true -> has_id p = true -> conn_lost s = false ->
  (forall rest, s <> SResumed (p_sm_id p) :: rest) -> (forall s1, s <> SFailed :: s1) ->
  step_resume cfg c p f s sn
  = ([o c (RResume (p_sm_id p) (p_inbound p)) sn], Err false false, clear_sm p).
Proof. exact other_reply_exact. Qed.

(* the connection goes away before any answer arrives (nothing more comes, or the connection
   is closed: [conn_lost]): the server has neither confirmed nor refused anything; the
   connection fails and everything held is exactly as before, so the next connection asks
   for the same session again (as for a <resume/> that could not be written) *)
Theorem C11_unanswered_keeps_state : forall cfg c p f s sn,
  f_sm f = true -> has_id p = true -> conn_lost s = true ->
  step_resume cfg c p f s sn
  = ([o c (RResume (p_sm_id p) (p_inbound p)) sn], Err false false, p).
Proof. exact unanswered_keeps. Qed.

(* the WRITE of <resume/> itself fails (the connection went away after the features were
   read: [step_resume_w true], Model/Session.v).  The server has seen nothing, so nothing is
   refused or confirmed: the negotiation ends there with an error, NO bind request is
   written on that stream, and everything held - id, count, queue, identity - is exactly as
   before, so a later connection may still resume that session.  (A write that does not
   fail, or a stream on which no <resume/> is due, is the ordinary step.) *)
Theorem C11_resume_write_failure : forall cfg c p f s sn,
  f_sm f = true -> has_id p = true ->
  step_resume_w true cfg c p f s sn = ([], Err false false, p).
Proof.
  intros cfg c p f s sn Hf Hi. unfold step_resume_w, resume_attempted, has_id in *. rewrite Hf, Hi. reflexivity.
Qed.

Theorem C11_resume_write_ok : forall cfg c p f s sn w,
  w = false \/ f_sm f = false \/ has_id p = false ->
  step_resume_w w cfg c p f s sn = step_resume cfg c p f s sn.
Proof.
  intros cfg c p f s sn w H. unfold step_resume_w, resume_attempted, has_id in *.
  destruct H as [-> |[-> | ->]]; [reflexivity|rewrite andb_false_r; reflexivity|rewrite !andb_false_r; reflexivity].
Qed.

(* a stream on which the server does not offer stream management at all: nothing can be
   resumed there, a new session is bound, and the state held from the earlier session is
   discarded (stanzas of the new, unmanaged session are never counted into it, and the old
   id is never presented again: C11_stale_never_again) *)
Theorem C11_not_offered_discards : forall cfg c p f s sn,
  f_sm f = false ->
  step_resume cfg c p f s sn = step_bind cfg c (clear_sm p) f s sn.
Proof. intros cfg c p f s sn H. unfold step_resume. rewrite H. reflexivity. Qed.

(* once discarded the id is gone: with an empty stored id no connection, whatever the
   server says, contains a <resume/> (so a stale id is never presented again; a new
   id can only come from a new <enabled/>: C11_connection_outcome) *)
Theorem C11_stale_never_again : forall cfg dial tls p script prev h,
  p_sm_id p = [] -> ~ In (RResume prev h) (reqs (outs (connect cfg dial tls p script))).
Proof.
  intros cfg dial tls p script prev h He Hin.
  apply connect_resume_content in Hin as (_ & _ & Hne). contradiction.
Qed.

(* ---- whole connections and histories ----
   What ONE connection, whatever the server does on it and whatever step it fails at, can
   have done to the resumption state ([sm_outcome], Model/SessionSpec.v):
   (A) nothing is held afterwards; or
   (B) a fresh session: the id is one this server handed out in an <enabled/> of this very
       connection, the count is zero, there is a new queue, a bind was made, <enable/> was
       sent and the negotiation succeeded; or
   (C) the state held before is kept (id, count, queue): then NO bind request was made, and
       if a <resume/> was sent at all, either the negotiation succeeded and the server's reply
       was <resumed/> with exactly the id held, or the negotiation failed because the
       connection went away before any reply arrived.
   In case (A), unless nothing was held before, the client had got as far as sending a
   <resume/> or a bind request on this connection.  So the old state survives a connection
   when nothing was asked (the negotiation failed before the resume step: refused dial,
   features that never arrive, TLS, authentication, stream restart - the Session object is
   kept through all of these), when the question got no answer, or when the server confirmed
   that very id; and it is lost only to an answer of the server. *)
Theorem C11_connection_outcome : forall cfg dial tls p script,
  let x := connect cfg dial tls p script in sm_outcome p script (outs x) (res x) (pst x).
Proof. exact connect_outcome. Qed.

(* ... for every connection of every history on one Client ([hist11]: the content of every
   <resume/>, and the outcome above, the state after one connection being the state before
   the next; failed attempts of any kind in between included) *)
Theorem C11_history : forall cfg cs p, hist11 p cs (run_conns cfg p cs).
Proof. intros cfg cs p. exact (run_conns_hist11 cfg cs p). Qed.

(* "the stale id is never presented again": connection i presented [id], the server answered
   (the connection was not cut where its answer was awaited) and the session was not continued
   (the negotiation failed, or a new session was bound).  Then [id] is not presented on any
   later connection j of the history - however many connections, refusals, failed attempts lie
   between - unless the SERVER itself issued that very string again in an <enabled/> on some
   connection k with i <= k < j. *)
Theorem C11_stale_never_presented_again : forall cfg cs p i j id h h' wi ri pi wj rj pj ci,
  nth_error (run_conns cfg p cs) i = Some (wi, ri, pi) -> In (RResume id h) (reqs wi) ->
  nth_error cs i = Some ci -> ~ unanswered (k_script ci) ->
  (ri <> Ok \/ has_bindb wi = true) ->
  (i < j)%nat ->
  nth_error (run_conns cfg p cs) j = Some (wj, rj, pj) -> In (RResume id h') (reqs wj) ->
  exists k c, (i <= k < j)%nat /\ nth_error cs k = Some c /\ issued (k_script c) id.
Proof. exact stale_not_presented_again. Qed.

(* What an <enabled/> does, whatever its resume attribute says (true, false, absent, garbage):
   the id is stored and stream management is on for this session.  An <enabled/> that does not
   grant resumption refuses RESUMPTION only: the client's wish for resumption is cleared (later
   <enable/> requests carry resume='false'), its wish for stream management is not - on
   record: a later connection therefore still presents that id in a <resume/>. *)
Theorem C11_enabled_stores_id : forall cfg c p f id r rest sn,
  f_sm f = true -> p_sm_enable p = true ->
  step_enable cfg c p f (SEnabled id r :: rest) sn
  = ([o c (REnable (resume_wish cfg p)) sn], Ok,
     set_sm p id (match r with ResTrue => p_resume_refused p | _ => true end)).
Proof.
  intros cfg c p f id r rest sn Hf Hp. unfold step_enable. rewrite Hf, Hp. reflexivity.
Qed.

(* ... and over a whole history on one Client, whatever the servers answered: the
   application's wish for stream management (Config.StreamManagementEnable) is still what it
   was - so every later stream that offers it is asked for <enable/> again
   (C03_requests_justified, C03_connect_ok_iff) - and the wish for resumption is only ever
   cleared, never set. *)
Theorem C11_stream_management_wish_kept : forall cfg cs p i x,
  nth_error (run_conns cfg p cs) i = Some x ->
  p_sm_enable (snd x) = p_sm_enable p /\
  (p_resume_refused p = true -> p_resume_refused (snd x) = true).
Proof. exact run_conns_wish. Qed.

(* a history: enable, lose the connection after 3 stanzas, resume with h = 3 *)
Example C11_example :
  let f1 := {| f_tls := TlsNone; f_mechs := [mech_plain]; f_bind := false; f_sess := SessAbsent; f_sm := false |} in
  let f2 := {| f_tls := TlsNone; f_mechs := []; f_bind := true; f_sess := SessAbsent; f_sm := true |} in
  let cfg := {| c_insecure := true; c_resource := []; c_sm_resume := true; c_mechs := [mech_plain] |} in
  let c1 := {| k_dial := true; k_tls := false; k_traffic := 3;
               k_script := [SHeader []; SFeatures f1; SSuccess; SHeader []; SFeatures f2;
                            SIq TResult (PlBind [1]) false; SEnabled [9] ResTrue] |} in
  let c2 := {| k_dial := true; k_tls := false; k_traffic := 0;
               k_script := [SHeader []; SFeatures f1; SSuccess; SHeader []; SFeatures f2; SResumed [9]] |} in
  map (fun x => (reqs (fst (fst x)), snd (fst x))) (run_conns cfg (fresh true) [c1; c2])
  = [([ROpen; RAuth mech_plain; ROpen; RBind [] 1; REnable true], Ok);
     ([ROpen; RAuth mech_plain; ROpen; RResume [9] 3], Ok)].
Proof. reflexivity. Qed.

(* a longer history: enable (id 9), a refused dial, features that never arrive, a rejected
   password, a connection cut while the answer to <resume/> is awaited (all keep the state), a resumption answered
   with ANOTHER id (state gone, connection fails), a fresh session (id 5), a refused resumption
   followed by a new session (id 6), a confirmed resumption of that one *)
Example C11_history_example :
  let f1 := {| f_tls := TlsNone; f_mechs := [mech_plain]; f_bind := false; f_sess := SessAbsent; f_sm := false |} in
  let f2 := {| f_tls := TlsNone; f_mechs := []; f_bind := true; f_sess := SessAbsent; f_sm := true |} in
  let cfg := {| c_insecure := true; c_resource := []; c_sm_resume := true; c_mechs := [mech_plain] |} in
  let hello := [SHeader []; SFeatures f1; SSuccess; SHeader []; SFeatures f2] in
  let k d s t := {| k_dial := d; k_tls := false; k_traffic := t; k_script := s |} in
  let bind := SIq TResult (PlBind [1]) false in
  let cs := [k true (hello ++ [bind; SEnabled [9] ResTrue]) 3;
             k false [] 0;
             k true [SHeader []] 0;
             k true [SHeader []; SFeatures f1; SSaslFailure] 0;
             k true hello 0;
             k true (hello ++ [SResumed [8]]) 0;
             k true (hello ++ [bind; SEnabled [5] ResTrue]) 2;
             k true (hello ++ [SFailed; bind; SEnabled [6] ResTrue]) 1;
             k true (hello ++ [SResumed [6]]) 0] in
  map (fun x => (filter (fun r => match r with RResume _ _ | RBind _ _ => true | _ => false end) (reqs (fst (fst x))),
                 snd (fst x), p_sm_id (snd x)))
      (run_conns cfg (fresh true) cs)
  = [([RBind [] 1], Ok, [9]); ([], Err true false, [9]); ([], Err true false, [9]); ([], Err true true, [9]);
     ([RResume [9] 3], Err false false, [9]); ([RResume [9] 3], Err false false, []); ([RBind [] 2], Ok, [5]);
     ([RResume [5] 2; RBind [] 3], Ok, [6]); ([RResume [6] 1], Ok, [6])].
Proof. reflexivity. Qed.

Print Assumptions C11_resume_content.
Print Assumptions C11_resumed_continues.
Print Assumptions C11_refused_binds_fresh.
Print Assumptions C11_resumed_keeps_state.
Print Assumptions C11_refused_state.
Print Assumptions C11_other_reply_discards.
Print Assumptions C11_unanswered_keeps_state.
Print Assumptions C11_resume_write_failure.
Print Assumptions C11_resume_write_ok.
Print Assumptions C11_not_offered_discards.
Print Assumptions C11_stale_never_again.
Print Assumptions C11_connection_outcome.
Print Assumptions C11_history.
Print Assumptions C11_stale_never_presented_again.
Print Assumptions C11_enabled_stores_id.
Print Assumptions C11_stream_management_wish_kept.

(* ---- the request on the wire (the written <resume/> is C01's encoding of the value:
   Model/Codec.v VSMResume, Model/XmlPrint.v; that the bytes Session.resume writes denote
   that element is the correspondence of this check, which reads them with an independent
   XML reader).  Whatever characters the id the server once handed out contains - quotes,
   apostrophes, ampersands, angle brackets, text that looks like an entity or character
   reference, white space, non-ASCII -: a reader of the written bytes recovers exactly that
   id and that count, so "the client asks to resume only with the id it obtained" holds on
   the wire and not only in the client's memory. ---- *)
Theorem C11_resume_on_the_wire : forall (reg : Codec.registry) (previd : str) (h : N),
  Codec.reg_ok reg = true -> XmlText.all_legal previd = true -> Codec.fits64 h = true ->
  exists t, XmlLex.parse (XmlPrint.print (Codec.enc (Codec.VSMResume previd (Some h)))) = Some t /\
            Codec.dec reg Codec.TSMResume t = Some (Codec.VSMResume previd (Some h)).
Proof.
  intros reg previd h Hreg Hid Hh.
  destruct (CodecP.roundtrip_wire reg (Codec.VSMResume previd (Some h)) Hreg) as [t [v' [Hp [Hd [Hv _]]]]].
  - cbn [Codec.wf_value Codec.opt_fits64]. rewrite Hid, Hh. reflexivity.
  - reflexivity.
  - exists t. split; [exact Hp|]. rewrite <- Hv. exact Hd.
Qed.

(* non-trivial instance: previd made of a, ampersand, l, t, semicolon, b, apostrophe, double quote, less-than, ampersand; h = 2^32 *)
Example C11_resume_on_the_wire_example :
  let id := [97; 38; 108; 116; 59; 98; 39; 34; 60; 38] in
  XmlText.all_legal id = true /\
  option_map (Codec.dec Generated.registry Codec.TSMResume)
    (XmlLex.parse (XmlPrint.print (Codec.enc (Codec.VSMResume id (Some 4294967296)))))
  = Some (Some (Codec.VSMResume id (Some 4294967296))).
Proof. vm_compute. split; reflexivity. Qed.

Print Assumptions C11_resume_on_the_wire.
