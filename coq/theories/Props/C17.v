(* C17 — the unacknowledged-stanza queue is a FIFO with increasing sequence numbers.
   Only statements, closed by [exact], with their assumptions printed.
   Histories range over the six calls of the property's text and over DropLast (the seventh mutator of
   the object, which Client.Send/SendRaw call when a write is refused).  A Push that is refused (a Queueable
   that is not an *UnAckedStz: QPushForeign) is part of the histories too: an error, the object unchanged.  Sequence numbers are unbounded
   integers here (Go: int, 2^63 - 1 stanzas on one session are out of reach). *)
From Coq Require Import List ZArith NArith Bool Sorted.
From XV Require Import Lib.Sx Model.Queue Proofs.QueueP.
Import ListNotations.
Open Scope Z_scope.

(* Every history over push/pop/pop-n k/peek/peek-n k/empty (k any integer) and DropLast, started
   on the empty queue, returns at every step what the reference FIFO returns and leaves the
   contents the reference FIFO has (DropLast on the reference: the newest entry is taken back). *)
Theorem C17_refines_fifo : forall ops : list qop,
  map (fun rq => (out_abs (fst rq), q_abs (snd rq))) (q_run q_init ops) = f_run [] ops.
Proof. intros ops. exact (run_refines ops q_init l_init init_L). Qed.

(* Peeks (and Empty) never modify the queue, ids included. *)
Theorem C17_peek_pure : forall st o, is_peek o = true -> fst (q_step st o) = st.
Proof. exact peek_pure. Qed.

(* After every step of every history the queued ids are strictly increasing
   from head to tail (head = oldest, by C17_refines_fifo). *)
Theorem C17_ids_increasing : forall ops : list qop,
  Forall (fun rq => StronglySorted Z.lt (map fst (snd rq))) (q_run q_init ops).
Proof. exact run_sorted_init. Qed.

(* In every reachable state the next push is numbered lastId + 1 and becomes the tail entry, also
   after pops emptied the queue and after an entry was taken back. *)
Theorem C17_numbering_continues : forall ops s,
  let st := q_exec q_init ops in
  push_id st = snd st + 1 /\ q_push st s = (fst st ++ [(snd st + 1, s)], snd st + 1).
Proof. exact numbering_continues. Qed.

(* "In insertion order": after every history the sequence number of an entry is its position (from 1)
   in the log of the payloads pushed and not taken back; the queue holds the part of the log that has
   not left at the head, and lastId is the length of the log. *)
Theorem C17_ids_are_positions : forall ops,
  let st := q_exec q_init ops in let s := l_exec l_init ops in
  fst st = numbered (Z.of_nat (snd s) + 1) (skipn (snd s) (fst s)) /\
  snd st = Z.of_nat (length (fst s)) /\ (snd s <= length (fst s))%nat.
Proof. exact ids_are_positions. Qed.

(* ... and lastId = number of pushes - number of DropLast calls that took an entry back *)
Theorem C17_ids_count : forall ops,
  snd (q_exec q_init ops) = Z.of_nat (n_pushes ops) - Z.of_nat (n_taken_back [] ops).
Proof. exact ids_count. Qed.

(* without DropLast the log is the list of pushed payloads: ids are 1, 2, 3, ... in push order *)
Theorem C17_log_without_drops : forall ops, Forall no_drop ops ->
  fst (l_exec l_init ops) = pushed ops.
Proof. intros ops H. exact (log_without_drops ops l_init H). Qed.

(* DropLast right after a push (what Client.writeHeld does under the send lock) restores the queue
   object: entries and next number *)
Theorem C17_droplast_undoes_push : forall ops s,
  let st := q_exec q_init ops in fst (q_step (fst (q_step st (QPush s))) QDropLast) = st.
Proof. exact droplast_undoes_push. Qed.

(* non-vacuity: a history that empties and refills the queue, takes pushes back (the number is used again),
   and calls DropLast on an empty queue *)
Example C17_example :
  q_run q_init [QPush [1%N]; QPush [2%N]; QPopN 5; QPush [3%N]; QPeekN (-1); QDropLast; QDropLast; QPush [4%N];
                QPushForeign; QPush [5%N]; QDropLast; QPop; QEmpty]
  = [(QNil, [(1, [1%N])]); (QNil, [(1, [1%N]); (2, [2%N])]);
     (QMany [(1, [1%N]); (2, [2%N])], []); (QNil, [(3, [3%N])]);
     (QNil, [(3, [3%N])]); (QNil, []); (QNil, []); (QNil, [(3, [4%N])]); (QRefused, [(3, [4%N])]);
     (QNil, [(3, [4%N]); (4, [5%N])]); (QNil, [(3, [4%N])]); (QOne (3, [4%N]), []); (QBool true, [])].
Proof. reflexivity. Qed.

Example C17_example_count :
  let ops := [QPush [1%N]; QDropLast; QDropLast; QPush [2%N]; QPush [3%N]; QPop; QDropLast; QDropLast] in
  n_pushes ops = 3%nat /\ n_taken_back [] ops = 2%nat /\ q_exec q_init ops = ([], 1) /\
  l_exec l_init ops = ([[2%N]], 1%nat).
Proof. repeat split. Qed.

Print Assumptions C17_refines_fifo.
Print Assumptions C17_peek_pure.
Print Assumptions C17_ids_increasing.
Print Assumptions C17_numbering_continues.
Print Assumptions C17_ids_are_positions.
Print Assumptions C17_ids_count.
Print Assumptions C17_log_without_drops.
Print Assumptions C17_droplast_undoes_push.
