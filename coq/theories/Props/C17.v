(* C17 — the unacknowledged-stanza queue is a FIFO with increasing sequence numbers.
   Only statements, closed by [exact], with their assumptions printed. *)
From Coq Require Import List ZArith NArith Bool Sorted.
From XV Require Import Lib.Sx Model.Queue Proofs.QueueP.
Import ListNotations.
Open Scope Z_scope.

(* Every history over push/pop/pop-n k/peek/peek-n k/empty (k any integer), started
   on the empty queue, returns at every step what the reference FIFO returns and
   leaves the contents the reference FIFO has. *)
Theorem C17_refines_fifo : forall ops : list qop,
  map (fun rq => (out_abs (fst rq), q_abs (snd rq))) (q_run q_init ops) = f_run [] ops.
Proof. intros ops. exact (run_refines ops q_init). Qed.

(* Peeks (and Empty) never modify the queue, ids included. *)
Theorem C17_peek_pure : forall st o, is_peek o = true -> fst (q_step st o) = st.
Proof. exact peek_pure. Qed.

(* After every step of every history the queued ids are strictly increasing
   from head to tail (head = oldest, by C17_refines_fifo). *)
Theorem C17_ids_increasing : forall ops : list qop,
  Forall (fun rq => StronglySorted Z.lt (map fst (snd rq))) (q_run q_init ops).
Proof. intros ops. apply (run_sorted ops q_init). apply init_inv. Qed.

(* Sequence numbers count the stanzas pushed on the queue object: in every reachable
   state the next push gets lastId + 1, also after pops emptied the queue. *)
Theorem C17_numbering_continues : forall st s, q_inv st ->
  push_id st = snd st + 1 /\ q_inv (q_push st s).
Proof. intros st s H. split; [apply push_id_init_inv; exact H|apply push_inv; exact H]. Qed.

(* non-vacuity: a history that empties and refills the queue *)
Example C17_example :
  q_run q_init [QPush [1%N]; QPush [2%N]; QPopN 5; QPush [3%N]; QPeekN (-1); QPop; QEmpty]
  = [(QNil, [(1, [1%N])]); (QNil, [(1, [1%N]); (2, [2%N])]);
     (QMany [(1, [1%N]); (2, [2%N])], []); (QNil, [(3, [3%N])]);
     (QNil, [(3, [3%N])]); (QOne (3, [3%N]), []); (QBool true, [])].
Proof. reflexivity. Qed.

Print Assumptions C17_refines_fifo.
Print Assumptions C17_peek_pure.
Print Assumptions C17_ids_increasing.
Print Assumptions C17_numbering_continues.
