(* C12 — a lost connection is reported exactly once, wherever the stream is cut.
   [items] is the list of elements completely received before the cut (the harness
   cuts the byte stream at every offset and maps the prefix to this list); the end of the list is
   the read error.  [wf] is any write-fault oracle.  C12_cut_inside_element ties the list to the
   stream at the level of XML tokens: a cut between two elements or anywhere inside one (after
   its start tag, inside its content, before its end tag) yields the packets of the complete
   elements and then an error, never a truncated stanza.  Below tokens (a cut inside a tag, inside
   text, inside an entity: Go's tokenizer reports a syntax error there) only the harness speaks:
   every byte offset of every generated stream.

   "The receive loop and the keepalive then stop": the loop's trace is finite and the Disconnected
   event is its last action; the keepalive side is C18 (C18_stops_iff, C18_after_quit_silent) on the
   channel closed at [AQuit] here.  "No goroutine is left behind, nothing panics": runtime facts,
   counted by the harness after quiescence (stack inspection); what the model does state is the part that
   hangs on state kept in the Client object across connections: over every history of connections of one
   Client each connection has its own quit channel, closed at its own end, and no keepalive is running once
   a receiver has returned (Model/RecvHist.v, C12_every_connection_stops_its_keepalive, C12_own_quit_channel).
   An element NextPacket rejects ends the loop with the same report although the connection itself
   is not cut (the loop does not close it). *)
From Coq Require Import List ZArith NArith Bool.
From XV Require Import Lib.Sx Model.Recv Proofs.RecvP.
From XV Require Model.XmlTree Model.Parser Model.RecvFrame Proofs.RecvFrameP.
From XV Require Import Model.RecvHist Proofs.RecvHistP.
Import ListNotations.
Open Scope N_scope.

(* For every prefix of complete elements and every write fault: the keepalive quit channel is closed
   exactly once, BEFORE the loss is reported and before ANY application callback is entered on the
   receive goroutine (under a StreamManager such a callback only returns when a new session is up; a
   keepalive still ticking during the outage pings a transport that is being reconnected); exactly one
   Disconnected event is emitted (also when the server closed the stream itself), it is the LAST thing
   the loop does and it - no other - carries the count held plus the stanzas processed; the error
   callback runs exactly once for a loss (plus once per stream error the server had sent; not for a
   clean server close); and every element completely received before the cut has been routed. *)
Theorem C12_reported_once : forall items inb nw wf,
  let tr := crecv inb nw wf items in
  let p := processed items in
  count_act is_quit tr = 1%nat /\
  (quit_before_disc tr = true /\ quit_before_callbacks tr = true) /\
  count_act is_disc tr = 1%nat /\
  (exists pre, tr = pre ++ [AEvDisconnected (inb + count_stanzas p)]) /\
  (forall n, In (AEvDisconnected n) tr -> n = inb + count_stanzas p) /\
  count_act is_err tr = ((if ends_by_close items then 0 else 1) + length (filter is_serr p))%nat /\
  routed tr = p.
Proof. exact crecv_reported_once. Qed.

(* WHERE the quit channel is closed relative to the routing: before it the loop has done only what a
   live session does, for exactly the elements received before the first stream error; the first stream
   error and everything received behind it are routed (and requests answered) AFTER it - the code closes
   the channel when the stream error arrives and goes on reading until the connection is gone. *)
Theorem C12_quit_position : forall items inb nw wf,
  exists pre post, crecv inb nw wf items = pre ++ AQuit :: post /\
    forallb is_live pre = true /\
    routed pre = before_serr (processed items) /\
    routed post = from_serr (processed items) /\
    count_act is_quit post = 0%nat.
Proof. exact crecv_quit_position. Qed.

(* without a stream error: once quit is closed only the loss is reported, nothing is routed or written *)
Theorem C12_quiet_after_quit : forall items inb nw wf,
  filter is_serr (processed items) = [] -> quiet_after_quit (crecv inb nw wf items) = true.
Proof. exact crecv_quiet_without_stream_error. Qed.

(* in the trace's own terms: whichever application callback the receive goroutine enters (router, event
   handler, error callback), quit has been closed before *)
Theorem C12_callbacks_after_quit : forall items inb nw wf pre a post,
  crecv inb nw wf items = pre ++ a :: post -> is_callback a = true -> In AQuit pre.
Proof. exact crecv_callbacks_after_quit. Qed.

(* A stream error, behind [items], whose event handler has replaced the connection (a StreamManager
   reconnects from inside it): the loop leaves the transport to the new session.  The loss was reported
   by the StreamError event and the error callback - they are the last things the loop does; there is NO
   Disconnected event from this loop, no Disconnect (it would close the new session) and no further
   error callback; quit was closed before any callback; [items] and the stream error were routed once
   each.  (Whether exactly one session results is C13's matter.)  When something in [items] ends the loop
   before, it never gets there and the loss is reported as above. *)
Theorem C12_handed_over : forall t items inb nw wf,
  (reaches_end items = true ->
   let tr := crecv_handover t inb nw wf items in
   count_act is_quit tr = 1%nat /\ quit_before_callbacks tr = true /\
   count_act is_disc tr = 0%nat /\
   count_act is_err tr = (1 + length (filter is_serr items))%nat /\
   routed tr = items ++ [IStreamError t] /\
   routed_async tr = filter (fun i => negb (is_serr i)) items /\
   attempted tr = expected_answers inb items /\
   exists pre, tr = pre ++ [ARouteSync (IStreamError t); AEvStreamError; AErrCall] /\
               count_act is_callback pre = (3 * length (filter is_serr items))%nat) /\
  (reaches_end items = false -> crecv_handover t inb nw wf items = crecv inb nw wf items).
Proof. intros. split; [apply crecv_handed_over|apply crecv_handover_not_reached]. Qed.

(* the three ways the loop ends of itself, read off the input *)
Theorem C12_endings : forall items,
  match how_ended items with
  | EndCut => processed items = items
  | EndRejected => exists r, items = processed items ++ IBad :: r
  | EndClosed => exists r, items = processed items ++ IClose :: r
  end.
Proof. exact how_ended_spec. Qed.

(* a cut with nothing before it that ends the loop, for every write fault: everything received was routed,
   one Disconnected event (last, with the right count), one error callback for the loss plus one per
   stream error received; and with no stream error: exactly one error callback, silence after quit *)
Theorem C12_cut_anywhere : forall items inb nw wf,
  reaches_end items = true ->
  let tr := crecv inb nw wf items in
  routed tr = items /\
  count_act is_quit tr = 1%nat /\ count_act is_disc tr = 1%nat /\
  count_act is_err tr = (1 + length (filter is_serr items))%nat /\
  (exists pre, tr = pre ++ [AEvDisconnected (inb + count_stanzas items)]) /\
  (filter is_serr items = [] -> count_act is_err tr = 1%nat /\ quiet_after_quit tr = true).
Proof. exact crecv_cut_anywhere. Qed.

(* the cut at the level of XML tokens: [items] complete top-level items (C02's hypotheses), then EITHER the end
   of the input OR a proper, non-empty prefix [pre] of the tokens of one more dispatchable element, whatever
   it contains.  The loop run on what NextPacket makes of that routes exactly the elements of [items] (nothing
   of the cut element), closes quit once, emits one Disconnected event, the last thing it does, carrying the
   count held plus the complete stanzas, and one error callback for the loss (plus one per stream error). *)
Theorem C12_cut_inside_element : forall reg tok idn items inb nw wf,
  forallb (Parser.top_ok reg tok) items = true ->
  forall toks,
    (toks = XmlTree.flatten_all items \/
     exists n a cs pre suf, Parser.dispatchable n = true /\
       XmlTree.flatten (XmlTree.NElem n a cs) = pre ++ suf /\ pre <> [] /\ suf <> [] /\
       toks = XmlTree.flatten_all items ++ pre) ->
    let tr := crecv inb nw wf (map (RecvFrame.item_of idn) (Parser.run_packets reg true tok toks)) in
    let want := map (RecvFrame.item_of idn) (Parser.pkts_of items) in
    routed tr = want /\
    count_act is_quit tr = 1%nat /\ count_act is_disc tr = 1%nat /\
    count_act is_err tr = (1 + length (filter is_serr want))%nat /\
    (exists pre', tr = pre' ++ [AEvDisconnected (inb + count_stanzas want)]) /\
    attempted tr = expected_answers inb want.
Proof.
  intros reg tok idn items inb nw wf H toks [->|(n & a & cs & pre & suf & Hd & Hf & Hp & Hs & ->)].
  - apply RecvFrameP.crecv_tokens_eof, H.
  - apply (RecvFrameP.crecv_tokens_truncated reg tok idn items n a cs pre suf inb nw wf H Hd Hf Hp Hs).
Qed.

(* ---- one Client object, several connections (Model/RecvHist.v) ----
   For EVERY history of connections of one Client - each either cut during its negotiation or established and
   lost behind any list of complete elements: when the receiver of a connection has returned, no keepalive
   goroutine is running, after every round, not only the first; and the quit channels are fresh: the k-th
   established connection has channel number k, made for it. *)
Theorem C12_every_connection_stops_its_keepalive : forall rs : list round,
  Forall (fun o => ro_alive o = []) (run_hist ks_init rs) /\
  flat_map chan_list (run_hist ks_init rs) = seq 0 (length (filter rd_est rs)).
Proof. intro rs. exact (run_hist_quiet rs ks_init quiet_init). Qed.

(* ... and each established connection, wherever it stands in the history, closes ITS OWN channel - one that
   was still open when the connection began (no earlier connection's end had closed it) - by the one AQuit of
   its receiver (C12_reported_once places it before the loss is reported). *)
Theorem C12_own_quit_channel : forall pre r post, rd_est r = true ->
  exists s0, nth_error (run_hist ks_init (pre ++ r :: post)) (length pre) = Some (fst (run_round s0 r)) /\
    ks_alive s0 = [] /\
    ro_chan (fst (run_round s0 r)) = Some (ks_next s0) /\
    ~ In (ks_next s0) (ks_closed s0) /\ In (ks_next s0) (ks_closed (snd (run_round s0 r))) /\
    count_act is_quit (ro_trace (fst (run_round s0 r))) = 1%nat /\
    ro_alive (fst (run_round s0 r)) = [].
Proof.
  intros pre r post He.
  destruct (run_hist_own_quit pre ks_init quiet_init r post He) as (s0 & Hq & Hn & H1 & H2 & H3).
  exists s0. destruct (run_round_quiet s0 r Hq) as (_ & Ha & Hr). cbn zeta in *. rewrite He in Hr.
  repeat split; try assumption; [exact (proj1 Hq)|exact (proj1 Hr)].
Qed.

Example C12_history_example :
  map (fun o => (ro_chan o, ro_alive o))
      (run_hist ks_init [ {| rd_est := true; rd_inb := 0; rd_items := [IStanza KMsg 1] |};
                          {| rd_est := false; rd_inb := 0; rd_items := [] |};
                          {| rd_est := true; rd_inb := 1; rd_items := [IStanza KMsg 1; IStreamError 0; ISmR] |} ])
  = [(Some 0%nat, []); (None, []); (Some 1%nat, [])].
Proof. reflexivity. Qed.

Example C12_example :
  crecv 2 0 (fault_at 1) [IStanza KMsg 1; ISmR; IStanza KMsg 2]
  = [ARouteAsync (IStanza KMsg 1); AWriteFail 3; ARouteAsync ISmR; ARouteAsync (IStanza KMsg 2);
     AQuit; AErrCall; AEvDisconnected 4]
  /\ crecv 0 0 no_fault [IStanza KMsg 1; IStreamError 0; ISmR; IStanza KMsg 2]
  = [ARouteAsync (IStanza KMsg 1); AQuit; ARouteSync (IStreamError 0); AEvStreamError; AErrCall; ADisconnectCall;
     AWrite 1; ARouteAsync ISmR; ARouteAsync (IStanza KMsg 2); AErrCall; AEvDisconnected 2]
  /\ crecv_handover 0 0 0 no_fault [IStanza KMsg 1]
  = [ARouteAsync (IStanza KMsg 1); AQuit; ARouteSync (IStreamError 0); AEvStreamError; AErrCall]
  /\ reaches_end [IStanza KMsg 1; IStreamError 0; ISmR; IStanza KMsg 2] = true.
Proof. repeat split; reflexivity. Qed.

Print Assumptions C12_reported_once.
Print Assumptions C12_quit_position.
Print Assumptions C12_quiet_after_quit.
Print Assumptions C12_callbacks_after_quit.
Print Assumptions C12_handed_over.
Print Assumptions C12_endings.
Print Assumptions C12_cut_anywhere.
Print Assumptions C12_cut_inside_element.
Print Assumptions C12_every_connection_stops_its_keepalive.
Print Assumptions C12_own_quit_channel.
