(* C12 — a lost connection is reported exactly once, wherever the stream is cut.
   [items] is the list of elements completely received before the cut (the harness
   cuts the byte stream at every offset and maps the prefix to this list); the end
   of the list is the read error. *)
From Coq Require Import List ZArith NArith Bool.
From XV Require Import Lib.Sx Model.Recv Proofs.RecvP.
Import ListNotations.
Open Scope N_scope.

(* For every prefix of complete elements and every write fault: the loop stops
   exactly once: the keepalive quit channel is closed once, BEFORE the loss is reported
   (under a StreamManager the Disconnected handler only returns when a new session is
   up; a keepalive still ticking during the outage pings a transport that is being
   reconnected), and after it nothing is routed or written any more; exactly one
   Disconnected event is emitted (also when the server closed the stream itself), it
   carries the stream-management count; the error callback runs exactly once for a
   loss (plus once per stream error the server had sent; not for a clean server
   close); and every stanza completely received before the cut has been routed. *)
Theorem C12_reported_once : forall items inb nw wf,
  let tr := crecv inb nw wf items in
  let p := processed nw wf items in
  count_act is_quit tr = 1%nat /\
  (quit_before_disc tr = true /\ quiet_after_quit tr = true) /\
  count_act is_disc tr = 1%nat /\
  In (AEvDisconnected (inb + count_stanzas p)) tr /\
  count_act is_err tr = ((if ends_by_close nw wf items then 0 else 1) + length (filter is_serr p))%nat /\
  filter is_stanza (routed tr) = filter is_stanza p.
Proof.
  intros items inb nw wf. cbn zeta.
  pose proof (crecv_loss items inb nw wf) as H. cbn zeta in H.
  destruct H as (Hq & (Hl1 & Hl2) & Hd & He & Hin).
  repeat split; try assumption. apply crecv_stanzas_once.
Qed.

(* a cut with no terminator before it: everything received was processed *)
Theorem C12_cut_anywhere : forall items inb,
  forallb (fun i => match i with IBad | IClose | IStreamError _ => false | _ => true end) items = true ->
  let tr := crecv inb 0 None items in
  count_act is_err tr = 1%nat /\ count_act is_disc tr = 1%nat /\
  filter is_stanza (routed tr) = filter is_stanza items.
Proof.
  intros items inb H. cbn zeta.
  assert (Hp : forall nw, processed nw None items = items).
  { clear -H. induction items as [|j items IHi]; intros nw; [reflexivity|].
    cbn [forallb] in H. apply andb_true_iff in H as [Hj H].
    destruct j; try discriminate; cbn [processed]; rewrite IHi; auto. }
  pose proof (crecv_loss items inb 0%nat None) as L. cbn zeta in L.
  destruct L as (_ & _ & Hd & He & _).
  assert (Hc : ends_by_close 0 None items = false).
  { unfold ends_by_close. rewrite Hp, skipn_all. reflexivity. }
  rewrite Hc, Hp in *. cbn [Nat.add] in He.
  assert (Hs : filter is_serr items = []).
  { clear -H. induction items as [|j items IHi]; [reflexivity|].
    cbn [forallb] in H. apply andb_true_iff in H as [Hj H].
    destruct j; try discriminate; cbn [filter is_serr]; auto. }
  rewrite Hs in He. split; [exact He|]. split; [exact Hd|].
  rewrite crecv_stanzas_once, Hp. reflexivity.
Qed.

Example C12_example :
  crecv 2 0 (Some 1%nat) [IStanza KMsg 1; ISmR; IStanza KMsg 2]
  = [ARouteAsync (IStanza KMsg 1); AWriteFail 3; ARouteAsync ISmR; ARouteAsync (IStanza KMsg 2);
     AQuit; AErrCall; AEvDisconnected 4].
Proof. reflexivity. Qed.

Print Assumptions C12_reported_once.
Print Assumptions C12_cut_anywhere.
