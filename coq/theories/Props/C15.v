(* C15 - JID parsing and formatting are consistent and reject malformed addresses.
   Only statements, closed by the lemmas of Proofs/JidP.v, with their assumptions
   printed.  Strings are lists of code points; c_at = '@', c_slash = '/'.

   Character classes (Proofs/JidP.v), over Go's own unicode.IsSpace table
   (Gen/Generated.v, regenerated from the toolchain on every run):
     space_char c      := In c Generated.unicode_space
     bad_local_char c  := space_char c \/ In c local_forbidden    (at slash ' dquote : < > amp)
     bad_domain_char c := space_char c \/ In c domain_forbidden   (at slash ' dquote < > amp)
   C15_forbidden_sets writes both sets out, so a later change of either list in
   the model (which follows the code through the correspondence run) breaks an
   obligation instead of silently changing what "forbidden" means.
     valid_local l     := no character of l is a bad_local_char
     valid_domain d    := d <> [] and no character of d is a bad_domain_char

   As in the property text, strings with a '/' before the first '@' are outside the
   parse and reject clauses (hypotheses [~ In c_slash ...] on the text before the
   first '@'); the round-trip clause and the two characterisations C15_accepts_iff /
   C15_rejects_iff need no such exclusion: they are stated for every string.  (On
   that class the correspondence run projects model and code to a constant, so there
   the unrestricted theorems describe the model only - nothing is asserted of the code,
   as the property says.)

   "For all strings": a Go string is any byte sequence.  An element of [str] is either
   a Unicode scalar value (one well-formed UTF-8 sequence) or 0x110000 + b for a byte b
   that is not part of one (Go's own decoding: utf8.DecodeRune width 1).  '@' and '/'
   are single ASCII bytes, never part of a longer sequence, so strings.SplitN on bytes
   and split_first on units cut at the same places; strings.IndexFunc hands U+FFFD to
   the validator for such a byte, which is in neither rejected class, as is every unit
   >= 0x110000 (C15_invalid_bytes_are_ordinary).  All theorems quantify over all lists
   of N, hence over all byte strings; the correspondence run sends invalid UTF-8 too. *)
From Coq Require Import List NArith Bool.
From XV Require Import Lib.Sx Gen.Generated Model.Jid Proofs.JidP.
Import ListNotations.
Open Scope N_scope.

(* [local@]domain[/resource] yields exactly those three parts.  With a local part
   the resource is arbitrary (it may contain '/' and '@'): it is everything after
   the first '/', since a valid domain contains none.  Without a local part the
   resource must be free of '@' (otherwise the text before that '@' would be read
   as a local part containing '/'). *)
Theorem C15_parse_parts :
  (forall l d r : str, valid_local l -> l <> [] -> valid_domain d ->
     new_jid (l ++ [c_at] ++ d ++ [c_slash] ++ r) = Ok (mkJid l d r)) /\
  (forall l d : str, valid_local l -> l <> [] -> valid_domain d ->
     new_jid (l ++ [c_at] ++ d) = Ok (mkJid l d [])) /\
  (forall d r : str, valid_domain d -> ~ In c_at r ->
     new_jid (d ++ [c_slash] ++ r) = Ok (mkJid [] d r)) /\
  (forall d : str, valid_domain d ->
     new_jid d = Ok (mkJid [] d [])).
Proof.
  split; [exact parse_ldr|]. split; [exact parse_ld|]. split; [exact parse_dr | exact parse_d].
Qed.

(* Malformed input is rejected: the empty string; an empty local part before '@';
   an empty domain (nothing, or only a resource, after the '@'); a space or a
   forbidden character at any position of the local part (the text before the
   first '@') or of the domain (the text up to the first '/' after it), for every
   such character. *)
Theorem C15_rejects :
  new_jid [] = Err /\
  (forall x : str, new_jid ([c_at] ++ x) = Err) /\
  (forall l : str, ~ In c_at l -> new_jid (l ++ [c_at]) = Err) /\
  (forall l r : str, ~ In c_at l -> new_jid (l ++ [c_at; c_slash] ++ r) = Err) /\
  (forall (l1 : str) (c : N) (l2 rest : str),
     ~ In c_at (l1 ++ c :: l2) -> ~ In c_slash (l1 ++ c :: l2) -> bad_local_char c ->
     new_jid ((l1 ++ c :: l2) ++ [c_at] ++ rest) = Err) /\
  (forall (l d1 : str) (c : N) (d2 r : str),
     ~ In c_at l -> ~ In c_slash l -> ~ In c_slash (d1 ++ c :: d2) -> bad_domain_char c ->
     new_jid (l ++ [c_at] ++ (d1 ++ c :: d2)) = Err /\
     new_jid (l ++ [c_at] ++ (d1 ++ c :: d2) ++ [c_slash] ++ r) = Err) /\
  (forall (d1 : str) (c : N) (d2 r : str),
     ~ In c_at (d1 ++ c :: d2) -> ~ In c_slash (d1 ++ c :: d2) -> ~ In c_at r -> bad_domain_char c ->
     new_jid (d1 ++ c :: d2) = Err /\
     new_jid ((d1 ++ c :: d2) ++ [c_slash] ++ r) = Err).
Proof.
  split; [exact rej_empty|]. split; [exact rej_empty_local|]. split; [exact rej_empty_domain|].
  split; [exact rej_empty_domain_res|].
  split; [intros l1 c l2 rest Hat _ Hbad; exact (rej_bad_local l1 c l2 rest Hat Hbad)|].
  split; [intros l d1 c d2 r Hat _ Hsl Hbad; exact (rej_bad_domain_local l d1 c d2 r Hat Hsl Hbad)|].
  exact rej_bad_domain_only.
Qed.

(* What "white space or a forbidden character" means, written out.  In the local
   part: white space (Go's unicode.IsSpace table) or one of the eight characters
   RFC 7622 section 3.3.1 forbids in a localpart, code points 34 38 39 47 58 60 62 64
   (double quote, ampersand, apostrophe, slash, colon, less-than, greater-than, at).
   In the domain: white space, the two separators (47 slash, 64 at) or one of the
   five characters that are special in XML (34 38 39 60 62), none of which occurs in
   an IP literal or an IDNA name; the colon (58) is legal there (IPv6 literals).
   The executable validators of the model - the ones compared with the code on
   every run - decide exactly these classes. *)
Theorem C15_forbidden_sets :
  (forall c : N, bad_local_char c <->
     (In c Generated.unicode_space \/ In c [34; 38; 39; 47; 58; 60; 62; 64])) /\
  (forall c : N, bad_domain_char c <->
     (In c Generated.unicode_space \/ In c [34; 38; 39; 47; 60; 62; 64])) /\
  (forall l : str, username_valid l = true <-> valid_local l) /\
  (forall d : str, domain_valid d = true <-> valid_domain d).
Proof.
  split; [exact bad_local_char_set|]. split; [exact bad_domain_char_set|].
  split; [exact username_valid_iff | exact domain_valid_iff].
Qed.

(* The converse of C15_parse_parts and the completeness of C15_rejects, for EVERY string:
   s is accepted with result j exactly when j is a well-formed triple (valid local part,
   valid non-empty domain, and no '@' in the resource of a domain JID) and s is its
   rendering - or its rendering followed by one '/', when j has no resource ("d/" and
   "l@d/" read as "no resource").  Nothing else is accepted. *)
Theorem C15_accepts_iff : forall (s : str) (j : jid),
  new_jid s = Ok j <->
  (valid_local (node j) /\ valid_domain (domain j) /\
   (node j = [] -> ~ In c_at (resource j)) /\
   (s = full j \/ (resource j = [] /\ s = full j ++ [c_slash]))).
Proof. exact accepts_iff. Qed.

(* ... and s is rejected exactly when it is the rendering of no well-formed triple. *)
Theorem C15_rejects_iff : forall s : str,
  new_jid s = Err <->
  (forall j, valid_local (node j) -> valid_domain (domain j) ->
     (node j = [] -> ~ In c_at (resource j)) ->
     s <> full j /\ ~ (resource j = [] /\ s = full j ++ [c_slash])).
Proof. exact rejects_iff. Qed.

(* "White space" is pinned: the table dumped from the toolchain's unicode.IsSpace on
   this run is exactly Unicode's White_Space property, 25 code points.  With an empty
   or different dump this obligation fails (and with it the check). *)
Theorem C15_space_table :
  Generated.unicode_space =
  [9; 10; 11; 12; 13; 32; 133; 160; 5760; 8192; 8193; 8194; 8195; 8196; 8197; 8198; 8199;
   8200; 8201; 8202; 8232; 8233; 8239; 8287; 12288].
Proof. exact unicode_space_table. Qed.

(* A byte that is not part of well-formed UTF-8 (unit 0x110000 + b; U+FFFD in the eyes of
   Go's rune functions) is an ordinary character: in neither rejected class. *)
Theorem C15_invalid_bytes_are_ordinary : forall c : N,
  1114112 <= c \/ c = 65533 -> ~ bad_local_char c /\ ~ bad_domain_char c.
Proof. exact high_unit_ok. Qed.

(* Full() and Bare() render every parsed JID so that parsing the rendering gives the
   same JID back (without the resource for Bare) - also for a domain JID that has a
   resource.  For every string s, no exclusion. *)
Theorem C15_roundtrip : forall (s : str) (j : jid),
  new_jid s = Ok j ->
  new_jid (full j) = Ok j /\ new_jid (bare j) = Ok (strip_resource j).
Proof. exact roundtrip. Qed.

(* The same for a Jid value however it was obtained (built by hand from a triple over
   the accepted classes), not only for one that NewJid returned. *)
Theorem C15_roundtrip_triples : forall l d r : str,
  valid_local l -> valid_domain d -> (l = [] -> ~ In c_at r) ->
  new_jid (full (mkJid l d r)) = Ok (mkJid l d r) /\
  new_jid (bare (mkJid l d r)) = Ok (mkJid l d []).
Proof. intros l d r. exact (roundtrip_wf (mkJid l d r)). Qed.

(* Several calls in one process.  A history is any sequence of parses (HParse), of callers
   assigning to a field of a Jid an earlier step returned (HMut), and of groups of
   goroutines parsing concurrently (HPar).  Whatever was parsed before and whatever the
   callers did to the values they were handed, every step shows what it would show in a
   fresh process: the result of a parse depends on its argument only.  In particular the
   parse, reject and round-trip clauses above hold of EVERY call of a history, not only
   of the first call on a string. *)
Theorem C15_history_independent : forall (h : list hstep) (heap : list (option jid)),
  run_hist heap h = map step_obs h.
Proof. exact run_hist_pure. Qed.

(* ... so the same string parsed at the end of two different histories gives the same
   result, new_jid of it. *)
Theorem C15_parse_after_any_history :
  forall (pre1 pre2 : list hstep) (heap1 heap2 : list (option jid)) (s : str),
  last (run_hist heap1 (pre1 ++ [HParse s])) OMut = OParse (new_jid s) /\
  last (run_hist heap2 (pre2 ++ [HParse s])) OMut = OParse (new_jid s).
Proof. exact run_hist_last_parse. Qed.

(* non-vacuity: parse "a@d", the caller sets Resource := "n" on its result, parse "a@d" again *)
Example C15_history_example :
  run_hist [] [HParse [97; 64; 100]; HMut 0 FResource [110]; HParse [97; 64; 100]] =
  [OParse (Ok (mkJid [97] [100] [])); OMut; OParse (Ok (mkJid [97] [100] []))].
Proof. reflexivity. Qed.

(* non-vacuity: "u1@d.x/r/@", the domain JID with a resource "d.x/r" and "[::1]" meet the
   hypotheses; a space inside the local part is a bad_local_char *)
Example C15_example :
  valid_local [117; 49] /\ valid_domain [100; 46; 120] /\ bad_local_char 32 /\ bad_domain_char 160 /\
  bad_local_char 38 /\ bad_domain_char 60 /\ valid_domain [91; 58; 58; 49; 93] /\
  new_jid [117; 49; 64; 100; 46; 120; 47; 114; 47; 64] = Ok (mkJid [117; 49] [100; 46; 120] [114; 47; 64]) /\
  new_jid [100; 46; 120; 47; 114] = Ok (mkJid [] [100; 46; 120] [114]) /\
  full (mkJid [] [100; 46; 120] [114]) = [100; 46; 120; 47; 114] /\
  new_jid [117; 32; 49; 64; 100] = Err /\
  (* white space: members at both ends of the table and in the middle; look-alikes that are not *)
  bad_local_char 9 /\ bad_domain_char 12288 /\ bad_local_char 8232 /\ bad_domain_char 133 /\
  ~ bad_local_char 8203 /\ ~ bad_domain_char 65279 /\ ~ bad_local_char 31 /\
  (* "d.x/" is accepted as the domain JID d.x; an invalid byte 0xFF inside a local part is kept *)
  new_jid [100; 46; 120; 47] = Ok (mkJid [] [100; 46; 120] []) /\
  new_jid [117; 1114367; 64; 100] = Ok (mkJid [117; 1114367] [100] []).
Proof.
  split; [apply username_valid_iff; reflexivity|].
  split; [apply domain_valid_iff; reflexivity|].
  split; [left; apply mem_In; reflexivity|].
  split; [left; apply mem_In; reflexivity|].
  split; [right; apply mem_In; reflexivity|].
  split; [right; apply mem_In; reflexivity|].
  split; [apply domain_valid_iff; reflexivity|].
  do 4 (split; [reflexivity|]).
  do 4 (split; [left; apply mem_In; reflexivity|]).
  split; [intros H; apply is_invalid_iff in H; discriminate|].
  split; [intros H; apply is_invalid_iff in H; discriminate|].
  split; [intros H; apply is_invalid_iff in H; discriminate|].
  split; reflexivity.
Qed.

Print Assumptions C15_parse_parts.
Print Assumptions C15_rejects.
Print Assumptions C15_forbidden_sets.
Print Assumptions C15_roundtrip.
Print Assumptions C15_accepts_iff.
Print Assumptions C15_rejects_iff.
Print Assumptions C15_space_table.
Print Assumptions C15_invalid_bytes_are_ordinary.
Print Assumptions C15_roundtrip_triples.
Print Assumptions C15_history_independent.
Print Assumptions C15_parse_after_any_history.
