(* C07 — IQ responses reach the SendIQ caller exactly once; duplicates and races harmless.
   Model/Conc.v: the pending-IQ table (Router.IQResultRoutes), the result channels, the
   routing goroutines, the canceller and SendIQ as an interleaving model of the FIXED code
   (lookup+delete in one critical section, one-slot buffered result channel, registration
   before the request is written, canceller/unregister delete only their own entry; only
   a result/error IQ is looked up among the pending requests, a get/set carrying a pending
   id is routed like any other packet; SendIQ refuses an id that is still awaiting its
   response, so an accepted request keeps its own entry until answered or cancelled).
   An arriving IQ [resp] carries its id, a tag and its kind [rkind]: KResponse (type result
   or error), KRequest (get or set), KOther (type missing or non-standard: "Result", "ERROR",
   "foo", ... - the decoder hands such stanzas on); [rreq r] = true iff r is NOT a response.
   [result i v] / [request i v] / [other i v] build the three kinds.
   One [act] is one atomic step of one goroutine; every theorem below is for EVERY
   schedule [l : list act] from the initial state: any number of concurrent requests with
   distinct or clashing ids, matching / duplicate / foreign responses, receivers reading or
   abandoning the channel (ARecv happens or not), cancellation at any point.
   Limits of the statements (disclosed): the WRITE of the request is not an action of the model
   - a response may arrive at any point after ARegister, which covers "immediately after the
   request was written" only because the fixed SendIQ registers before it writes (client.go /
   component.go; a change of that order alters no Coq definition, it is the harness' case of a
   response routed from inside the transport's Write that notices).  "Never blocks" is about
   the pending-table code: the ROrd step stands for the whole ordinary routing including the
   user's handlers, which for a Component run on the receive goroutine.  [panicked] tracks the
   two crashes this code can cause itself, send on a closed channel and double close; a nil
   context handed to SendIQ is caller misuse outside the quantifier.  A response taken between
   ARegister and AUnregister (failed write, duplicate id from the peer) counts as delivered on
   a channel nobody holds.
   What is runtime and NOT proved here: that the real scheduler's atomic actions are the
   model's (checked by forced schedules and stress in the harness), and fairness — "never
   blocks" is proved as: no routing goroutine is ever in a state where its next step is
   disabled, and each of its steps strictly advances it (three steps to completion). *)
From Coq Require Import List ZArith NArith Bool Lia Permutation.
From XV Require Import Lib.Sx Model.Conc Proofs.ConcP.
Import ListNotations.

(* never crashes: no send on a closed channel, no double close *)
Theorem C07_no_panic : forall l, panicked (c_run c_init l) = false.
Proof. exact no_panic. Qed.

(* each channel carries at most one value, ever (received + buffered <= 1); and no routing
   goroutine is ever about to send on / close a channel that is already closed *)
Theorem C07_at_most_once : forall l,
  let s := c_run c_init l in
  (forall c ch, nth_error (chans s) c = Some ch ->
     length (c_got ch) + (match c_buf ch with Some _ => 1 | None => 0 end) <= 1) /\
  (forall k t c ch, nth_error (routers s) k = Some t ->
     r_pc t = RSend c \/ r_pc t = RClose c \/ r_pc t = RCloseOrd c ->
     nth_error (chans s) c = Some ch -> c_closed ch = false).
Proof. exact reach_at_most_once. Qed.

(* once closed, a channel stays closed and its contents (received ++ buffered) never change
   again, whatever happens afterwards: a closed channel is never written again *)
Theorem C07_closed_is_final : forall l l' c ch,
  let s := c_run c_init l in
  nth_error (chans s) c = Some ch -> c_closed ch = true ->
  exists ch', nth_error (chans (c_run s l')) c = Some ch' /\ c_closed ch' = true /\
              contents ch' = contents ch /\ c_owner ch' = c_owner ch.
Proof. exact reach_closed_final. Qed.

(* never to another request: whatever sits in or was read from a channel has the id the
   request was registered under *)
Theorem C07_right_owner : forall l,
  let s := c_run c_init l in
  forall c ch v, nth_error (chans s) c = Some ch ->
    (c_buf ch = Some v \/ In v (c_got ch)) -> rid v = c_owner ch.
Proof. exact reach_right_owner. Qed.

(* packet processing never hangs: in every reachable state every routing goroutine's next
   step is enabled (its send always finds the buffer empty, also when the receiver has
   abandoned the channel: ARecv need never happen) ... *)
Theorem C07_never_blocks : forall l k, blocked (c_run c_init l) k = false.
Proof. exact reach_never_blocks. Qed.

(* ... and it is finished as soon as it has been scheduled rank-many - at most three - times
   (rank: RStart 3, RSend/RCloseOrd 2, RClose/ROrd 1, RDone 0), whatever the other goroutines,
   requesters and cancellers do in between: [steps_of k l'] counts the ARouter k in l'.  So a
   synchronous (component-style) route call returns after at most three steps. *)
Theorem C07_router_finishes_any_schedule : forall l k t l',
  let s := c_run c_init l in
  nth_error (routers s) k = Some t -> rank (r_pc t) <= steps_of k l' ->
  exists t', nth_error (routers (c_run s l')) k = Some t' /\ r_iq t' = r_iq t /\ r_pc t' = RDone.
Proof. exact reach_finishes. Qed.

Theorem C07_rank_at_most_three : forall pc, rank pc <= 3.
Proof. exact rank_le_3. Qed.

(* every response that arrived is accounted for exactly once: handed to the ordinary routes,
   or delivered on a channel (read or buffered), or still with its routing goroutine *)
Theorem C07_conservation : forall l,
  let s := c_run c_init l in
  Permutation (arrived s) (ordinary s ++ delivered s ++ in_flight s).
Proof. exact conservation. Qed.

Theorem C07_conservation_quiescent : forall l,
  let s := c_run c_init l in
  (forall t, In t (routers s) -> r_pc t = RDone) ->
  Permutation (arrived s) (ordinary s ++ delivered s).
Proof. exact conservation_quiescent. Qed.

(* THE FUNCTIONAL CLAUSE UNDER EVERY INTERLEAVING.  The lookup step of a goroutine routing a
   response: if the id has an entry, the entry is removed in that same step and the goroutine
   now holds the entry's channel - about to send (context live) or to close it and route
   ordinarily (context ended) ... *)
Theorem C07_hit_step : forall l k t c ch,
  let s := c_run c_init l in
  nth_error (routers s) k = Some t -> r_pc t = RStart -> rreq (r_iq t) = false ->
  lookup (rid (r_iq t)) (table s) = Some c -> nth_error (chans s) c = Some ch ->
  let s' := c_step s (ARouter k) in
  exists t', nth_error (routers s') k = Some t' /\ r_iq t' = r_iq t /\
    r_pc t' = (if c_done ch then RCloseOrd c else RSend c) /\
    lookup (rid (r_iq t)) (table s') = None /\ chans s' = chans s /\ ordinary s' = ordinary s.
Proof. exact reach_hit_step. Qed.

(* ... and from there on, whatever is scheduled afterwards (l' arbitrary: the requester reading
   or not, cancellation, the canceller, re-registration of the same id, other responses with
   the same id, other goroutines): the goroutine only ever moves RSend c -> RClose c -> RDone
   (never to the ordinary routes), and once it is done channel c - the channel of the request
   whose entry it took - is closed and holds exactly its response (read or still buffered),
   under the request's id.  If the tag tells this copy apart from every other arrival, the
   response appears nowhere in the ordinary routes. *)
Theorem C07_hit_delivers_any_schedule : forall l k t c l',
  let s := c_run c_init l in
  nth_error (routers s) k = Some t -> r_pc t = RSend c ->
  let s' := c_run s l' in
  exists t', nth_error (routers s') k = Some t' /\ r_iq t' = r_iq t /\
    (r_pc t' = RSend c \/ r_pc t' = RClose c \/ r_pc t' = RDone) /\
    (r_pc t' = RDone ->
       exists ch', nth_error (chans s') c = Some ch' /\ c_closed ch' = true /\
                   contents ch' = [r_iq t] /\ c_owner ch' = rid (r_iq t)) /\
    (cnt (r_iq t) (arrived s') = 1 -> cnt (r_iq t) (ordinary s') = 0).
Proof. exact reach_hit_delivers. Qed.

(* the twin for a response racing with cancellation (the entry's context had ended when it
   was taken): under every later schedule the goroutine moves RCloseOrd c -> ROrd -> RDone,
   channel c is closed WITHOUT a value and stays so, and once the goroutine is done the
   response is in the ordinary routes - exactly once if its tag is unique. *)
Theorem C07_cancelled_hit_any_schedule : forall l k t c l',
  let s := c_run c_init l in
  nth_error (routers s) k = Some t -> r_pc t = RCloseOrd c ->
  let s' := c_run s l' in
  exists t', nth_error (routers s') k = Some t' /\ r_iq t' = r_iq t /\
    (r_pc t' = RCloseOrd c \/ r_pc t' = ROrd \/ r_pc t' = RDone) /\
    (r_pc t' = ROrd \/ r_pc t' = RDone ->
       exists ch', nth_error (chans s') c = Some ch' /\ c_closed ch' = true /\ contents ch' = []) /\
    (r_pc t' = RDone -> In (r_iq t) (ordinary s') /\
       (cnt (r_iq t) (arrived s') = 1 -> cnt (r_iq t) (ordinary s') = 1)).
Proof. exact reach_cancelled_hit. Qed.

(* the same for the uninterrupted run of the routing goroutine, with the full final state:
   a response whose id has a pending entry (context not ended) is delivered on that
   request's channel, the channel is then closed, the entry removed, nothing goes to the
   ordinary routes and no other channel changes.  s is ANY reachable state with the entry
   present. *)
Theorem C07_early_response : forall l i v c,
  let s := c_run c_init l in
  lookup i (table s) = Some c ->
  (forall ch, nth_error (chans s) c = Some ch -> c_done ch = false) ->
  let k := length (routers s) in
  let s' := c_run s [AArrive (result i v); ARouter k; ARouter k; ARouter k] in
  (exists ch', nth_error (chans s') c = Some ch' /\ c_owner ch' = i /\ c_closed ch' = true /\
               c_buf ch' = Some (result i v) /\ c_got ch' = []) /\
  (forall d, d <> c -> nth_error (chans s') d = nth_error (chans s) d) /\
  lookup i (table s') = None /\ ordinary s' = ordinary s /\
  nth_error (routers s') k = Some {| r_iq := (result i v); r_pc := RDone |}.
Proof. exact reach_early_response. Qed.

(* ... and the entry IS present from registration on: the fixed SendIQ registers (ARegister)
   BEFORE it writes the request, so "immediately after the request was written" is any
   point after ARegister by construction.  After an accepted ARegister i (id i not awaiting
   a response), whatever schedule l follows that contains no cancellation / unregistration
   of that channel and no other RESPONSE with id i being taken ([untouched]: clashing
   registrations of i and requests carrying id i are allowed - they change nothing), a
   response (result i v) arriving at any later point is delivered on that channel. *)
Theorem C07_early_response_any_time : forall l0 i l v,
  let s0 := c_run c_init l0 in
  live s0 i = false ->
  let c := length (chans s0) in
  let s1 := c_step s0 (ARegister i) in
  untouched s1 i c l = true ->
  let s := c_run s1 l in
  let k := length (routers s) in
  let s' := c_run s [AArrive (result i v); ARouter k; ARouter k; ARouter k] in
  exists ch', nth_error (chans s') c = Some ch' /\ c_owner ch' = i /\ c_closed ch' = true /\
              c_buf ch' = Some (result i v) /\ c_got ch' = [] /\
              lookup i (table s') = None /\ ordinary s' = ordinary s.
Proof. exact reach_early_response_any_time. Qed.

(* a response racing with cancellation: if the context has ended when the entry is taken,
   the channel is closed without a value and the response goes to the ordinary routes
   exactly once ... *)
Theorem C07_cancel_then_ordinary : forall l i v c,
  let s := c_run c_init l in
  lookup i (table s) = Some c ->
  (forall ch, nth_error (chans s) c = Some ch -> c_done ch = true) ->
  let k := length (routers s) in
  let s' := c_run s [AArrive (result i v); ARouter k; ARouter k; ARouter k] in
  (exists ch', nth_error (chans s') c = Some ch' /\ c_closed ch' = true /\
               c_buf ch' = None /\ c_got ch' = []) /\
  (forall d, d <> c -> nth_error (chans s') d = nth_error (chans s) d) /\
  lookup i (table s') = None /\ ordinary s' = ordinary s ++ [(result i v)] /\
  nth_error (routers s') k = Some {| r_iq := (result i v); r_pc := RDone |}.
Proof. exact reach_cancelled_response. Qed.

(* ... and if the entry is gone (removed by the canceller, answered before = duplicate or
   late response, or a foreign id), the response is routed like any other packet, exactly
   once, and no channel is touched.  Holds in any state. *)
Theorem C07_unmatched_then_ordinary : forall s i v,
  lookup i (table s) = None ->
  let k := length (routers s) in
  let s' := c_run s [AArrive (result i v); ARouter k; ARouter k] in
  chans s' = chans s /\ table s' = table s /\ ordinary s' = ordinary s ++ [(result i v)] /\
  nth_error (routers s') k = Some {| r_iq := (result i v); r_pc := RDone |}.
Proof. exact unmatched_response. Qed.

(* only a result or error is ever taken for a response: nothing in or read from any channel is
   a get/set or an IQ of missing / non-standard type ([rreq v = false]: v is a response), and a
   goroutine routing such an IQ never owns a pending request's channel *)
Theorem C07_request_never_delivered : forall l,
  let s := c_run c_init l in
  (forall c ch v, nth_error (chans s) c = Some ch -> (c_buf ch = Some v \/ In v (c_got ch)) -> rreq v = false) /\
  (forall k t, nth_error (routers s) k = Some t -> rreq (r_iq t) = true ->
     r_pc t = RStart \/ r_pc t = ROrd \/ r_pc t = RDone).
Proof. exact reach_only_responses. Qed.

(* an IQ that is not a response - a get/set or one of missing / non-standard type - with a
   clashing id (or any id) goes to the ordinary routes, once; the pending table and every
   channel are left alone.  Holds in any state, whatever is pending. *)
Theorem C07_request_routed_ordinarily : forall s r,
  rreq r = true ->
  let k := length (routers s) in
  let s' := c_run s [AArrive r; ARouter k; ARouter k] in
  chans s' = chans s /\ table s' = table s /\ ordinary s' = ordinary s ++ [r] /\
  nth_error (routers s') k = Some {| r_iq := r; r_pc := RDone |}.
Proof. exact nonresponse_routed. Qed.

(* clashing ids: a SendIQ whose id is still awaiting its response is refused - nothing is
   registered, routed or written, the request's slot never receives anything and is never
   closed (the caller got an error instead of a channel) ... *)
Theorem C07_clashing_id_refused : forall l i c,
  let s := c_run c_init l in
  lookup i (table s) = Some c ->
  (forall ch, nth_error (chans s) c = Some ch -> c_done ch = false) ->
  let s' := c_step s (ARegister i) in
  table s' = table s /\ routers s' = routers s /\ ordinary s' = ordinary s /\ arrived s' = arrived s /\
  chans s' = chans s ++ [new_chan i] /\ refused s' = refused s ++ [length (chans s)] /\
  forall l', let s'' := c_run s' l' in
    exists ch, nth_error (chans s'') (length (chans s)) = Some ch /\
               c_buf ch = None /\ c_got ch = [] /\ c_closed ch = false.
Proof. exact reach_refused. Qed.

Theorem C07_refused_slots_inert : forall l,
  let s := c_run c_init l in
  forall c, In c (refused s) ->
    (exists ch, nth_error (chans s) c = Some ch /\ c_buf ch = None /\ c_got ch = [] /\ c_closed ch = false) /\
    ~ In c (map snd (table s)).
Proof. exact reach_refused_inert. Qed.

(* ... and the earlier request keeps its entry: neither a registration (of any id) nor a
   routing step on a request (get/set, any id) ends the pending state of request (i, c).
   "Never to another request": the entry under id i is the one of the accepted request. *)
Theorem C07_pending_kept : forall l i c a,
  let s := c_run c_init l in
  pending s i c ->
  (exists j, a = ARegister j) \/
  (exists k t, a = ARouter k /\ nth_error (routers s) k = Some t /\ rreq (r_iq t) = true) ->
  pending (c_step s a) i c.
Proof. exact reach_pending_kept. Qed.

(* the invariant behind all of the above holds along every schedule *)
Theorem C07_invariant : forall l, inv (c_run c_init l).
Proof. exact inv_reachable. Qed.

(* Four SendIQ calls: ids 1, 2, then 1 again while the first is pending (refused: slot 2 stays
   empty, the first request keeps id 1), later 1 again after the answer (accepted: slot 3).
   A get and an IQ of non-standard type with the clashing id 1 arrive before the answer:
   ordinary routes, the entry stays.
   Response (1,10) arrives twice, a second answer (1,11) with the same id and a foreign (9,12)
   arrive concurrently; request 2 is cancelled while its answer (2,13) is in flight.
   Slot 0 gets exactly result 1 10 and is closed; slot 1 is closed empty; slot 3 gets the
   later answer (1,14); everything else goes to the ordinary routes once; nothing panics. *)
Local Open Scope N_scope.
Example C07_example :
  let s := c_run c_init
    [ARegister 1; ARegister 2; ARegister 1;
     AArrive (request 1 7); ARouter 0; ARouter 0;
     AArrive (other 1 8); ARouter 1; ARouter 1;
     AArrive (result 1 10); AArrive (result 1 11); AArrive (result 9 12);
     ARouter 2; ARouter 3; ARouter 2; ARouter 4; ARouter 3; ARouter 2; ARecv 0; ARouter 4;
     ACancel 1; AArrive (result 2 13); ARouter 5; ACancelDelete 1; ARouter 5; ARouter 5;
     AArrive (result 1 10); ARouter 6; ARouter 6;
     ARegister 1; AArrive (result 1 14); ARouter 7; ARouter 7; ARouter 7; ARecv 3; ARecv 2] in
  (panicked s, map (fun ch => (c_owner ch, c_got ch, c_buf ch, c_closed ch)) (chans s),
   ordinary s, table s, refused s, map r_pc (routers s), in_flight s)
  = (false,
     [(1, [result 1 10], None, true); (2, [], None, true); (1, [], None, false); (1, [result 1 14], None, true)],
     [request 1 7; other 1 8; result 1 11; result 9 12; result 2 13; result 1 10], [], [2%nat],
     [RDone; RDone; RDone; RDone; RDone; RDone; RDone; RDone], []).
Proof. vm_compute. reflexivity. Qed.

(* the hypotheses of C07_hit_delivers_any_schedule are satisfiable, and its conclusion is seen
   on an adversarial continuation: after the lookup hit (goroutine 0 at RSend 0) the request is
   cancelled and cleaned up, its id registered again (slot 1), a second response with the id
   arrives and is routed concurrently, the first requester reads between send and close *)
Example C07_hit_example :
  let s := c_run c_init [ARegister 1; AArrive (result 1 10); ARouter 0] in
  let s' := c_run s [ACancel 0; ACancelDelete 0; ARegister 1; AArrive (result 1 11); ARouter 1;
                     ARouter 0; ARecv 0; ARouter 1; ARouter 0; ARouter 1; ARecv 1] in
  (map r_pc (routers s), steps_of 0 [ARouter 1; ARouter 0; ARecv 0; ARouter 0],
   map (fun ch => (c_owner ch, contents ch, c_closed ch)) (chans s'), ordinary s', map r_pc (routers s'))
  = ([RSend 0%nat], 2%nat,
     [(1, [result 1 10], true); (1, [result 1 11], true)], [], [RDone; RDone]).
Proof. vm_compute. reflexivity. Qed.

(* the hypothesis of C07_early_response_any_time is satisfiable by a non-trivial schedule:
   other requests, a clashing registration, a clashing get, a foreign response, a
   cancellation of another request in between *)
Example C07_untouched_example :
  untouched (c_step c_init (ARegister 1)) 1 0%nat
    [ARegister 2; ARegister 1; AArrive (request 1 7); AArrive (result 9 12); ARouter 0; ARouter 1; ACancel 1;
     AArrive (result 2 13); ARouter 2; ARouter 0; ARecv 0] = true.
Proof. vm_compute. reflexivity. Qed.

Print Assumptions C07_no_panic.
Print Assumptions C07_at_most_once.
Print Assumptions C07_closed_is_final.
Print Assumptions C07_right_owner.
Print Assumptions C07_never_blocks.
Print Assumptions C07_router_finishes_any_schedule.
Print Assumptions C07_rank_at_most_three.
Print Assumptions C07_hit_step.
Print Assumptions C07_hit_delivers_any_schedule.
Print Assumptions C07_cancelled_hit_any_schedule.
Print Assumptions C07_conservation.
Print Assumptions C07_conservation_quiescent.
Print Assumptions C07_early_response.
Print Assumptions C07_early_response_any_time.
Print Assumptions C07_cancel_then_ordinary.
Print Assumptions C07_unmatched_then_ordinary.
Print Assumptions C07_invariant.
Print Assumptions C07_request_never_delivered.
Print Assumptions C07_request_routed_ordinarily.
Print Assumptions C07_clashing_id_refused.
Print Assumptions C07_refused_slots_inert.
Print Assumptions C07_pending_kept.
