(* C07 — IQ responses reach the SendIQ caller exactly once; duplicates and races harmless.
   Model/Conc.v: the pending-IQ table (Router.IQResultRoutes), the result channels, the
   routing goroutines, the canceller and SendIQ as an interleaving model of the FIXED code
   (lookup+delete in one critical section, one-slot buffered result channel, registration
   before the request is written, canceller/unregister delete only their own entry).
   One [act] is one atomic step of one goroutine; every theorem below is for EVERY
   schedule [l : list act] from the initial state: any number of concurrent requests with
   distinct or clashing ids, matching / duplicate / foreign responses, receivers reading or
   abandoning the channel (ARecv happens or not), cancellation at any point.
   What is runtime and NOT proved here: that the real scheduler's atomic actions are the
   model's (checked by forced schedules and stress in the harness), and fairness — "never
   blocks" is proved as: no routing goroutine is ever in a state where its next step is
   disabled, and each of its steps strictly advances it (three steps to completion). *)
From Coq Require Import List ZArith NArith Bool Lia Permutation.
From XV Require Import Lib.Sx Model.Conc Proofs.ConcP.
Import ListNotations.

(* never crashes: no send on a closed channel, no double close *)
Theorem C07_no_panic : forall l, panicked (c_run c_init l) = false.
Proof. exact no_panic. Qed.

(* each channel carries at most one value, ever (received + buffered <= 1); and no routing
   goroutine is ever about to send on / close a channel that is already closed *)
Theorem C07_at_most_once : forall l,
  let s := c_run c_init l in
  (forall c ch, nth_error (chans s) c = Some ch ->
     length (c_got ch) + (match c_buf ch with Some _ => 1 | None => 0 end) <= 1) /\
  (forall k t c ch, nth_error (routers s) k = Some t ->
     r_pc t = RSend c \/ r_pc t = RClose c \/ r_pc t = RCloseOrd c ->
     nth_error (chans s) c = Some ch -> c_closed ch = false).
Proof. exact reach_at_most_once. Qed.

(* once closed, a channel stays closed and its contents (received ++ buffered) never change
   again, whatever happens afterwards: a closed channel is never written again *)
Theorem C07_closed_is_final : forall l l' c ch,
  let s := c_run c_init l in
  nth_error (chans s) c = Some ch -> c_closed ch = true ->
  exists ch', nth_error (chans (c_run s l')) c = Some ch' /\ c_closed ch' = true /\
              contents ch' = contents ch /\ c_owner ch' = c_owner ch.
Proof. exact reach_closed_final. Qed.

(* never to another request: whatever sits in or was read from a channel has the id the
   request was registered under *)
Theorem C07_right_owner : forall l,
  let s := c_run c_init l in
  forall c ch v, nth_error (chans s) c = Some ch ->
    (c_buf ch = Some v \/ In v (c_got ch)) -> fst v = c_owner ch.
Proof. exact reach_right_owner. Qed.

(* packet processing never hangs: in every reachable state every routing goroutine's next
   step is enabled (its send always finds the buffer empty, also when the receiver has
   abandoned the channel: ARecv need never happen) ... *)
Theorem C07_never_blocks : forall l k, blocked (c_run c_init l) k = false.
Proof. exact reach_never_blocks. Qed.

(* ... and each step moves it strictly closer to completion (rank: RStart 3, RSend/RCloseOrd
   2, RClose/ROrd 1, RDone 0), so a synchronous (component-style) route call returns after
   at most three steps whatever the other goroutines do in between *)
Theorem C07_router_progress : forall l k t,
  let s := c_run c_init l in
  nth_error (routers s) k = Some t ->
  exists t', nth_error (routers (c_step s (ARouter k))) k = Some t' /\ r_iq t' = r_iq t /\
             rank (r_pc t') <= pred (rank (r_pc t)).
Proof. exact reach_progress. Qed.

(* every response that arrived is accounted for exactly once: handed to the ordinary routes,
   or delivered on a channel (read or buffered), or still with its routing goroutine *)
Theorem C07_conservation : forall l,
  let s := c_run c_init l in
  Permutation (arrived s) (ordinary s ++ delivered s ++ in_flight s).
Proof. exact conservation. Qed.

Theorem C07_conservation_quiescent : forall l,
  let s := c_run c_init l in
  (forall t, In t (routers s) -> r_pc t = RDone) ->
  Permutation (arrived s) (ordinary s ++ delivered s).
Proof. exact conservation_quiescent. Qed.

(* a response whose id has a pending entry (context not ended) is delivered on that
   request's channel, the channel is then closed, the entry removed, nothing goes to the
   ordinary routes and no other channel changes.  s is ANY reachable state with the entry
   present. *)
Theorem C07_early_response : forall l i v c,
  let s := c_run c_init l in
  lookup i (table s) = Some c ->
  (forall ch, nth_error (chans s) c = Some ch -> c_done ch = false) ->
  let k := length (routers s) in
  let s' := c_run s [AArrive (i, v); ARouter k; ARouter k; ARouter k] in
  (exists ch', nth_error (chans s') c = Some ch' /\ c_owner ch' = i /\ c_closed ch' = true /\
               c_buf ch' = Some (i, v) /\ c_got ch' = []) /\
  (forall d, d <> c -> nth_error (chans s') d = nth_error (chans s) d) /\
  lookup i (table s') = None /\ ordinary s' = ordinary s /\
  nth_error (routers s') k = Some {| r_iq := (i, v); r_pc := RDone |}.
Proof. exact reach_early_response. Qed.

(* ... and the entry IS present from registration on: the fixed SendIQ registers (ARegister)
   BEFORE it writes the request, so "immediately after the request was written" is any
   point after ARegister by construction.  After ARegister i, whatever schedule l follows
   that contains no cancellation / unregistration of that channel, no clashing
   registration of i and no other response with id i being taken ([untouched]), a response
   (i, v) arriving at any later point is delivered on that channel. *)
Theorem C07_early_response_any_time : forall l0 i l v,
  let s0 := c_run c_init l0 in
  let c := length (chans s0) in
  let s1 := c_step s0 (ARegister i) in
  untouched s1 i c l = true ->
  let s := c_run s1 l in
  let k := length (routers s) in
  let s' := c_run s [AArrive (i, v); ARouter k; ARouter k; ARouter k] in
  exists ch', nth_error (chans s') c = Some ch' /\ c_owner ch' = i /\ c_closed ch' = true /\
              c_buf ch' = Some (i, v) /\ c_got ch' = [] /\
              lookup i (table s') = None /\ ordinary s' = ordinary s.
Proof. exact reach_early_response_any_time. Qed.

(* a response racing with cancellation: if the context has ended when the entry is taken,
   the channel is closed without a value and the response goes to the ordinary routes
   exactly once ... *)
Theorem C07_cancel_then_ordinary : forall l i v c,
  let s := c_run c_init l in
  lookup i (table s) = Some c ->
  (forall ch, nth_error (chans s) c = Some ch -> c_done ch = true) ->
  let k := length (routers s) in
  let s' := c_run s [AArrive (i, v); ARouter k; ARouter k; ARouter k] in
  (exists ch', nth_error (chans s') c = Some ch' /\ c_closed ch' = true /\
               c_buf ch' = None /\ c_got ch' = []) /\
  (forall d, d <> c -> nth_error (chans s') d = nth_error (chans s) d) /\
  lookup i (table s') = None /\ ordinary s' = ordinary s ++ [(i, v)] /\
  nth_error (routers s') k = Some {| r_iq := (i, v); r_pc := RDone |}.
Proof. exact reach_cancelled_response. Qed.

(* ... and if the entry is gone (removed by the canceller, answered before = duplicate or
   late response, or a foreign id), the response is routed like any other packet, exactly
   once, and no channel is touched.  Holds in any state. *)
Theorem C07_unmatched_then_ordinary : forall s i v,
  lookup i (table s) = None ->
  let k := length (routers s) in
  let s' := c_run s [AArrive (i, v); ARouter k; ARouter k] in
  chans s' = chans s /\ table s' = table s /\ ordinary s' = ordinary s ++ [(i, v)] /\
  nth_error (routers s') k = Some {| r_iq := (i, v); r_pc := RDone |}.
Proof. exact unmatched_response. Qed.

(* the invariant behind all of the above holds along every schedule *)
Theorem C07_invariant : forall l, inv (c_run c_init l).
Proof. exact inv_reachable. Qed.

(* Three requests, two with the clashing id 1 (the second registration replaces the first);
   response (1,10) arrives twice, a second answer (1,11) with the same id and a foreign
   (9,12) arrive concurrently; request 2 is cancelled while its answer (2,13) is in flight;
   the first id-1 request is cancelled after having been replaced.  Channel 2 gets exactly
   (1,10) and is closed; channel 1 is closed empty; everything else goes to the ordinary
   routes once; nothing panics, all routing goroutines finish. *)
Local Open Scope N_scope.
Example C07_example :
  let s := c_run c_init
    [ARegister 1; ARegister 2; ARegister 1;
     AArrive (1, 10); AArrive (1, 11); AArrive (9, 12);
     ARouter 0; ARouter 1; ARouter 0; ARouter 2; ARouter 1; ARouter 0; ARecv 2; ARouter 2;
     ACancel 1; AArrive (2, 13); ARouter 3; ACancelDelete 1; ARouter 3; ARouter 3;
     ACancel 0; ACancelDelete 0;
     AArrive (1, 10); ARouter 4; ARouter 4; ARecv 2; ARecv 1] in
  (panicked s, map (fun ch => (c_owner ch, c_got ch, c_buf ch, c_closed ch)) (chans s),
   ordinary s, table s, map r_pc (routers s), in_flight s)
  = (false,
     [(1, [], None, false); (2, [], None, true); (1, [(1, 10)], None, true)],
     [(1, 11); (9, 12); (2, 13); (1, 10)], [], [RDone; RDone; RDone; RDone; RDone], []).
Proof. vm_compute. reflexivity. Qed.

(* the hypothesis of C07_early_response_any_time is satisfiable by a non-trivial schedule:
   other requests, a foreign response, a cancellation of another request in between *)
Example C07_untouched_example :
  untouched (c_step c_init (ARegister 1)) 1 0%nat
    [ARegister 2; AArrive (9, 12); ARouter 0; ACancel 1; AArrive (2, 13); ARouter 1; ARouter 0; ARecv 0] = true.
Proof. vm_compute. reflexivity. Qed.

Print Assumptions C07_no_panic.
Print Assumptions C07_at_most_once.
Print Assumptions C07_closed_is_final.
Print Assumptions C07_right_owner.
Print Assumptions C07_never_blocks.
Print Assumptions C07_router_progress.
Print Assumptions C07_conservation.
Print Assumptions C07_conservation_quiescent.
Print Assumptions C07_early_response.
Print Assumptions C07_early_response_any_time.
Print Assumptions C07_cancel_then_ordinary.
Print Assumptions C07_unmatched_then_ordinary.
Print Assumptions C07_invariant.
