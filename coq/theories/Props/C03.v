(* C03 — negotiation succeeds iff the server completed every mandatory step, in order.
   [connect] is the model of Client.connect + NewSession (Model/Session.v);
   [completes] is an independent declarative reading of RFC 6120 sections 4-7 and XEP-0198
   (Model/SessionSpec.v).  Server behaviour ranges over ALL scripts (lists over
   the reply alphabet [sitem], including unexpected elements, malformed XML, close). *)
From Coq Require Import List ZArith NArith Bool.
From XV Require Import Lib.Sx Model.Session Model.SessionSpec Proofs.SessionP Proofs.SessionSpecP Proofs.SessionWaitP Proofs.SessionSmP Proofs.SessionEvP Proofs.SessionWsP.
Import ListNotations.

(* success <-> every mandatory step completed.  [connect] = transport.Connect + NewSession. *)
Theorem C03_connect_ok_iff : forall cfg dial tls p script,
  res (connect cfg dial tls p script) = Ok <-> completes cfg dial tls p script.
Proof. exact connect_ok. Qed.

(* "- and the session-established state is announced - exactly when ...": [client_connect] is
   Client.connect, i.e. [connect] plus what the EventHandler is told while it runs.  The
   announcement is made iff the script completes, iff the call succeeds; it is made once,
   and a failing attempt announces nothing at all (no Disconnected either). *)
Theorem C03_established_iff : forall cfg dial tls p script,
  In EvEstablished (evs (client_connect cfg dial tls p script)) <-> completes cfg dial tls p script.
Proof. exact established_iff. Qed.

Theorem C03_established_iff_success : forall cfg dial tls p script,
  In EvEstablished (evs (client_connect cfg dial tls p script)) <->
  cres (client_connect cfg dial tls p script) = Ok.
Proof. exact established_result. Qed.

Theorem C03_established_once : forall cfg dial tls p script,
  (count_ev EvEstablished (evs (client_connect cfg dial tls p script)) <= 1)%nat /\
  (cres (client_connect cfg dial tls p script) = Ok ->
   evs (client_connect cfg dial tls p script) = [EvEstablished]) /\
  (cres (client_connect cfg dial tls p script) <> Ok -> evs (client_connect cfg dial tls p script) = []).
Proof. exact established_once. Qed.

(* the same over histories of connections on one Client (failed attempts in between
   included): the application sees exactly the connections of [run_conns], each with one
   announcement when it succeeded and none when it failed *)
Theorem C03_history_established : forall cfg cs p,
  map fst (run_clients cfg p cs) = run_conns cfg p cs /\
  Forall (fun x => evs x = announce (cres x)) (run_clients cfg p cs).
Proof. intros cfg cs p. exact (run_clients_spec cfg cs p). Qed.

(* whatever else the server answers, the result is an error and nothing is announced *)
Theorem C03_otherwise_error : forall cfg dial tls p script,
  ~ completes cfg dial tls p script ->
  (exists ce perm, res (connect cfg dial tls p script) = Err ce perm) /\
  evs (client_connect cfg dial tls p script) = [].
Proof.
  intros cfg dial tls p script H. rewrite client_connect_evs.
  destruct (res (connect cfg dial tls p script)) eqn:E.
  - exfalso. apply H. apply connect_ok. exact E.
  - split; [eauto|reflexivity].
Qed.

(* "TLS when required": [completes] makes STARTTLS part of every complete negotiation as soon
   as the server OFFERS it, whether it marks it required or not and whether the client allows
   clear text (Insecure) or not; it is absent only when the server does not offer it, which
   completes only with Insecure.  This is the reading of "required" the code implements
   (RFC 6120 5.3.1: a client SHOULD use STARTTLS when offered; 5.4.2.2 / 5.4.3.2: after a
   <failure/> or a failed handshake the stream and the connection MUST be ended, so there is
   no falling back to clear text on the same connection).  Stated on its own so that the
   decision is visible: *)
Theorem C03_offered_tls_is_mandatory : forall cfg dial tls p id f s2,
  f_tls f <> TlsNone ->
  res (connect cfg dial tls p (SHeader id :: SFeatures f :: s2)) = Ok ->
  tls = true /\ exists r, s2 = SProceed :: r.
Proof. exact offered_tls_mandatory. Qed.

(* the client's requests always form a prefix-closed word of the RFC 6120 order:
   open [starttls open] [auth [open [resume] [bind [session] [enable]]]] *)
Theorem C03_requests_ordered : forall cfg dial tls p script,
  ordered (reqs (outs (connect cfg dial tls p script))) = true.
Proof. exact connect_ordered. Qed.

(* "each sent only after the previous step was confirmed": every request carries (ghost
   [o_seen]) the server items the client consumed since its previous request; the
   first request follows nothing, and every later one follows exactly the items that
   confirm the request before it ([confirms]: header+features after an open,
   <proceed/> after <starttls/>, <success/> after <auth/>, <failed/> after <resume/>
   when a bind follows, the bind result, the session result) ... *)
Theorem C03_waits_for_confirmation : forall cfg dial tls p script,
  chain None (outs (connect cfg dial tls p script)) = true.
Proof. exact connect_chain. Qed.

(* ... and the ghost is what was really read from this server: the items the client
   had consumed when it sent its last request are a prefix of the script, so request k
   cannot have been sent before the server had produced the first
   |o_seen 1| + ... + |o_seen k| items (the scripted server checks exactly this
   inequality against the number of items it had sent when each request arrived) *)
Theorem C03_seen_is_read : forall cfg dial tls p script,
  exists rest, script = consumed (outs (connect cfg dial tls p script)) ++ rest.
Proof. exact connect_consumed. Qed.

(* ... and every request is one the client has business sending, on failing negotiations as
   well as on successful ones ([justified], Model/SessionSpec.v): <starttls/> only when
   offered, <auth/> only with a mechanism of the credential that is implemented and listed by
   a features element of this server, <resume/> only with the id and count held on a stream
   offering stream management, the configured resource in the bind request, the legacy
   session only when mandatory, <enable/> only when the application asked for stream
   management and the server offers it, with the resume flag it wished for unless an earlier
   <enabled/> on this Client did not grant resumption ([resume_wish]) *)
Theorem C03_requests_justified : forall cfg dial tls p script,
  Forall (justified cfg p script) (reqs (outs (connect cfg dial tls p script))).
Proof. exact connect_just. Qed.

(* ---- either transport: the WebSocket transport ([connect_ws], Model/Session.v) ----
   It is secure from the start (wss://) or not at all (ws://) and never does STARTTLS.
   Connecting succeeds exactly when the stream is opened, the transport is secure or Insecure
   allows clear text, and authentication, restart and the rest complete as over TCP; the
   requests are in RFC 6120 order, and in particular there is NO stream restart before
   authentication: whatever the server does, the request after the stream open is <auth/>;
   each request follows the confirmation of the one before. *)
Theorem C03_ws_connect_ok_iff : forall cfg dial secure p script,
  res (connect_ws cfg dial secure p script) = Ok <-> completes_ws cfg dial secure p script.
Proof. exact connect_ws_ok. Qed.

Theorem C03_ws_requests_ordered : forall cfg dial secure p script,
  ordered (reqs (outs (connect_ws cfg dial secure p script))) = true /\
  match reqs (outs (connect_ws cfg dial secure p script)) with
  | [] | [ROpen] | ROpen :: RAuth _ :: _ => True
  | _ => False
  end.
Proof.
  intros cfg dial secure p script. split; [apply connect_ws_ordered|apply connect_ws_second_request].
Qed.

Theorem C03_ws_waits_for_confirmation : forall cfg dial secure p script,
  chain None (outs (connect_ws cfg dial secure p script)) = true.
Proof. exact connect_ws_chain. Qed.

(* Limits of the reply alphabet (Model/Session.v, [sitem]): an item is what the XML reader of the
   library (encoding/xml) delivers.  XML that is ill-formed in a way encoding/xml does not check
   - the same attribute twice in one start tag, <iq type='error' id='1' type='result'> - is read
   as the element with the values encoding/xml hands out and is not a separate "malformed" item:
   well-formedness beyond what the reader checks is outside the alphabet (hunt2-C03/f4, judged
   not a violation of the text: the server DID send type='result').  An <iq/> counts as the
   answer to the bind / session request only in the stream's namespace and with the id of that
   request; the stream is opened only by the opening element of the transport in use; the bind
   result carries a non-empty JID (see the comment at [sitem]). *)

(* "never hangs, never panics" are NOT theorems here.  [connect] is a total function that
   pattern-matches a finite prefix of the script (C03_seen_is_read), which only says that the
   model never waits for anything but the next server item; blocking inside the real
   transport (Close waits for ConnectTimeout), a silent server (no read deadline in the
   code) and Go panics are observed by the harness (hang verdict, crash journal), not proved.
   Non-vacuity: a full negotiation with TLS, resumption refused, bind, mandatory session and
   stream management. *)
Example C03_example :
  let f0 := {| f_tls := TlsRequired; f_mechs := []; f_bind := false; f_sess := SessAbsent; f_sm := false |} in
  let f1 := {| f_tls := TlsNone; f_mechs := [mech_plain]; f_bind := false; f_sess := SessAbsent; f_sm := false |} in
  let f2 := {| f_tls := TlsNone; f_mechs := []; f_bind := true; f_sess := SessMandatory; f_sm := true |} in
  let cfg := {| c_insecure := false; c_resource := []; c_sm_resume := true; c_mechs := [mech_plain] |} in
  let p := set_sm (fresh true) [7%N] false in
  let script := [SHeader []; SFeatures f0; SProceed; SHeader []; SFeatures f1; SSuccess; SHeader [];
                 SFeatures f2; SFailed; SIq TResult (PlBind [1%N]) false; SIq TResult PlNone false;
                 SEnabled [9%N] ResTrue] in
  res (connect cfg true true p script) = Ok /\
  reqs (outs (connect cfg true true p script))
   = [ROpen; RStartTls; ROpen; RAuth mech_plain; ROpen; RResume [7%N] 0; RBind [] 1; RSession 2; REnable true] /\
  map o_seen (outs (connect cfg true true p script))
   = [[]; [SHeader []; SFeatures f0]; [SProceed]; [SHeader []; SFeatures f1]; [SSuccess]; [SHeader []; SFeatures f2];
      [SFailed]; [SIq TResult (PlBind [1%N]) false]; [SIq TResult PlNone false]] /\
  evs (client_connect cfg true true p script) = [EvEstablished] /\
  evs (client_connect cfg true false p script) = [].
Proof. repeat split; reflexivity. Qed.

Print Assumptions C03_connect_ok_iff.
Print Assumptions C03_established_iff.
Print Assumptions C03_established_iff_success.
Print Assumptions C03_established_once.
Print Assumptions C03_history_established.
Print Assumptions C03_offered_tls_is_mandatory.
Print Assumptions C03_requests_justified.
Print Assumptions C03_ws_connect_ok_iff.
Print Assumptions C03_ws_requests_ordered.
Print Assumptions C03_ws_waits_for_confirmation.
Print Assumptions C03_otherwise_error.
Print Assumptions C03_requests_ordered.
Print Assumptions C03_waits_for_confirmation.
Print Assumptions C03_seen_is_read.
