(* C03 — negotiation succeeds iff the server completed every mandatory step, in order.
   [connect] is the model of Client.connect + NewSession (Model/Session.v);
   [completes] is an independent declarative reading of RFC 6120 sections 4-7 and XEP-0198
   (Model/SessionSpec.v).  Server behaviour ranges over ALL scripts (lists over
   the reply alphabet [sitem], including unexpected elements, malformed XML, close). *)
From Coq Require Import List ZArith NArith Bool.
From XV Require Import Lib.Sx Model.Session Model.SessionSpec Proofs.SessionP Proofs.SessionSpecP.
Import ListNotations.

(* success (and with it the SessionEstablished announcement, which Client.connect
   makes exactly on the success path) <-> every mandatory step completed *)
Theorem C03_connect_ok_iff : forall cfg dial tls p script,
  res (connect cfg dial tls p script) = Ok <-> completes cfg dial tls p script.
Proof. exact connect_ok. Qed.

(* whatever else the server answers, the result is an error: contrapositive of the
   above, stated for readability *)
Theorem C03_otherwise_error : forall cfg dial tls p script,
  ~ completes cfg dial tls p script ->
  exists ce perm, res (connect cfg dial tls p script) = Err ce perm.
Proof.
  intros cfg dial tls p script H. destruct (res (connect cfg dial tls p script)) eqn:E.
  - exfalso. apply H. apply connect_ok. exact E.
  - eauto.
Qed.

(* the client's requests always form a prefix-closed word of the RFC 6120 order:
   open [starttls open] [auth [open [resume] [bind [session] [enable]]]] *)
Theorem C03_requests_ordered : forall cfg dial tls p script,
  ordered (reqs (outs (connect cfg dial tls p script))) = true.
Proof. exact connect_ordered. Qed.

(* [connect] is a total function defined by structural case analysis on a finite
   script prefix: it returns for every script (never stuck), reading at most the
   items it pattern-matches. Non-vacuity: a full negotiation with TLS, resumption
   refused, bind, mandatory session and stream management. *)
Example C03_example :
  let f0 := {| f_tls := TlsRequired; f_mechs := []; f_bind := false; f_sess := SessAbsent; f_sm := false |} in
  let f1 := {| f_tls := TlsNone; f_mechs := [mech_plain]; f_bind := false; f_sess := SessAbsent; f_sm := false |} in
  let f2 := {| f_tls := TlsNone; f_mechs := []; f_bind := true; f_sess := SessMandatory; f_sm := true |} in
  let cfg := {| c_insecure := false; c_resource := []; c_sm_resume := true; c_mechs := [mech_plain] |} in
  let p := set_sm (fresh true) [7%N] true in
  let script := [SHeader []; SFeatures f0; SProceed; SHeader []; SFeatures f1; SSuccess; SHeader [];
                 SFeatures f2; SFailed; SIq TResult (PlBind [1%N]) false; SIq TResult PlNone false;
                 SEnabled [9%N] ResTrue] in
  res (connect cfg true true p script) = Ok /\
  reqs (outs (connect cfg true true p script))
   = [ROpen; RStartTls; ROpen; RAuth mech_plain; ROpen; RResume [7%N] 0; RBind [] 1; RSession 2; REnable true].
Proof. split; reflexivity. Qed.

Print Assumptions C03_connect_ok_iff.
Print Assumptions C03_otherwise_error.
Print Assumptions C03_requests_ordered.
