(* C03 — negotiation succeeds iff the server completed every mandatory step, in order.
   [connect] is the model of Client.connect + NewSession (Model/Session.v);
   [completes] is an independent declarative reading of RFC 6120 sections 4-7 and XEP-0198
   (Model/SessionSpec.v).  Server behaviour ranges over ALL scripts (lists over
   the reply alphabet [sitem], including unexpected elements, malformed XML, close). *)
From Coq Require Import List ZArith NArith Bool.
From XV Require Import Lib.Sx Model.Session Model.SessionSpec Proofs.SessionP Proofs.SessionSpecP Proofs.SessionWaitP.
Import ListNotations.

(* success (and with it the SessionEstablished announcement, which Client.connect
   makes exactly on the success path) <-> every mandatory step completed *)
Theorem C03_connect_ok_iff : forall cfg dial tls p script,
  res (connect cfg dial tls p script) = Ok <-> completes cfg dial tls p script.
Proof. exact connect_ok. Qed.

(* whatever else the server answers, the result is an error: contrapositive of the
   above, stated for readability *)
Theorem C03_otherwise_error : forall cfg dial tls p script,
  ~ completes cfg dial tls p script ->
  exists ce perm, res (connect cfg dial tls p script) = Err ce perm.
Proof.
  intros cfg dial tls p script H. destruct (res (connect cfg dial tls p script)) eqn:E.
  - exfalso. apply H. apply connect_ok. exact E.
  - eauto.
Qed.

(* the client's requests always form a prefix-closed word of the RFC 6120 order:
   open [starttls open] [auth [open [resume] [bind [session] [enable]]]] *)
Theorem C03_requests_ordered : forall cfg dial tls p script,
  ordered (reqs (outs (connect cfg dial tls p script))) = true.
Proof. exact connect_ordered. Qed.

(* "each sent only after the previous step was confirmed": every request carries (ghost
   [o_seen]) the server items the client consumed since its previous request; the
   first request follows nothing, and every later one follows exactly the items that
   confirm the request before it ([confirms]: header+features after an open,
   <proceed/> after <starttls/>, <success/> after <auth/>, <failed/> after <resume/>
   when a bind follows, the bind result, the session result) ... *)
Theorem C03_waits_for_confirmation : forall cfg dial tls p script,
  chain None (outs (connect cfg dial tls p script)) = true.
Proof. exact connect_chain. Qed.

(* ... and the ghost is what was really read from this server: the items the client
   had consumed when it sent its last request are a prefix of the script, so request k
   cannot have been sent before the server had produced the first
   |o_seen 1| + ... + |o_seen k| items (the scripted server checks exactly this
   inequality against the number of items it had sent when each request arrived) *)
Theorem C03_seen_is_read : forall cfg dial tls p script,
  exists rest, script = consumed (outs (connect cfg dial tls p script)) ++ rest.
Proof. exact connect_consumed. Qed.

(* [connect] is a total function defined by structural case analysis on a finite
   script prefix: it returns for every script (never stuck), reading at most the
   items it pattern-matches. Non-vacuity: a full negotiation with TLS, resumption
   refused, bind, mandatory session and stream management. *)
Example C03_example :
  let f0 := {| f_tls := TlsRequired; f_mechs := []; f_bind := false; f_sess := SessAbsent; f_sm := false |} in
  let f1 := {| f_tls := TlsNone; f_mechs := [mech_plain]; f_bind := false; f_sess := SessAbsent; f_sm := false |} in
  let f2 := {| f_tls := TlsNone; f_mechs := []; f_bind := true; f_sess := SessMandatory; f_sm := true |} in
  let cfg := {| c_insecure := false; c_resource := []; c_sm_resume := true; c_mechs := [mech_plain] |} in
  let p := set_sm (fresh true) [7%N] true in
  let script := [SHeader []; SFeatures f0; SProceed; SHeader []; SFeatures f1; SSuccess; SHeader [];
                 SFeatures f2; SFailed; SIq TResult (PlBind [1%N]) false; SIq TResult PlNone false;
                 SEnabled [9%N] ResTrue] in
  res (connect cfg true true p script) = Ok /\
  reqs (outs (connect cfg true true p script))
   = [ROpen; RStartTls; ROpen; RAuth mech_plain; ROpen; RResume [7%N] 0; RBind [] 1; RSession 2; REnable true] /\
  map o_seen (outs (connect cfg true true p script))
   = [[]; [SHeader []; SFeatures f0]; [SProceed]; [SHeader []; SFeatures f1]; [SSuccess]; [SHeader []; SFeatures f2];
      [SFailed]; [SIq TResult (PlBind [1%N]) false]; [SIq TResult PlNone false]].
Proof. repeat split; reflexivity. Qed.

Print Assumptions C03_connect_ok_iff.
Print Assumptions C03_otherwise_error.
Print Assumptions C03_requests_ordered.
Print Assumptions C03_waits_for_confirmation.
Print Assumptions C03_seen_is_read.
