(* C02 - stream parsing: exactly one packet per top-level element, of the right kind, with
   the addressing attributes of that element, whatever the element contains; unknown
   elements yield errors; reading is total.
   Only statements, closed by [exact] / short applications, with their assumptions printed.

   Token-level model (Model/XmlTree.v, Model/Parser.v).  [reg] is the extension registry
   (any; the checks run with Generated.registry).  The second argument [true] of
   next_packet / run_packets selects the repaired tree (unknown children of message,
   presence and forwarded are skipped with d.Skip()); [false] is the unchanged tree.

   NOT covered by these theorems (decided by enumeration in harness/c02.go, "test, not
   theorem"): the byte -> token step of encoding/xml, "however the bytes are split across
   reads", and "on arbitrary or malformed bytes an error in bounded time, no panic". *)
From Coq Require Import List ZArith NArith Bool String.
From XV Require Import Lib.Sx Model.XmlTree Model.Parser Proofs.XmlTreeP Proofs.ParserP
  Gen.Generated.
Import ListNotations.
Local Open Scope nat_scope.

(* FRAMING.  [items]: any list of top-level items - elements whose (namespace, local) the
   switch nest of NextPacket dispatches, with white space / comments / processing
   instructions between them.  [top_ok] leaves the CHILDREN ARBITRARY TREES (unknown
   namespaces, any depth, elements named message / presence / iq / body / error / failed at
   any depth) and demands only: (a) a child that the registry maps to a Go type is
   well-typed for that type ([ext_ok]: forced by the proof, confirmed on the code - D18);
   (b) children of <failed/> are listed conditions in the stanzas namespace (D23);
   (c) the element's own uint attribute (h of a / resumed / resume, max of enabled) converts.
   Then successive NextPacket calls return exactly the packets of the elements, in order,
   then the close packet, then "connection closed". *)
Theorem C02_framing : forall reg (items : list node),
  forallb (top_ok reg) items = true ->
  run_packets reg true (flatten_all items ++ [TEnd stream_name])
  = pkts_of items ++ [PClose; Err EEof].
Proof. exact framing_closed. Qed.

(* the same when the input just ends *)
Theorem C02_framing_eof : forall reg (items : list node),
  forallb (top_ok reg) items = true ->
  run_packets reg true (flatten_all items) = pkts_of items ++ [Err EEof].
Proof. exact framing_eof. Qed.

(* one element: the packet and the cursor exactly after its end tag, whatever follows *)
Theorem C02_one_element : forall reg n a cs rest tk,
  classify n = inl tk -> top_ok reg (NElem n a cs) = true ->
  next_packet reg true (flatten (NElem n a cs) ++ rest) = (pkt_of_top tk a, rest).
Proof.
  intros reg n a cs rest tk Hc Hok. cbn [top_ok] in Hok. rewrite Hc in Hok.
  apply andb_true_iff in Hok as [H1 H2]. now apply next_packet_elem.
Qed.

(* UNKNOWN IS ERROR: an element whose (namespace, local) is not dispatchable yields an
   error, never a packet (both variants of the tree, any content), and ends the run. *)
Theorem C02_unknown_is_error : forall reg rp n a cs rest,
  dispatchable n = false ->
  exists e, fst (next_packet reg rp (flatten (NElem n a cs) ++ rest)) = Err e
            /\ (e = EUnexpected \/ e = EUnknownNs).
Proof.
  intros reg rp n a cs rest H. unfold dispatchable in H.
  destruct (classify n) as [tk|e] eqn:Hc; [discriminate|].
  exists e. split; [now apply next_packet_unknown | now apply (classify_err n)].
Qed.

Theorem C02_unknown_stops : forall reg items n a cs rest e,
  forallb (top_ok reg) items = true -> classify n = inr e ->
  run_packets reg true (flatten_all items ++ flatten (NElem n a cs) ++ rest)
  = pkts_of items ++ [Err e].
Proof. exact unknown_stops. Qed.

(* the stream's end tag yields the close packet *)
Theorem C02_stream_close : forall reg rp rest,
  next_packet reg rp (TEnd stream_name :: rest) = (PClose, rest).
Proof.
  intros. unfold next_packet. cbn [next_token]. now rewrite name_eqb_refl.
Qed.

(* TOTAL / PROGRESS (both variants, ARBITRARY token lists): every non-error result
   consumed at least one token; a run is a list of non-error packets ended by exactly one
   error; no fuel of the model is ever exhausted. *)
Theorem C02_progress : forall reg rp ts p r,
  next_packet reg rp ts = (p, r) -> is_err p = false -> List.length r < List.length ts.
Proof. exact next_packet_progress. Qed.

Theorem C02_run_shape : forall reg rp ts,
  exists ps e, run_packets reg rp ts = ps ++ [Err e]
               /\ forallb (fun p => negb (is_err p)) ps = true.
Proof. intros. apply run_shape. unfold lt. apply le_n. Qed.

Theorem C02_terminates : forall reg rp ts, ~ In (Err EFuel) (run_packets reg rp ts).
Proof. exact run_packets_no_fuel. Qed.

Theorem C02_loops_terminate : forall reg rp k self ts,
  loop (S (List.length ts)) (child_of reg rp k) self ts <> LFuel /\
  loop (S (List.length ts)) skip_h self ts <> LFuel /\
  loop (S (List.length ts)) (fwd_child rp) self ts <> LFuel /\
  loop (S (List.length ts)) (deleg_child rp) self ts <> LFuel /\
  loop (S (List.length ts)) failed_child self ts <> LFuel /\
  loop (S (List.length ts)) features_child self ts <> LFuel.
Proof.
  intros. split; [apply stanza_loop_no_fuel | apply inner_loops_no_fuel].
Qed.

(* ATTRIBUTES FROM THE OWN TAG: the packet of an element does not depend on its content,
   and each addressing attribute is the value of the LAST attribute of the start tag with
   that local name (the code does not look at the attribute's namespace: finding
   "qualified-attr-shadows"); absent => empty. *)
Theorem C02_attrs_from_own_tag : forall n a cs cs',
  pkts_of [NElem n a cs] = pkts_of [NElem n a cs'].
Proof. reflexivity. Qed.

Theorem C02_attr_value : forall l (a1 : list attr) ns v (a2 : list attr),
  (forall x : attr, In x a2 -> str_eqb (snd (fst x)) l = false) ->
  get_attr l (a1 ++ ((ns, l), v) :: a2) = v.
Proof. exact get_attr_last. Qed.

Theorem C02_attr_absent : forall l (a : list attr),
  (forall x : attr, In x a -> str_eqb (snd (fst x)) l = false) -> get_attr l a = [].
Proof. exact get_attr_absent. Qed.

(* ---- witnesses ---- *)
Definition cl (l : string) : name := (ns_client, bytes_of l).
Definition un (l : string) : name := (bytes_of "u", bytes_of l).
Definition at_ (l v : string) : attr := (([], bytes_of l), bytes_of v).

(* D3: <message><x xmlns='u'><message xmlns='jabber:client'/></x></message><presence/> *)
Definition d3_witness : list node :=
  [NElem (cl "message") [] [NElem (un "x") [] [NElem (cl "message") [] []]];
   NElem (cl "presence") [] []].

(* the unchanged tree violates framing on an input that meets every hypothesis *)
Theorem C02_unrepaired_refuted :
  forallb (top_ok registry) d3_witness = true /\
  run_packets registry false (flatten_all d3_witness ++ [TEnd stream_name]) = [Err EDecode] /\
  pkts_of d3_witness ++ [PClose; Err EEof] <> [Err EDecode].
Proof. split; [|split]; [vm_compute; reflexivity | vm_compute; reflexivity | discriminate]. Qed.

(* D18: the well-typedness hypothesis is needed - and is what the code does:
   <presence><x xmlns='http://jabber.org/protocol/muc'><history seconds='x'/></x></presence> *)
Definition d18_witness : list node :=
  [NElem (cl "presence") []
     [NElem muc_x_name [] [NElem (ns_muc, bytes_of "history") [at_ "seconds" "x"] []]];
   NElem (cl "presence") [] []].

Theorem C02_illtyped_extension_refuted :
  forallb (top_ok registry) d18_witness = false /\
  run_packets registry true (flatten_all d18_witness ++ [TEnd stream_name]) = [Err EDecode].
Proof. split; vm_compute; reflexivity. Qed.

(* non-vacuity: a stream whose elements contain unknown children, a nested same-named
   stanza (carbons shape), known child names below an unknown parent, a registered
   extension, an error child, white space and a comment between elements *)
Definition example_items : list node :=
  [ NText (bytes_of " ");
    NElem (cl "message") [at_ "id" "m1"; at_ "to" "a@b"; at_ "type" "chat"]
      [ NElem (cl "body") [] [NText (bytes_of "hi")];
        NElem (bytes_of "urn:xmpp:carbons:2", bytes_of "sent") []
          [ NElem forwarded_name []
              [ NElem (cl "message") [at_ "id" "inner"]
                  [ NElem (cl "body") [] [NText (bytes_of "fake")] ] ] ];
        NElem (bytes_of "urn:xmpp:receipts", bytes_of "request") [] [];
        NElem (un "x") [] [NElem (un "body") [] []; NElem (cl "message") [] []] ];
    NMisc;
    NElem (cl "iq") [at_ "id" "i1"; at_ "type" "error"]
      [ NElem (un "q") [] [NElem (cl "iq") [] []];
        NElem (cl "error") [at_ "type" "cancel"] [NElem (cl "error") [] []] ];
    NElem (ns_stream, bytes_of "features") [] [NElem starttls_name [] [NElem starttls_name [] []]];
    NElem (ns_sm, bytes_of "a") [at_ "h" "7"] [];
    NElem (ns_sm, bytes_of "failed") [] [NElem (ns_stanzas, bytes_of "conflict") [] []] ].

Example C02_example :
  forallb (top_ok registry) example_items = true /\
  List.length (pkts_of example_items) = 5 /\
  run_packets registry true (flatten_all example_items ++ [TEnd stream_name])
  = pkts_of example_items ++ [PClose; Err EEof].
Proof. split; [|split]; vm_compute; reflexivity. Qed.

Print Assumptions C02_framing.
Print Assumptions C02_framing_eof.
Print Assumptions C02_one_element.
Print Assumptions C02_unknown_is_error.
Print Assumptions C02_unknown_stops.
Print Assumptions C02_stream_close.
Print Assumptions C02_progress.
Print Assumptions C02_run_shape.
Print Assumptions C02_terminates.
Print Assumptions C02_loops_terminate.
Print Assumptions C02_attrs_from_own_tag.
Print Assumptions C02_attr_value.
Print Assumptions C02_attr_absent.
Print Assumptions C02_unrepaired_refuted.
Print Assumptions C02_illtyped_extension_refuted.
