(* C02 - stream parsing: exactly one packet per top-level element, of the right kind, with
   the addressing attributes of that element, whatever the element contains; unknown
   elements yield errors; reading is total.
   Only statements, closed by [exact] / short applications, with their assumptions printed.

   Token-level model (Model/XmlTree.v, Model/Parser.v).  [reg] is the extension registry
   (any; the checks run with Generated.registry).  The second argument [true] of
   [tok] is the model's parameter "DecodeElement of this registered / feature child into its
   Go struct succeeds" (every typed field converts); the instance compared with the code is
   Parser.go_typed_ok (MUC history conversions; result sets of every iq payload, of message
   delegation and of the bind / session stream features).  The second argument [true] of
   next_packet / run_packets selects the repaired tree (unknown children of message,
   presence and forwarded are skipped with d.Skip()); [false] is the unchanged tree.

   NOT covered by these theorems (decided by enumeration in harness/c02.go, "test, not
   theorem"): the byte -> token step of encoding/xml, "however the bytes are split across
   reads", and "on arbitrary or malformed bytes an error in bounded time, no panic". *)
From Coq Require Import List ZArith NArith Bool String.
From XV Require Import Lib.Sx Model.XmlTree Model.Parser Proofs.XmlTreeP Proofs.ParserP
  Gen.Generated.
From XV Require Import Model.XmlText Model.XmlPrint Model.XmlLex Model.XmlBridge Proofs.XmlBridgeP.
Import ListNotations.
Local Open Scope nat_scope.

(* FRAMING.  [items]: any list of top-level items - elements whose (namespace, local) the
   switch nest of NextPacket dispatches, with white space / comments / processing
   instructions between them.  [top_ok] leaves the CHILDREN ARBITRARY TREES (unknown
   namespaces, any depth, elements named message / presence / iq / body / error / failed at
   any depth) and EXCLUDES EXACTLY:
   (a) a stanza child that the registry maps to a Go type, or a child of <stream:features/>
       other than <starttls/>, on which [tok] says the typed fields do not convert
       (known findings illtyped-extension, illtyped-rsm; witnesses C02_illtyped_*_refuted);
   (b) a presence whose own-namespace <priority/> has character data that does not convert
       to int8 (known finding illtyped-priority; C02_illtyped_priority_refuted);
   (c) an <a/>, <resumed/>, <resume/> (h) or <enabled/> (max) whose unqualified uint
       attribute does not convert (known finding illtyped-sm-attr).
   On each of these the code returns an error instead of the packet (the property's text makes
   no such exception: they are recorded findings, not permissions).  Nothing is asked of
   <failed/>, of SASL / handshake / stream-error elements (their structs have no typed field),
   nor of unregistered children.
   Then successive NextPacket calls return exactly the packets of the elements, in order,
   then the close packet, then "connection closed". *)
Theorem C02_framing : forall reg tok (items : list node),
  forallb (top_ok reg tok) items = true ->
  run_packets reg true tok (flatten_all items ++ [TEnd stream_name])
  = pkts_of items ++ [PClose; Err EEof].
Proof. exact framing_closed. Qed.

(* the same when the input just ends *)
Theorem C02_framing_eof : forall reg tok (items : list node),
  forallb (top_ok reg tok) items = true ->
  run_packets reg true tok (flatten_all items) = pkts_of items ++ [Err EEof].
Proof. exact framing_eof. Qed.

(* one element: the packet and the cursor exactly after its end tag, whatever follows *)
Theorem C02_one_element : forall reg tok n a cs rest tk,
  classify n = inl tk -> top_ok reg tok (NElem n a cs) = true ->
  next_packet reg true tok (flatten (NElem n a cs) ++ rest) = (pkt_of_top tk a, rest).
Proof.
  intros reg tok n a cs rest tk Hc Hok. cbn [top_ok] in Hok. rewrite Hc in Hok.
  apply andb_true_iff in Hok as [H1 H2]. now apply next_packet_elem.
Qed.

(* UNKNOWN IS ERROR: an element whose (namespace, local) is not dispatchable yields an
   error, never a packet (both variants of the tree, any content), and ends the run. *)
Theorem C02_unknown_is_error : forall reg tok rp n a cs rest,
  dispatchable n = false ->
  exists e, fst (next_packet reg rp tok (flatten (NElem n a cs) ++ rest)) = Err e
            /\ (e = EUnexpected \/ e = EUnknownNs).
Proof.
  intros reg tok rp n a cs rest H. unfold dispatchable in H.
  destruct (classify n) as [tk|e] eqn:Hc; [discriminate|].
  exists e. split; [now apply next_packet_unknown | now apply (classify_err n)].
Qed.

Theorem C02_unknown_stops : forall reg tok items n a cs rest e,
  forallb (top_ok reg tok) items = true -> classify n = inr e ->
  run_packets reg true tok (flatten_all items ++ flatten (NElem n a cs) ++ rest)
  = pkts_of items ++ [Err e].
Proof. exact unknown_stops. Qed.

(* TRUNCATION inside an element (token level): the input ends anywhere strictly inside a
   dispatchable element - after its start tag, in the middle of its content, before its end
   tag.  The elements before it yield exactly their packets; the cut element yields no packet
   but an error, whatever it contains (no hypothesis on the cut element's content). *)
Theorem C02_truncated : forall reg tok items n a cs pre suf,
  forallb (top_ok reg tok) items = true -> dispatchable n = true ->
  flatten (NElem n a cs) = pre ++ suf -> pre <> [] -> suf <> [] ->
  run_packets reg true tok (flatten_all items ++ pre) = pkts_of items ++ [Err EDecode].
Proof. exact truncated_stops. Qed.

(* the stream's end tag yields the close packet *)
Theorem C02_stream_close : forall reg tok rp rest,
  next_packet reg rp tok (TEnd stream_name :: rest) = (PClose, rest).
Proof.
  intros. unfold next_packet. cbn [next_token]. now rewrite name_eqb_refl.
Qed.

(* TOTAL / PROGRESS (both variants, ARBITRARY token lists): every non-error result
   consumed at least one token; a run is a list of non-error packets ended by exactly one
   error; no fuel of the model is ever exhausted. *)
Theorem C02_progress : forall reg tok rp ts p r,
  next_packet reg rp tok ts = (p, r) -> is_err p = false -> List.length r < List.length ts.
Proof. exact next_packet_progress. Qed.

Theorem C02_run_shape : forall reg tok rp ts,
  exists ps e, run_packets reg rp tok ts = ps ++ [Err e]
               /\ forallb (fun p => negb (is_err p)) ps = true.
Proof. intros. apply run_shape. unfold lt. apply le_n. Qed.

Theorem C02_terminates : forall reg tok rp ts, ~ In (Err EFuel) (run_packets reg rp tok ts).
Proof. exact run_packets_no_fuel. Qed.

Theorem C02_loops_terminate : forall reg tok rp sns k self ts,
  loop (S (List.length ts)) (child_of reg rp tok sns k) self ts <> LFuel /\
  loop (S (List.length ts)) skip_h self ts <> LFuel /\
  loop (S (List.length ts)) (fwd_child rp) self ts <> LFuel /\
  loop (S (List.length ts)) (deleg_child rp) self ts <> LFuel /\
  loop (S (List.length ts)) failed_child self ts <> LFuel /\
  loop (S (List.length ts)) (features_child tok) self ts <> LFuel.
Proof.
  intros. split; [apply stanza_loop_no_fuel | apply inner_loops_no_fuel].
Qed.

(* ATTRIBUTES FROM THE OWN TAG: the packet of an element does not depend on its content;
   each addressing attribute (type, id, from, to, lang - for message, presence AND iq) is
   read from the element's own UNQUALIFIED attributes, xml:lang counting for lang:
   - a namespace-qualified attribute (p:id, xmlns:id, ...; everything [attr_accepted]
     rejects) never matters, wherever it stands (C02_attr_qualified_ignored /
     C02_attr_only_accepted);
   - the value is that of the last accepted attribute of that local name (C02_attr_value),
     in particular of the unqualified one when it is the only such; absent => empty. *)
Theorem C02_attrs_from_own_tag : forall reg tok n (a : list attr) cs cs' rest (q : attr) a1 a2,
  (* the packet returned for an element does not depend on the element's content ... *)
  (top_ok reg tok (NElem n a cs) = true -> top_ok reg tok (NElem n a cs') = true ->
   fst (next_packet reg true tok (flatten (NElem n a cs) ++ rest))
   = fst (next_packet reg true tok (flatten (NElem n a cs') ++ rest))) /\
  (* ... nor on a qualified attribute of its start tag *)
  (attr_accepted q = false ->
   pkts_of [NElem n (a1 ++ q :: a2) cs] = pkts_of [NElem n (a1 ++ a2) cs]).
Proof.
  intros. split.
  - intros H1 H2. pose proof H1 as H1'. cbn [top_ok] in H1'.
    destruct (classify n) as [tk|e] eqn:Hc; [|discriminate].
    now rewrite (C02_one_element reg tok n a cs rest tk Hc H1),
                (C02_one_element reg tok n a cs' rest tk Hc H2).
  - intros Hq. unfold pkts_of. cbn [flat_map].
    destruct (classify n) as [[k| | |p u]|e]; try reflexivity.
    cbn [pkt_of_top]. unfold stanza_pkt, stanza_attrs.
    now rewrite !(get_attr_qualified _ a1 q a2 Hq).
Qed.

Theorem C02_attr_qualified_ignored : forall l (a1 : list attr) x (a2 : list attr),
  attr_accepted x = false -> get_attr l (a1 ++ x :: a2) = get_attr l (a1 ++ a2).
Proof. exact get_attr_qualified. Qed.

Theorem C02_attr_only_accepted : forall l (a : list attr),
  get_attr l a = get_attr l (filter attr_accepted a).
Proof. exact get_attr_filter. Qed.

Theorem C02_attr_value : forall l (a1 : list attr) ns v (a2 : list attr),
  attr_accepted ((ns, l), v) = true ->
  (forall x : attr, In x a2 -> attr_accepted x && str_eqb (snd (fst x)) l = false) ->
  get_attr l (a1 ++ ((ns, l), v) :: a2) = v.
Proof. exact get_attr_last. Qed.

Theorem C02_attr_absent : forall l (a : list attr),
  (forall x : attr, In x a -> attr_accepted x && str_eqb (snd (fst x)) l = false) ->
  get_attr l a = [].
Proof. exact get_attr_absent. Qed.

(* what is accepted: exactly the unqualified attributes and xml:lang *)
Theorem C02_accepted_iff : forall ns l v,
  attr_accepted ((ns, l), v) = true <->
  ns = [] \/ ((str_eqb ns s_xml = true \/ str_eqb ns ns_xml = true) /\ str_eqb l s_lang = true).
Proof.
  intros ns l v. unfold attr_accepted. cbn [fst snd]. destruct ns as [|c ns'].
  - cbn. split; auto.
  - cbn [is_nil orb]. rewrite andb_true_iff, orb_true_iff. split.
    + intros H. right. exact H.
    + intros [H|H]; [discriminate | exact H].
Qed.

(* FRAMING ON THE PRINTED BYTES (composition with C01's verified printer / lexer).
   [es]: any list of top-level element trees in the intersection of both domains:
   - C01's [wf_doc]: namespace-explicit trees (every element carries its namespace, no
     namespace-less element below a namespaced one), names without < > & quotes = / : or
     white space, XML-legal characters, no empty and no adjacent text nodes;
   - C02's [top_ok] on the bridged trees (dispatchable top-level name; children arbitrary
     trees of that class; hypotheses (a)-(c) of C02_framing).
   [print_stream es] is the concatenation of what xml.Marshal writes for each element
   (XmlPrint.print) followed by </stream:stream>; [stream_tokens] cuts that end tag off, runs
   C01's lexer and tree builder (default-namespace resolution) and hands the model the
   tokens of the bridged trees.  Then NextPacket, called until it fails, returns exactly
   the packets of the elements, the close packet and "connection closed".

   Chain:  bytes --[C01 lex + build: PROVED inverse of print, C01_lex_print / build_tree,
   list version lex_trees_print]--> trees --[bridge: a map, code points -> UTF-8]-->
   tokens --[C02_framing: PROVED]--> packets.
   What remains correspondence-only (tested, not proved): that Go's own tokenizer
   (encoding/xml Decoder.Token) yields on these bytes the tokens C01's lexer + builder
   yield (C01's harness compares parse results with xml.Unmarshal; C02's harness feeds
   Go's tokenizer its own serialisation, incl. prefixes, self-closing tags, single quotes,
   comments, CDATA - syntax outside C01's printed language), that xml.Marshal writes what
   XmlPrint.print writes (C01's harness, byte for byte), and the UTF-8 encoding [utf8]. *)
Theorem C02_framing_bytes : forall reg tok (es : list xtree),
  forallb wf_doc es = true ->
  forallb (top_ok reg tok) (bridge_trees es) = true ->
  option_map (run_packets reg true tok) (stream_tokens (print_stream es))
  = Some (pkts_of (bridge_trees es) ++ [PClose; Err EEof]).
Proof.
  intros reg tok es Hwf Hok. rewrite (stream_tokens_print es Hwf). cbn [option_map].
  f_equal. now apply framing_closed.
Qed.

(* the same when the bytes just end after the last element *)
Theorem C02_framing_bytes_eof : forall reg tok (es : list xtree),
  forallb wf_doc es = true ->
  forallb (top_ok reg tok) (bridge_trees es) = true ->
  option_map (run_packets reg true tok) (open_stream_tokens (print_open_stream es))
  = Some (pkts_of (bridge_trees es) ++ [Err EEof]).
Proof.
  intros reg tok es Hwf Hok. rewrite (open_stream_tokens_print es Hwf). cbn [option_map].
  f_equal. now apply framing_eof.
Qed.

(* the byte -> tree step alone: list version of C01_parse_print *)
Theorem C02_lex_print_stream : forall es : list xtree,
  forallb wf_doc es = true -> lex_trees (flat_map print es) = Some es.
Proof. exact lex_trees_print. Qed.

(* ---- witnesses ---- *)
Definition cl (l : string) : name := (ns_client, bytes_of l).
Definition un (l : string) : name := (bytes_of "u", bytes_of l).
Definition at_ (l v : string) : attr := (([], bytes_of l), bytes_of v).
Definition qat (ns l v : string) : attr := ((bytes_of ns, bytes_of l), bytes_of v).

(* D3: <message><x xmlns='u'><message xmlns='jabber:client'/></x></message><presence/> *)
Definition d3_witness : list node :=
  [NElem (cl "message") [] [NElem (un "x") [] [NElem (cl "message") [] []]];
   NElem (cl "presence") [] []].

(* the unchanged tree violates framing on an input that meets every hypothesis *)
Theorem C02_unrepaired_refuted :
  forallb (top_ok registry go_typed_ok) d3_witness = true /\
  run_packets registry false go_typed_ok (flatten_all d3_witness ++ [TEnd stream_name]) = [Err EDecode] /\
  pkts_of d3_witness ++ [PClose; Err EEof] <> [Err EDecode].
Proof. split; [|split]; [vm_compute; reflexivity | vm_compute; reflexivity | discriminate]. Qed.

(* D18: the well-typedness hypothesis is needed - and is what the code does:
   <presence><x xmlns='http://jabber.org/protocol/muc'><history seconds='x'/></x></presence> *)
Definition d18_witness : list node :=
  [NElem (cl "presence") []
     [NElem muc_x_name [] [NElem (ns_muc, bytes_of "history") [at_ "seconds" "x"] []]];
   NElem (cl "presence") [] []].

Theorem C02_illtyped_extension_refuted :
  forallb (top_ok registry go_typed_ok) d18_witness = false /\
  run_packets registry true go_typed_ok (flatten_all d18_witness ++ [TEnd stream_name]) = [Err EDecode].
Proof. split; vm_compute; reflexivity. Qed.

(* <presence><priority>high</priority></presence>: exclusion (b) is needed, and is what the
   code does (strconv.ParseInt error from DecodeElement(&pres.Priority)) *)
Definition prio_witness : list node :=
  [NElem (cl "presence") [] [NElem (cl "priority") [] [NText (bytes_of "high")]];
   NElem (cl "presence") [] []].
Theorem C02_illtyped_priority_refuted :
  forallb (top_ok registry go_typed_ok) prio_witness = false /\
  run_packets registry true go_typed_ok (flatten_all prio_witness ++ [TEnd stream_name]) = [Err EDecode].
Proof. split; vm_compute; reflexivity. Qed.

(* a result set whose <max/> does not convert, in a registered iq payload and below the
   bind stream feature: exclusion (a) *)
Definition rsm_bad : node :=
  NElem rsm_set_name [] [NElem (ns_rsm, bytes_of "max") [] [NText (bytes_of "x")]].
Definition rsm_witness1 : list node :=
  [NElem (cl "iq") [at_ "id" "1"]
     [NElem (bytes_of "http://jabber.org/protocol/disco#items", bytes_of "query") [] [rsm_bad]];
   NElem (cl "presence") [] []].
Definition rsm_witness2 : list node :=
  [NElem (ns_stream, bytes_of "features") [] [NElem bind_name [] [rsm_bad]];
   NElem (cl "presence") [] []].
Theorem C02_illtyped_rsm_refuted :
  forallb (top_ok registry go_typed_ok) rsm_witness1 = false /\
  run_packets registry true go_typed_ok (flatten_all rsm_witness1 ++ [TEnd stream_name]) = [Err EDecode] /\
  forallb (top_ok registry go_typed_ok) rsm_witness2 = false /\
  run_packets registry true go_typed_ok (flatten_all rsm_witness2 ++ [TEnd stream_name]) = [Err EDecode].
Proof. repeat split; vm_compute; reflexivity. Qed.

(* the two former name-check findings (repaired by beca765 and 92db6e3) are now inside the
   theorem's domain: no hypothesis is needed for them
   <iq><command xmlns='http://jabber.org/protocol/commands'><x xmlns='u'/></command></iq>
   <failed xmlns='urn:xmpp:sm:3'><conflict xmlns='u'/></failed> *)
Definition foreign_witness1 : list node :=
  [NElem (cl "iq") [at_ "id" "1"] [NElem command_name [] [NElem (un "x") [] []]];
   NElem (cl "presence") [] []].
Definition foreign_witness2 : list node :=
  [NElem (ns_sm, bytes_of "failed") [] [NElem (un "conflict") [] []];
   NElem (cl "presence") [] []].

Theorem C02_foreign_names_ok :
  forallb (top_ok registry go_typed_ok) foreign_witness1 = true /\
  forallb (top_ok registry go_typed_ok) foreign_witness2 = true /\
  List.length (pkts_of foreign_witness1) = 2 /\ List.length (pkts_of foreign_witness2) = 2.
Proof. repeat split; vm_compute; reflexivity. Qed.

(* <failed/> with ARBITRARY children and attributes always yields its packet *)
Theorem C02_failed_any_content : forall reg tok a cs rest,
  next_packet reg true tok (flatten (NElem (ns_sm, s_failed) a cs) ++ rest) = (PSmFailed, rest).
Proof.
  intros. apply (C02_one_element reg tok _ a cs rest TKFailed); [vm_compute; reflexivity|].
  cbn [top_ok]. replace (classify (ns_sm, s_failed)) with (@inl top_kind errk TKFailed)
    by (vm_compute; reflexivity).
  cbn [own_attrs_ok andb]. apply forallb_forall. intros [n' a' cs'|t|] _; reflexivity.
Qed.

(* inputs of the hunters' findings f3 / f5 / f6 (repaired by the patches C02-2..4) are inside the
   theorem's domain - no hypothesis is needed for them:
   <presence><priority>5</priority><priority xmlns='urn:example:ticket'>high</priority></presence>
   <a xmlns='urn:xmpp:sm:3' h='7' e:h='seven'/>
   <presence><x xmlns='...muc'><history xmlns='urn:example:ext' seconds='many'/>
                                <history maxstanzas='20' e:seconds='all'/></x></presence> *)
Definition hunt_witness : list node :=
  [ NElem (cl "presence") []
      [ NElem (cl "priority") [] [NText (bytes_of "5")];
        NElem (bytes_of "urn:example:ticket", bytes_of "priority") [] [NText (bytes_of "high")] ];
    NElem (ns_sm, bytes_of "a") [at_ "h" "7"; qat "urn:example:ext" "h" "seven"] [];
    NElem (cl "presence") []
      [ NElem muc_x_name []
          [ NElem (bytes_of "urn:example:ext", bytes_of "history") [at_ "seconds" "many"] [];
            NElem history_name [at_ "maxstanzas" "20"; qat "urn:example:ext" "seconds" "all"] [] ] ] ].

Theorem C02_foreign_lookalikes_ok :
  forallb (top_ok registry go_typed_ok) hunt_witness = true /\ List.length (pkts_of hunt_witness) = 3.
Proof. split; vm_compute; reflexivity. Qed.

(* non-vacuity: a stream whose elements contain unknown children, a nested same-named
   stanza (carbons shape), known child names below an unknown parent, a registered
   extension, an error child, white space and a comment between elements *)
Definition example_items : list node :=
  [ NText (bytes_of " ");
    NElem (cl "message") [qat "xmlns" "id" "urn:q"; at_ "id" "m1"; qat "urn:q" "id" "other";
                          at_ "to" "a@b"; at_ "type" "chat"; (((ns_xml, s_lang), bytes_of "en") : attr);
                          qat "urn:q" "lang" "xx"]
      [ NElem (cl "body") [] [NText (bytes_of "hi")];
        NElem (bytes_of "urn:xmpp:carbons:2", bytes_of "sent") []
          [ NElem forwarded_name []
              [ NElem (cl "message") [at_ "id" "inner"]
                  [ NElem (cl "body") [] [NText (bytes_of "fake")] ] ] ];
        NElem (bytes_of "urn:xmpp:receipts", bytes_of "request") [] [];
        NElem (un "x") [] [NElem (un "body") [] []; NElem (cl "message") [] []] ];
    NMisc;
    NElem (cl "iq") [at_ "id" "i1"; at_ "type" "error"]
      [ NElem (un "q") [] [NElem (cl "iq") [] []];
        NElem (cl "error") [at_ "type" "cancel"] [NElem (cl "error") [] []] ];
    NElem (ns_stream, bytes_of "features") [] [NElem starttls_name [] [NElem starttls_name [] []]];
    NElem (ns_sm, bytes_of "a") [at_ "h" "7"] [];
    NElem (ns_sm, bytes_of "failed") [at_ "h" "x"]
      [ NElem (ns_stanzas, bytes_of "conflict") [] [];
        NElem (ns_stanzas, bytes_of "item-not-found") [] [NElem (ns_sm, bytes_of "failed") [] []] ] ].

Example C02_example :
  forallb (top_ok registry go_typed_ok) example_items = true /\
  List.length (pkts_of example_items) = 5 /\
  hd PClose (pkts_of example_items)
  = PMessage {| a_type := bytes_of "chat"; a_id := bytes_of "m1"; a_from := [];
                a_to := bytes_of "a@b"; a_lang := bytes_of "en" |} /\
  run_packets registry true go_typed_ok (flatten_all example_items ++ [TEnd stream_name])
  = pkts_of example_items ++ [PClose; Err EEof].
Proof. split; [|split; [|split]]; vm_compute; reflexivity. Qed.

(* bytes-level non-vacuity: D3's shape, a nested same-named stanza, escaped and non-ASCII
   text, an unknown namespace, attributes with metacharacters; the first conjunct shows
   the bytes *)
Definition cp (s : string) : str := bytes_of s.   (* ASCII: code point = byte *)
Definition example_xtrees : list xtree :=
  [ XE ns_client (cp "message") [(cp "id", cp "m<1>"); (cp "to", cp "a@b")]
      [ XE ns_client (cp "body") [] [XT false (cp "h" ++ [233%N] ++ cp "llo <&> ")];
        XE (cp "u") (cp "x") []
           [ XE ns_client (cp "message") [(cp "id", cp "inner")] [];
             XE ns_client (cp "body") [] [XT false (cp "fake")] ] ];
    XE ns_client (cp "presence") [] [];
    XE ns_sm (cp "r") [] [] ].

Example C02_example_bytes :
  print_stream example_xtrees
  = cp "<message xmlns=""jabber:client"" id=""m&lt;1&gt;"" to=""a@b""><body xmlns=""jabber:client"">h"
    ++ [233%N] ++
    cp "llo &lt;&amp;&gt; </body><x xmlns=""u""><message xmlns=""jabber:client"" id=""inner""></message><body xmlns=""jabber:client"">fake</body></x></message><presence xmlns=""jabber:client""></presence><r xmlns=""urn:xmpp:sm:3""></r></stream:stream>"
  /\ forallb wf_doc example_xtrees = true
  /\ forallb (top_ok registry go_typed_ok) (bridge_trees example_xtrees) = true
  /\ option_map (run_packets registry true go_typed_ok) (stream_tokens (print_stream example_xtrees))
     = Some [ PMessage {| a_type := []; a_id := bytes_of "m<1>"; a_from := [];
                          a_to := bytes_of "a@b"; a_lang := [] |};
              PPresence {| a_type := []; a_id := []; a_from := []; a_to := []; a_lang := [] |};
              PSmR; PClose; Err EEof ].
Proof. repeat split; vm_compute; reflexivity. Qed.

Print Assumptions C02_framing_bytes.
Print Assumptions C02_framing_bytes_eof.
Print Assumptions C02_lex_print_stream.
Print Assumptions C02_framing.
Print Assumptions C02_framing_eof.
Print Assumptions C02_one_element.
Print Assumptions C02_unknown_is_error.
Print Assumptions C02_unknown_stops.
Print Assumptions C02_stream_close.
Print Assumptions C02_progress.
Print Assumptions C02_run_shape.
Print Assumptions C02_terminates.
Print Assumptions C02_loops_terminate.
Print Assumptions C02_attrs_from_own_tag.
Print Assumptions C02_attr_qualified_ignored.
Print Assumptions C02_attr_only_accepted.
Print Assumptions C02_accepted_iff.
Print Assumptions C02_attr_value.
Print Assumptions C02_attr_absent.
Print Assumptions C02_unrepaired_refuted.
Print Assumptions C02_illtyped_extension_refuted.
Print Assumptions C02_illtyped_priority_refuted.
Print Assumptions C02_illtyped_rsm_refuted.
Print Assumptions C02_truncated.
Print Assumptions C02_foreign_names_ok.
Print Assumptions C02_foreign_lookalikes_ok.
Print Assumptions C02_failed_any_content.
