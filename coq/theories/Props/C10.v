(* C10 — stream management: sent stanzas are held until acknowledged and
   retransmitted in order.  Model: Model/Ack.v (Client.Send/SendRaw + SendMissingStz
   over the queue of Model/Queue.v).  Specification: absolute numbering of the stanzas
   sent on the session, [sp_acked] of them delivered. *)
From Coq Require Import List ZArith NArith Bool.
From XV Require Import Lib.Sx Model.Queue Model.Ack Proofs.QueueP Proofs.AckP.
Import ListNotations.
Open Scope Z_scope.

(* For every history of Send (stanza / ack request / ack answer), SendRaw and server
   acknowledgements with ANY h (negative, stale, repeated, beyond what was sent): after
   every step the bytes put on the wire by that step and the payloads still held are
   those of the specification:
     - a stanza stays held until an <a/> covers its absolute number;
     - <a h/> discards exactly the stanzas numbered <= h (never un-delivers);
     - if anything remains held it is written again, in order, followed by <r/>. *)
Theorem C10_refines_spec : forall ops,
  map (fun wq => (fst wq, map snd (snd wq))) (a_run q_init ops) = sp_run sp_init ops.
Proof. intros ops. apply run_refines. apply init_R. Qed.

(* the specification step for an acknowledgement, spelled out *)
Theorem C10_spec_ack : forall s h,
  let a := Nat.max (sp_acked s) (Nat.min (Z.to_nat h) (length (sp_sent s))) in
  let s' := fst (sp_step s (AAck h)) in
  sp_sent s' = sp_sent s /\ sp_acked s' = a /\
  sp_held s' = skipn a (sp_sent s) /\
  snd (sp_step s (AAck h)) =
    match skipn a (sp_sent s) with [] => [] | held => map WData held ++ [WRequest] end.
Proof.
  intros s h. cbn [sp_step]. unfold sp_held. cbn [sp_sent sp_acked].
  destruct (skipn _ (sp_sent s)) eqn:E; cbn [fst snd sp_sent sp_acked]; rewrite ?E; auto.
Qed.

(* acknowledgement requests and answers are never held or counted: through Send (by value or
   by pointer: both are the same kind of packet) and through SendRaw (a raw <r/> or <a/>) *)
Theorem C10_acks_not_held : forall st k d, k <> KStanza ->
  fst (a_step st (ASend k d)) = st /\ fst (a_step st (ASendRaw k d)) = st.
Proof. exact acks_not_held. Qed.

(* a stanza that Send or SendRaw refuses (the write fails, the caller gets the error) was not sent
   on the session: after any history it is neither held nor numbered, and nothing reaches the wire *)
Theorem C10_refused_not_held : forall ops k d,
  a_step (a_exec q_init ops) (ARefused k d) = (a_exec q_init ops, []).
Proof. exact refused_not_held. Qed.

(* queue ids are the absolute numbers: in every state reachable from the initial
   queue the held entries are numbered acked+1, acked+2, ... *)
Theorem C10_absolute_numbering : forall l,
  let st := fold_left q_push l q_init in
  map snd (fst st) = l /\ consec 0 (fst st) /\ snd st = Z.of_nat (length l).
Proof.
  intros l. pose proof (pushes_R l q_init sp_init init_R) as H. cbn zeta.
  split; [exact (R_held _ _ H)|]. split; [exact (R_consec _ _ H)|exact (R_last _ _ H)].
Qed.

Example C10_example :
  a_run q_init [ASendRaw KStanza [1%N]; ASend KStanza [2%N]; ASend KRequest []; ASendRaw KStanza [3%N];
                AAck 2; ASend KAnswer [9%N]; AAck 1; AAck 7; ARefused KStanza [5%N]; ASendRaw KRequest [];
                ASendRaw KStanza [4%N]; AAck 3; AAck (2 ^ 63)]
  = [([WData [1%N]], [(1, [1%N])]);
     ([WData [2%N]], [(1, [1%N]); (2, [2%N])]);
     ([WRequest], [(1, [1%N]); (2, [2%N])]);
     ([WData [3%N]], [(1, [1%N]); (2, [2%N]); (3, [3%N])]);
     ([WData [3%N]; WRequest], [(3, [3%N])]);
     ([WData [9%N]], [(3, [3%N])]);
     ([WData [3%N]; WRequest], [(3, [3%N])]);
     ([], []);
     ([], []);
     ([WRequest], []);
     ([WData [4%N]], [(4, [4%N])]);
     ([WData [4%N]; WRequest], [(4, [4%N])]);
     ([], [])].
Proof. reflexivity. Qed.

Print Assumptions C10_refines_spec.
Print Assumptions C10_spec_ack.
Print Assumptions C10_acks_not_held.
Print Assumptions C10_refused_not_held.
Print Assumptions C10_absolute_numbering.
