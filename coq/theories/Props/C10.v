(* C10 — stream management: sent stanzas are held until acknowledged and
   retransmitted in order.  Model: Model/Ack.v (Client.Send/SendRaw + SendMissingStz
   over the queue of Model/Queue.v, and the flag Config.StreamManagementEnable they consult).
   Specification (Model/Ack.v, sp_step; read it: it is the property's text as a function):
   absolute numbering of the stanzas sent on the session, [sp_acked] of them delivered;
     sp_ack s h:  acked := max acked (min h |sent|);  held := sent beyond acked;
                  wire  := held, in order, then <r/>  (nothing when nothing is held). *)
From Coq Require Import List ZArith NArith Bool.
From XV Require Import Lib.Sx Model.Queue Model.Ack Model.Send Model.AckLock Proofs.QueueP Proofs.AckP Proofs.SendP Proofs.AckSchedP Proofs.AckLockP.
Import ListNotations.
Open Scope Z_scope.

(* For every history of Send (stanza / ack request / ack answer), SendRaw, sends the transport refuses,
   server acknowledgements with ANY h (negative, stale, repeated, beyond what was sent), acknowledgements
   whose retransmission is cut short by a refused write, and new sessions (<enabled/> granting
   resumption or not: the specification does not look at it): after every step the bytes put on the wire by that step and the payloads
   still held are those of the specification:
     - a stanza stays held until an <a/> covers its absolute number;
     - <a h/> discards exactly the stanzas numbered <= h (never un-delivers);
     - if anything remains held it is written again, in order, followed by <r/>
       (up to the first write that is refused: what was not written stays held all the same). *)
Theorem C10_refines_spec : forall ops,
  map (fun wq => (fst wq, map snd (snd wq))) (a_run a_init ops) = sp_run sp_init ops.
Proof. intros ops. apply AckP.run_refines. apply init_RA. Qed.

(* "remains held until the server acknowledges it", on the model itself: a stanza sent at ANY point of ANY
   history (whatever the server granted before) gets the next number n; the continuation may contain
   connection attempts that fail (AFailedAttempt) and resumptions of the session (AResumed): after ANY continuation on the same session it is queued under n iff no
   acknowledgement since carried h >= n, and nothing else is ever queued under n. *)
Theorem C10_held_iff_unacked : forall pre o d post,
  first_tx o = [d] -> same_session post ->
  let n := snd (fst (a_exec a_init pre)) + 1 in
  let st := a_exec a_init (pre ++ o :: post) in
  (In (n, d) (fst (fst st)) <->
   Forall (fun o' => match ack_h o' with Some h => h < n | None => True end) post) /\
  (forall d', In (n, d') (fst (fst st)) -> d' = d).
Proof. exact held_iff_unacked. Qed.

(* queue ids are the absolute numbers, in EVERY reachable state (after acknowledgements, refused sends -
   whose number is used again - cut-short retransmissions, new sessions): the held entries are the
   specification's held stanzas numbered acked+1, acked+2, ..., lastId is the number of stanzas sent on
   the session, and the flag is the specification's. *)
Theorem C10_numbering_reachable : forall ops,
  let st := a_exec a_init ops in let s := sp_exec sp_init ops in
  fst (fst st) = numbered (Z.of_nat (sp_acked s) + 1) (sp_held s) /\
  snd (fst st) = Z.of_nat (length (sp_sent s)) /\
  snd st = sp_on s /\ (sp_acked s <= length (sp_sent s))%nat.
Proof. exact numbering_reachable. Qed.

(* the order of the sequence numbers is the order of the first transmissions on the wire (the order in
   which the server counts): on one session, lastId is the number of stanzas written for the first time
   and the entry queued under i is the i-th of them *)
Theorem C10_wire_order_is_numbering : forall ops, same_session ops ->
  let st := a_exec a_init ops in
  snd (fst st) = Z.of_nat (length (flat_map first_tx ops)) /\
  forall i d, In (i, d) (fst (fst st)) -> 1 <= i /\ nth_error (flat_map first_tx ops) (Z.to_nat (i - 1)) = Some d.
Proof. exact wire_order_is_numbering. Qed.

(* only stanzas are held and counted: acknowledgement requests and answers (through Send by value or by
   pointer, or as a raw string), other nonzas, elements of a foreign namespace, white space, the empty
   string, a nil packet are written and leave the queue object as it is *)
Theorem C10_acks_not_held : forall st k d, k <> KStanza ->
  fst (a_step st (ASend k d)) = st /\ fst (a_step st (ASendRaw k d)) = st.
Proof. exact acks_not_held. Qed.

(* a stanza that Send or SendRaw refuses (the write fails, the caller gets the error) was not sent
   on the session: after any history it is neither held nor numbered, and nothing reaches the wire
   (that the transport took no byte of it is the model's reading of a refused write) *)
Theorem C10_refused_not_held : forall ops k d,
  a_step (a_exec a_init ops) (ARefused k d) = (a_exec a_init ops, []).
Proof. exact refused_not_held. Qed.

(* "With stream management active": what the server says about RESUMPTION in its <enabled/> makes no
   difference to what is held - the history with every <enabled/> granting resumption gives the same wire
   and the same queue at every step - and a client configured with stream management holds throughout
   (before fix C10-a1 an <enabled/> without resume='true' switched holding off for good: check signature
   held-unresumable-...). *)
Theorem C10_unresumable_still_held : forall ops,
  a_run a_init ops = a_run a_init (map grant_resume ops) /\ snd (a_exec a_init ops) = true.
Proof. intros ops. split; [apply resume_irrelevant|apply always_holding]. Qed.

(* Concurrent senders.  Goroutines run operations of the model (senders: Send / SendRaw; the goroutines on
   which the receive loop routes each <a/>: acknowledgements); an operation is one step of the
   interleaving semantics of Model/Send.v because Client.sendMu is held around it (C10_lock_makes_atomic
   below derives that from the instructions and the lock).  For
   EVERY schedule the order w in which the operations ran is a merge of the goroutines' programmes, the
   model along w is the specification along w, and sequence numbers follow the wire. *)
Theorem C10_any_schedule : forall (threads : list (list aop)) rem w,
  creach (threads, []) (rem, w) -> all_done rem ->
  interleavings threads w /\
  map (fun wq => (fst wq, map snd (snd wq))) (a_run a_init w) = sp_run sp_init w /\
  (same_session w ->
   forall i d, In (i, d) (fst (fst (a_exec a_init w))) ->
     1 <= i /\ nth_error (flat_map first_tx w) (Z.to_nat (i - 1)) = Some d).
Proof. exact any_schedule. Qed.

Theorem C10_every_order_scheduled : forall (threads : list (list aop)) w,
  interleavings threads w -> exists rem, creach (threads, []) (rem, w) /\ all_done rem.
Proof. exact every_order_scheduled. Qed.

(* ... at the level of the instructions the goroutines really interleave (Model/AckLock.v: Lock, Push, the
   write, DropLast, the body of SendMissingStz and each of its writes, Unlock; the mutex is part of the
   state; one step = one instruction of one goroutine).  Any number of goroutines, any operation lists on a
   session that holds, EVERY schedule: when all have finished, the queue and the whole wire are those of
   Model/Ack.v along a merge w of the operation lists (so C10_refines_spec speaks about this execution), the
   lock is free, and the entry queued under i is the i-th stanza written for the first time.
   What stays assumed: that the Go code's critical sections are these programmes (read off client.go /
   router.go; the harness stalls a sender inside its section), sync.Mutex, and that the flag and the session
   object do not change meanwhile (a new session is not an operation here). *)
Theorem C10_lock_makes_atomic : forall threads progs q wire lock,
  no_enabled_ops threads ->
  greach (g_init (map (flat_map prog) threads)) (progs, q, wire, lock) -> Forall (fun p => p = []) progs ->
  exists w, interleavings threads w /\ a_exec a_init w = (q, true) /\ wire = wire_of w /\ lock = None /\
    forall i d, In (i, d) (fst q) -> 1 <= i /\ nth_error (flat_map first_tx w) (Z.to_nat (i - 1)) = Some d.
Proof. exact lock_makes_atomic. Qed.

(* the same programmes without Lock/Unlock: a schedule of two senders after which the stanza queued as number 1
   is the second on the wire (the check-then-act window the lock closes; harness: the stalled first sender) *)
Theorem C10_without_lock_misnumbered :
  let threads := [[ASend KStanza [1%N]]; [ASendRaw KStanza [2%N]]] in
  exists q wire,
    greach (g_init (map (fun ops => unlocked (flat_map prog ops)) threads)) ([[]; []], q, wire, None) /\
    fst q = [(1, [1%N]); (2, [2%N])] /\ wire = [WData [2%N]; WData [1%N]].
Proof. exact without_lock_misnumbered. Qed.

Example C10_example :
  a_run a_init [ASendRaw KStanza [1%N]; ASend KStanza [2%N]; ASend KRequest []; ASendRaw KStanza [3%N];
                AAck 2; ASend KAnswer [9%N]; AAck 1; AAck 7; ARefused KStanza [5%N]; ASendRaw KRequest [];
                ASendRaw KStanza [4%N]; AAck 3; ASend KStanza [6%N]; AAckRefused 3 1; AAckRefused 4 1; AAck (2 ^ 63);
                AEnabled true; ASend KStanza [7%N]; AEnabled false; ASend KStanza [8%N]; AAck 0; AEnabled true;
                ASendRaw KStanza [8%N]; ASendRaw KOther [32%N]; AFailedAttempt; AAckRefused 0 0; AFailedAttempt; AResumed;
                ASend KOther []; AAck 0; AAck 1]
  = [([WData [1%N]], [(1, [1%N])]);
     ([WData [2%N]], [(1, [1%N]); (2, [2%N])]);
     ([WRequest], [(1, [1%N]); (2, [2%N])]);
     ([WData [3%N]], [(1, [1%N]); (2, [2%N]); (3, [3%N])]);
     ([WData [3%N]; WRequest], [(3, [3%N])]);
     ([WData [9%N]], [(3, [3%N])]);
     ([WData [3%N]; WRequest], [(3, [3%N])]);
     ([], []);
     ([], []);
     ([WRequest], []);
     ([WData [4%N]], [(4, [4%N])]);
     ([WData [4%N]; WRequest], [(4, [4%N])]);
     ([WData [6%N]], [(4, [4%N]); (5, [6%N])]);
     ([WData [4%N]], [(4, [4%N]); (5, [6%N])]);
     ([WData [6%N]], [(5, [6%N])]);
     ([], []);
     ([], []);
     ([WData [7%N]], [(1, [7%N])]);
     ([], []);
     ([WData [8%N]], [(1, [8%N])]);
     ([WData [8%N]; WRequest], [(1, [8%N])]);
     ([], []);
     ([WData [8%N]], [(1, [8%N])]);
     ([WData [32%N]], [(1, [8%N])]);
     ([], [(1, [8%N])]);
     ([], [(1, [8%N])]);
     ([], [(1, [8%N])]);
     ([], [(1, [8%N])]);
     ([WData []], [(1, [8%N])]);
     ([WData [8%N]; WRequest], [(1, [8%N])]);
     ([], [])].
Proof. reflexivity. Qed.

(* the hypotheses of C10_held_iff_unacked are met, and both sides of its equivalence occur *)
Example C10_held_example :
  let pre := [AEnabled false; ASend KStanza [1%N]; AAck 1] in
  snd (fst (a_exec a_init pre)) + 1 = 2 /\
  same_session [ASend KStanza [3%N]; AAck 1; AAckRefused 0 0] /\
  In (2, [2%N]) (fst (fst (a_exec a_init (pre ++ ASendRaw KStanza [2%N] :: [ASend KStanza [3%N]; AAck 1; AAckRefused 0 0])))) /\
  ~ In (2, [2%N]) (fst (fst (a_exec a_init (pre ++ ASendRaw KStanza [2%N] :: [ASend KStanza [3%N]; AAck 2])))).
Proof.
  cbn zeta. split; [reflexivity|]. split; [repeat constructor|].
  split; [vm_compute; left; reflexivity|]. vm_compute. intros [H|[]]. discriminate.
Qed.

(* two senders and the receive loop's routing goroutine: one schedule *)
Example C10_schedule_example :
  creach ([[ASend KStanza [1%N]; ASend KStanza [2%N]]; [ASendRaw KStanza [3%N]]; [AAck 1]], [])
         ([[]; []; []], [ASend KStanza [1%N]; ASendRaw KStanza [3%N]; AAck 1; ASend KStanza [2%N]]).
Proof.
  eapply creach_step; [exact (cstep_write [] (ASend KStanza [1%N]) [ASend KStanza [2%N]] [[ASendRaw KStanza [3%N]]; [AAck 1]] [])|].
  eapply creach_step; [exact (cstep_write [[ASend KStanza [2%N]]] (ASendRaw KStanza [3%N]) [] [[AAck 1]] _)|].
  eapply creach_step; [exact (cstep_write [[ASend KStanza [2%N]]; []] (AAck 1) [] [] _)|].
  eapply creach_step; [exact (cstep_write [] (ASend KStanza [2%N]) [] [[]; []] _)|].
  apply creach_refl.
Qed.

(* the hypotheses of C10_lock_makes_atomic are met by an execution in which an acknowledgement waits for a sender *)
Example C10_lock_example :
  no_enabled_ops [[ASend KStanza [1%N]]; [AAck 0]] /\
  greach (g_init (map (flat_map prog) [[ASend KStanza [1%N]]; [AAck 0]]))
         ([[]; []], ([(1, [1%N])], 1), [WData [1%N]; WData [1%N]; WRequest], None).
Proof.
  split; [repeat constructor|]. unfold g_init. cbn [map flat_map prog app].
  eapply greach_step; [apply (gstep_one [] MLock _ [_]); reflexivity|].
  eapply greach_step; [apply (gstep_one [] (MPush [1%N]) _ [_]); reflexivity|].
  eapply greach_step; [apply (gstep_one [] (MWrite (WData [1%N])) _ [_]); reflexivity|].
  eapply greach_step; [apply (gstep_one [] MUnlock _ [_]); reflexivity|].
  eapply greach_step; [apply (gstep_one [[]] MLock _ []); reflexivity|].
  eapply greach_step; [apply (gstep_one [[]] (MAck 0 None) _ []); reflexivity|].
  eapply greach_step; [apply (gstep_one [[]] (MWrite (WData [1%N])) _ []); reflexivity|].
  eapply greach_step; [apply (gstep_one [[]] (MWrite WRequest) _ []); reflexivity|].
  eapply greach_step; [apply (gstep_one [[]] MUnlock _ []); reflexivity|].
  apply greach_refl.
Qed.

Print Assumptions C10_refines_spec.
Print Assumptions C10_held_iff_unacked.
Print Assumptions C10_numbering_reachable.
Print Assumptions C10_wire_order_is_numbering.
Print Assumptions C10_acks_not_held.
Print Assumptions C10_refused_not_held.
Print Assumptions C10_unresumable_still_held.
Print Assumptions C10_any_schedule.
Print Assumptions C10_every_order_scheduled.
Print Assumptions C10_lock_makes_atomic.
Print Assumptions C10_without_lock_misnumbered.
