From Coq Require Import List ZArith NArith Bool.
From XV Require Import Lib.Sx Model.Queue Model.Ack.
Import ListNotations.
Open Scope Z_scope.

(* Send kinds: 0 stanza, 1 stanza.SMRequest, 2 stanza.SMAnswer, 3 *stanza.SMRequest, 4 *stanza.SMAnswer
   (a pointer is the same packet), 5 anything that is not a stanza (a nil packet).  Raw kinds (the harness's reading of the string's first element):
   0 stanza, 1 {urn:xmpp:sm:3}r, 2 {urn:xmpp:sm:3}a, 5 anything else. *)
Definition dec_kind (k : Z) : option pkind :=
  if k =? 0 then Some KStanza else if (k =? 1) || (k =? 3) then Some KRequest
  else if (k =? 2) || (k =? 4) then Some KAnswer else if k =? 5 then Some KOther else None.

Definition dec_op (x : sx) : option aop :=
  match x with
  | SL [SZ 0; SZ k; SS d] => do kd <- dec_kind k; Some (ASend kd d)
  | SL [SZ 1; SS d] => Some (ASendRaw KStanza d)
  | SL [SZ 1; SZ k; SS d] => if (k <=? 2) || (k =? 5) then do kd <- dec_kind k; Some (ASendRaw kd d) else None
  | SL [SZ 2; SZ h] => Some (AAck h)
  | SL [SZ 3; SZ k] => Some (AAck (2 ^ 63 + k))     (* h beyond the signed range *)
  | SL [SZ 4; SZ k; SS d] => do kd <- dec_kind k; Some (ARefused kd d)
  | SL [SZ 11] => Some AFailedAttempt
  | SL [SZ 12] => Some AResumed
  | SL [SZ 5; SZ g] => Some (AEnabled (negb (g =? 0)))   (* <enabled/>: does its resume attribute read as true *)
  | SL [SZ 6; SZ h; SZ j] => if j <? 0 then None else Some (AAckRefused h (Z.to_nat j))
  | SL [SZ 7; SZ k; SZ j] => if j <? 0 then None else Some (AAckRefused (2 ^ 63 + k) (Z.to_nat j))
  | _ => None
  end.

Definition witem_sx (w : witem) : sx :=
  match w with WData s => SL [SZ 0; SS s] | WRequest => SL [SZ 1] end.
Definition entry_sx (e : Z * str) : sx := SL [SZ (fst e); SS (snd e)].

(* A group of ops observed as one step (concurrent senders: the harness reports the
   pushes in the order the queue received them, and the writes re-ordered alike). *)
(* group kinds: one op; (9 payloads) concurrent pushes observed as one step; (8 acks)
   acknowledgements whose interleaving is not observable: only the queue afterwards is *)
Definition dec_group (x : sx) : option (bool * list aop) :=
  match x with
  | SL [SZ 9; SL ds] => do l <- omap (fun d => do s <- as_s d; Some (ASendRaw KStanza s)) ds; Some (true, l)
  | SL [SZ 8; SL acks] => do l <- omap dec_op acks; Some (false, l)
  | SL [SZ 10; SL os] => do l <- omap dec_op os; Some (true, l)   (* several ops observed as one step (Connect: <enabled/>, then the initial presence) *)
  | _ => do o <- dec_op x; Some (true, [o])
  end.

Fixpoint a_run_groups (st : (list (Z * str) * Z) * bool) (gs : list (bool * list aop))
  : list (list witem * list (Z * str)) :=
  match gs with
  | [] => []
  | (wire, g) :: gs' =>
      let '(st', w) := fold_left (fun acc o => let '(s1, w1) := a_step (fst acc) o in (s1, snd acc ++ w1)) g (st, []) in
      ((if wire then w else []), fst (fst st')) :: a_run_groups st' gs'
  end.

Definition run_typed (gs : list (bool * list aop)) : sx :=
  SL (map (fun wq => SL [SL (map witem_sx (fst wq)); SL (map entry_sx (snd wq))]) (a_run_groups a_init gs)).

Definition run_C10 : sx -> sx := with_input (as_list dec_group) run_typed.
