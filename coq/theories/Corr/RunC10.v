From Coq Require Import List ZArith NArith Bool.
From XV Require Import Lib.Sx Model.Queue Model.Ack.
Import ListNotations.
Open Scope Z_scope.

Definition dec_op (x : sx) : option aop :=
  match x with
  | SL [SZ 0; SZ k; SS d] =>
      if k =? 0 then Some (ASend KStanza d) else if k =? 1 then Some (ASend KRequest d)
      else if k =? 2 then Some (ASend KAnswer d) else None
  | SL [SZ 1; SS d] => Some (ASendRaw d)
  | SL [SZ 2; SZ h] => Some (AAck h)
  | _ => None
  end.

Definition witem_sx (w : witem) : sx :=
  match w with WData s => SL [SZ 0; SS s] | WRequest => SL [SZ 1] end.
Definition entry_sx (e : Z * str) : sx := SL [SZ (fst e); SS (snd e)].

(* A group of ops observed as one step (concurrent senders: the harness reports the
   pushes in the order the queue received them, and the writes re-ordered alike). *)
(* group kinds: one op; (9 payloads) concurrent pushes observed as one step; (8 acks)
   acknowledgements whose interleaving is not observable: only the queue afterwards is *)
Definition dec_group (x : sx) : option (bool * list aop) :=
  match x with
  | SL [SZ 9; SL ds] => do l <- omap (fun d => do s <- as_s d; Some (ASendRaw s)) ds; Some (true, l)
  | SL [SZ 8; SL acks] => do l <- omap dec_op acks; Some (false, l)
  | _ => do o <- dec_op x; Some (true, [o])
  end.

Fixpoint a_run_groups (st : list (Z * str) * Z) (gs : list (bool * list aop))
  : list (list witem * list (Z * str)) :=
  match gs with
  | [] => []
  | (wire, g) :: gs' =>
      let '(st', w) := fold_left (fun acc o => let '(s1, w1) := a_step (fst acc) o in (s1, snd acc ++ w1)) g (st, []) in
      ((if wire then w else []), fst st') :: a_run_groups st' gs'
  end.

Definition run_typed (gs : list (bool * list aop)) : sx :=
  SL (map (fun wq => SL [SL (map witem_sx (fst wq)); SL (map entry_sx (snd wq))]) (a_run_groups q_init gs)).

Definition run_C10 : sx -> sx := with_input (as_list dec_group) run_typed.
