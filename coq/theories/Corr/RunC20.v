(* Correspondence glue for C20.  Input: (addr bytes, port int, excluded?).  An
   address with white space at either end is none of the address forms the property
   speaks about, and an unbracketed IPv6 literal directly followed by ":digits" (the
   whole not being an IPv6 literal) is the property's own exception: the harness flags
   both and both sides answer the constant (-1).
   Otherwise the output is:
   [ ensurePort(addr, port); SplitHostPort of it; SplitHostPort(addr);
     NewClientTransport(addr); NewComponentTransport(addr); NewChecker(addr, "");
     ensurePort(ensurePort(addr, port), 5222); NewClientTransport(ensurePort(addr, port)) ]
   - the last two are the SRV path of client.go (address completed with the SRV port,
   then handed to the constructor, which applies ensurePort again). *)
From Coq Require Import List ZArith NArith Bool.
From XV Require Import Lib.Sx Model.Addr.
Import ListNotations.
Open Scope Z_scope.

Definition split_err_code (e : split_err) : Z :=
  match e with
  | MissingPort => 1 | TooManyColons => 2 | MissingRbr => 3
  | UnexpectedLbr => 4 | UnexpectedRbr => 5
  end.
Definition split_sx (r : split_res) : sx :=
  match r with
  | SplitOk h p => SL [SZ 0; SS h; SS p]
  | SplitErr e => SL [SZ (split_err_code e)]
  end.
Definition transport_sx (t : transport) : sx :=
  match t with
  | Tcp a => SL [SZ 0; SS a; split_sx (split_host_port a)]
  | WebSocket a => SL [SZ 1; SS a]
  | NotSupported => SL [SZ 2]
  end.

(* NewChecker(addr, ""): error, or (address, domain = host, SplitHostPort of address) *)
Definition checker_sx (r : option (str * str)) : sx :=
  match r with
  | None => SL [SZ 1]
  | Some (full, h) => SL [SZ 0; SS full; SS h; split_sx (split_host_port full)]
  end.

Definition dec_input (x : sx) : option (str * Z * bool) :=
  match x with
  | SL [a; p; e] => do addr <- as_s a; do port <- as_z p; do ex <- as_b e; Some (addr, port, ex)
  | _ => None
  end.

Definition run_typed (inp : str * Z * bool) : sx :=
  let '(addr, port, excluded) := inp in
  if excluded then SL [SZ (-1)] else
  let ep := ensure_port addr port in
  SL [SS ep; split_sx (split_host_port ep); split_sx (split_host_port addr);
      transport_sx (client_transport addr); transport_sx (component_transport addr);
      checker_sx (checker_params addr);
      SS (ensure_port ep 5222); transport_sx (client_transport ep)].

(* second input shape: (1 addr (outcome ...)) - the Connects of ONE transport object; an
   outcome is () for a failed attempt or (peer) for the peer address reached.  Output: the
   address dialled at each Connect, for the client's and for the component's transport. *)
Definition dec_redial (x : sx) : option (str * list (option str)) :=
  match x with
  | SL [SZ 1; a; os] => do addr <- as_s a; do l <- as_list (as_opt as_s) os; Some (addr, l)
  | _ => None
  end.
Definition run_redial (inp : str * list (option str)) : sx :=
  let '(addr, outcomes) := inp in
  SL [SL (map SS (client_dials addr outcomes)); SL (map SS (component_dials addr outcomes))].

Definition run_C20 (x : sx) : sx :=
  match dec_redial x with
  | Some i => run_redial i
  | None => with_input dec_input run_typed x
  end.
