(* Glue for C02: the harness sends (tokens of the stream after the header), the model
   answers the list of NextPacket results up to and including the first error. *)
From Coq Require Import List ZArith NArith Bool.
From XV Require Import Lib.Sx Model.XmlTree Model.Parser Gen.Generated.
Import ListNotations.
Open Scope Z_scope.

Definition dec_attr (x : sx) : option attr :=
  match x with
  | SL [SS ns; SS l; SS v] => Some ((ns, l), v)
  | _ => None
  end.

Definition dec_token (x : sx) : option token :=
  match x with
  | SL [SZ 0; SS ns; SS l; attrs] => do a <- as_list dec_attr attrs; Some (TStart (ns, l) a)
  | SL [SZ 1; SS ns; SS l] => Some (TEnd (ns, l))
  | SL [SZ 2; SS s] => Some (TText s)
  | SL [SZ 3] => Some TMisc
  | _ => None
  end.

(* input: (repaired?, tokens) *)
Definition dec_input (x : sx) : option (bool * list token) :=
  match x with
  | SL [rp; toks] => do b <- as_b rp; do l <- as_list dec_token toks; Some (b, l)
  | _ => None
  end.

(* Errors are compared by what the harness can observe about the DECODER, not by their text:
   1 = the input was exhausted when the error came, 2 = an element was rejected while input
   remained (unknown namespace, unexpected name and decoder failure are one class: telling
   them apart would need the wording of the error, which is not part of the property).
   The position of the error in the packet sequence stays exact. *)
Definition errk_z (e : errk) : Z :=
  match e with EEof => 1 | EUnknownNs => 2 | EUnexpected => 2 | EDecode => 2 | EFuel => 99 end.

Definition sattrs_sx (code : Z) (a : sattrs) : sx :=
  SL [SZ code; SS (a_type a); SS (a_id a); SS (a_from a); SS (a_to a); SS (a_lang a)].

Definition result_sx (p : result) : sx :=
  match p with
  | Err e => SL [SZ 0; SZ (errk_z e)]
  | PMessage a => sattrs_sx 1 a
  | PPresence a => sattrs_sx 2 a
  | PIQ a => sattrs_sx 3 a
  | PFeatures => SL [SZ 4]
  | PStreamError => SL [SZ 5]
  | PSaslSuccess => SL [SZ 6]
  | PSaslFailure => SL [SZ 7]
  | PHandshake => SL [SZ 8]
  | PSmEnabled => SL [SZ 9]
  | PSmResumed => SL [SZ 10]
  | PSmResume => SL [SZ 11]
  | PSmR => SL [SZ 12]
  | PSmA => SL [SZ 13]
  | PSmFailed => SL [SZ 14]
  | PClose => SL [SZ 15]
  end.

Definition run_typed (inp : bool * list token) : sx :=
  let '(rp, toks) := inp in SL (map result_sx (run_packets registry rp go_typed_ok toks)).

(* malformed byte streams have no model (no tokens): the harness sends the placeholder 77
   and reports 77 when its own oracle (error in bounded time, no panic) is met *)
Definition run_C02 (x : sx) : sx :=
  match x with
  | SL [SZ 77] => SL [SZ 77]
  | _ => with_input dec_input run_typed x
  end.
