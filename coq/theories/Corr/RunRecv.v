(* Glue for the receive-loop model (used by C05, C09, C12). *)
From Coq Require Import List ZArith NArith Bool.
From XV Require Import Lib.Sx Model.Recv.
Import ListNotations.
Open Scope Z_scope.

Definition kind_z (k : kind) : Z := match k with KMsg => 0 | KPres => 1 | KIq => 2 end.
Definition dec_kind (z : Z) : option kind :=
  if z =? 0 then Some KMsg else if z =? 1 then Some KPres else if z =? 2 then Some KIq else None.

Definition item_sx (i : item) : sx :=
  match i with
  | IStanza k id => SL [SZ 0; SZ (kind_z k); SN id]
  | ISmR => SL [SZ 1]
  | ISmA h => SL [SZ 2; SN h]
  | INonza t => SL [SZ 3; SN t]
  | IStreamError t => SL [SZ 4; SN t]
  | IClose => SL [SZ 5]
  | IBad => SL [SZ 6]
  end.
Definition dec_item (x : sx) : option item :=
  match x with
  | SL [SZ 0; SZ k; SZ id] => do k' <- dec_kind k; Some (IStanza k' (Z.to_N id))
  | SL [SZ 1] => Some ISmR
  | SL [SZ 2; SZ h] => Some (ISmA (Z.to_N h))
  | SL [SZ 3; SZ t] => Some (INonza (Z.to_N t))
  | SL [SZ 4; SZ t] => Some (IStreamError (Z.to_N t))
  | SL [SZ 5] => Some IClose
  | SL [SZ 6] => Some IBad
  | _ => None
  end.

Definition sync_sx (a : action) : list sx :=
  match a with
  | ARouteSync i => [SL [SZ 0; item_sx i]]
  | ARouteAsync _ => []
  | AWrite h => [SL [SZ 2; SN h]]
  | AWriteFail h => [SL [SZ 3; SN h]]
  | AErrCall => [SL [SZ 4]]
  | AEvDisconnected inb => [SL [SZ 5; SN inb; SB true]]   (* true: the event carries the session's own Id and queue *)
  | AEvStreamError => [SL [SZ 6]]
  | ADisconnectCall => [SL [SZ 7]]
  | ARecvStreamClose => [SL [SZ 8]]
  | AQuit => [SL [SZ 9]]
  end.
(* The keepalive quit channel is sampled by the harness whenever the receive goroutine enters anything the
   harness can see (a handler called synchronously, the error callback, an event handler, a transport
   call): "closed" is logged before the first such action that finds it closed.  In the model's trace
   [AQuit] is always directly followed by such an action, so it is rendered where it stands. *)
Definition sync_list (tr : list action) : list sx := flat_map sync_sx tr.
Definition async_sx (a : action) : list sx :=
  match a with ARouteAsync i => [item_sx i] | _ => [] end.

(* write faults: the listed writes fail, and every write from [from] on (0: none) *)
Definition fault_oracle (idx : list nat) (from : nat) : nat -> bool :=
  fun n => existsb (Nat.eqb n) idx || (negb (Nat.eqb from 0) && Nat.leb from n).
(* the history: elements, possibly ended by (7 t): a stream error whose event handler replaces the connection
   (what the harness lists behind it stays on the old connection and is nobody's) *)
Fixpoint dec_items (l : list sx) : option (list item * option N) :=
  match l with
  | [] => Some ([], None)
  | SL [SZ 7; SZ t] :: _ => Some ([], Some (Z.to_N t))
  | x :: r =>
      do i <- dec_item x;
      match dec_items r with
      | Some (is, h) => Some (i :: is, h)
      | None => None
      end
  end.
Record rinput := { r_component : bool; r_inb : N; r_wfail : nat -> bool; r_items : list item;
                   r_handover : option N;
                   r_noerr : bool (* the client was created without an error callback: nothing to observe of [AErrCall] *) }.

Definition dec_input (x : sx) : option rinput :=
  let go comp inb wf items noerr :=
      do c <- as_b comp; do i <- as_n inb;
      do w <- match wf with
              | SL [idx; from] => do ix <- as_list as_nat idx; do f <- as_nat from; Some (fault_oracle ix f)
              | _ => None
              end;
      do xs <- as_l items;
      do lh <- dec_items xs;
      Some {| r_component := c; r_inb := i; r_wfail := w; r_items := fst lh; r_handover := snd lh;
              r_noerr := noerr |} in
  match x with
  | SL [comp; inb; wf; items] => go comp inb wf items false
  | SL [comp; inb; wf; items; SL [ne]] => do n <- as_b ne; go comp inb wf items n
  | _ => None
  end.

(* Component: what the property fixes is the ORDER of the handler calls (arrival order),
   not how they interleave with the loop's other actions, nor the order of those among
   themselves (a component may hand its packets to a dispatching goroutine while it goes on
   reading): handler calls first, in order, then the other actions counted by kind. *)
Definition is_route_sx (x : sx) : bool :=
  match x with SL (SZ 0 :: _) => true | _ => false end.
Definition tag_is (t : Z) (x : sx) : bool :=
  match x with SL (SZ u :: _) => Z.eqb t u | _ => false end.
(* the other actions as a multiset: how many of each kind (2..9) *)
Definition partition_routes (l : list sx) : list sx :=
  filter is_route_sx l ++
  map (fun t => SL [SZ t; SZ (Z.of_nat (length (filter (tag_is t) l)))]) [2; 3; 4; 5; 6; 7; 8; 9]%Z.

Definition run_typed (i : rinput) : sx :=
  let tr := if r_component i
            then match r_handover i with
                 | Some t => precv_handover t (r_items i)
                 | None => precv (r_items i)
                 end
            else match r_handover i with
                 | Some t => crecv_handover t (r_inb i) 0 (r_wfail i) (r_items i)
                 | None => crecv (r_inb i) 0 (r_wfail i) (r_items i)
                 end in
  (* third component: goroutines of the library left after the loop ended; the model's
     threads all terminate (crecv/precv are structurally recursive), so 0 *)
  let tr := if r_noerr i then filter (fun a => match a with AErrCall => false | _ => true end) tr else tr in
  SL [SL (if r_component i then partition_routes (sync_list tr) else sync_list tr);
      SL (flat_map async_sx tr); SZ 0].

Definition run_recv : sx -> sx := with_input dec_input run_typed.
