(* Glue for the receive-loop model (used by C05, C09, C12). *)
From Coq Require Import List ZArith NArith Bool.
From XV Require Import Lib.Sx Model.Recv.
Import ListNotations.
Open Scope Z_scope.

Definition kind_z (k : kind) : Z := match k with KMsg => 0 | KPres => 1 | KIq => 2 end.
Definition dec_kind (z : Z) : option kind :=
  if z =? 0 then Some KMsg else if z =? 1 then Some KPres else if z =? 2 then Some KIq else None.

Definition item_sx (i : item) : sx :=
  match i with
  | IStanza k id => SL [SZ 0; SZ (kind_z k); SN id]
  | ISmR => SL [SZ 1]
  | ISmA h => SL [SZ 2; SN h]
  | INonza t => SL [SZ 3; SN t]
  | IStreamError t => SL [SZ 4; SN t]
  | IClose => SL [SZ 5]
  | IBad => SL [SZ 6]
  end.
Definition dec_item (x : sx) : option item :=
  match x with
  | SL [SZ 0; SZ k; SZ id] => do k' <- dec_kind k; Some (IStanza k' (Z.to_N id))
  | SL [SZ 1] => Some ISmR
  | SL [SZ 2; SZ h] => Some (ISmA (Z.to_N h))
  | SL [SZ 3; SZ t] => Some (INonza (Z.to_N t))
  | SL [SZ 4; SZ t] => Some (IStreamError (Z.to_N t))
  | SL [SZ 5] => Some IClose
  | SL [SZ 6] => Some IBad
  | _ => None
  end.

Definition sync_sx (a : action) : list sx :=
  match a with
  | ARouteSync i => [SL [SZ 0; item_sx i]]
  | ARouteAsync _ => []
  | AWrite h => [SL [SZ 2; SN h]]
  | AWriteFail h => [SL [SZ 3; SN h]]
  | AErrCall => [SL [SZ 4]]
  | AEvDisconnected inb => [SL [SZ 5; SN inb]]
  | AEvStreamError => [SL [SZ 6]]
  | ADisconnectCall => [SL [SZ 7]]
  | ARecvStreamClose => [SL [SZ 8]]
  | AQuit => [SL [SZ 9]]
  end.
(* The closing of the keepalive quit channel is observed at two moments only: when the
   Disconnected handler starts (closed by then or not) and when the loop has returned.
   Its position relative to the other callbacks is not observable and not rendered: a
   quit that precedes the Disconnected event is shown immediately before that event. *)
Fixpoint sync_list (pending : bool) (tr : list action) : list sx :=
  match tr with
  | [] => if pending then [SL [SZ 9]] else []
  | AQuit :: r => if existsb (fun a => match a with AEvDisconnected _ => true | _ => false end) r
                  then sync_list true r else SL [SZ 9] :: sync_list pending r
  | AEvDisconnected inb :: r =>
      (if pending then [SL [SZ 9]] else []) ++ SL [SZ 5; SN inb] :: sync_list false r
  | a :: r => sync_sx a ++ sync_list pending r
  end.
Definition async_sx (a : action) : list sx :=
  match a with ARouteAsync i => [item_sx i] | _ => [] end.

Record rinput := { r_component : bool; r_inb : N; r_wfail : option nat; r_items : list item }.

Definition dec_input (x : sx) : option rinput :=
  match x with
  | SL [comp; inb; wf; items] =>
      do c <- as_b comp; do i <- as_n inb; do w <- as_opt as_nat wf;
      do l <- as_list dec_item items;
      Some {| r_component := c; r_inb := i; r_wfail := w; r_items := l |}
  | _ => None
  end.

(* Component: what the property fixes is the ORDER of the handler calls (arrival order),
   not how they interleave with the loop's other actions, nor the order of those among
   themselves (a component may hand its packets to a dispatching goroutine while it goes on
   reading): handler calls first, in order, then the other actions counted by kind. *)
Definition is_route_sx (x : sx) : bool :=
  match x with SL (SZ 0 :: _) => true | _ => false end.
Definition tag_is (t : Z) (x : sx) : bool :=
  match x with SL (SZ u :: _) => Z.eqb t u | _ => false end.
(* the other actions as a multiset: how many of each kind (2..9) *)
Definition partition_routes (l : list sx) : list sx :=
  filter is_route_sx l ++
  map (fun t => SL [SZ t; SZ (Z.of_nat (length (filter (tag_is t) l)))]) [2; 3; 4; 5; 6; 7; 8; 9]%Z.

Definition run_typed (i : rinput) : sx :=
  let tr := if r_component i then precv (r_items i)
            else crecv (r_inb i) 0 (r_wfail i) (r_items i) in
  (* third component: goroutines of the library left after the loop ended; the model's
     threads all terminate (crecv/precv are structurally recursive), so 0 *)
  SL [SL (if r_component i then partition_routes (sync_list false tr) else sync_list false tr);
      SL (flat_map async_sx tr); SZ 0].

Definition run_recv : sx -> sx := with_input dec_input run_typed.
