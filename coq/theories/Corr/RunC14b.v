(* C14 composite: authSASL-level cases (tags 0 and 2 of RunC14, Model/Sasl.v) and connection
   histories (here tag 1 / tag 2, Model/Session.v: step_auth chooses the mechanism from the
   features of the stream it authenticates on).
   (2 session-input user secret): the session result, plus, per connection, the character
   data of every <auth/> the client writes: the PLAIN payload Model/Sasl.v computes from the
   local part of the configured JID and the secret. *)
From Coq Require Import List ZArith NArith Bool.
From XV Require Import Lib.Sx Model.Session Model.Sasl Corr.RunC14 Corr.RunSession.
From XV Require Model.ClientConfig.
Import ListNotations.
Open Scope Z_scope.

Definition auth_payloads (user secret : str) (w : list out) : list sx :=
  flat_map (fun x => match o_req x with RAuth _ => [SS (plain_payload user secret)] | _ => [] end) w.

Definition run_sess_payloads (y : sx) (user secret : str) : sx :=
  match RunSession.dec_input y with
  | Some (cfg, sme, cs, _) =>
      SL [run_session y;
          SL (map (fun x : list out * Session.result * persist => SL (auth_payloads user secret (fst (fst x))))
                  (run_conns cfg (fresh sme) cs))]
  | None => decode_error
  end.

(* (3 jid-as-units configured-domain secret): what NewClient makes of the configured JID
   string (Model/ClientConfig.v): the bytes of the string as the model reads them back, then
   (0) when NewClient refuses, or (1 payload domain resource): the character data of the
   <auth/>, the `to` of the stream header, the resource asked for in <bind/>. *)
Definition run_config (jid dom secret : str) : sx :=
  SL (SS (ClientConfig.bytes_of jid) ::
      match ClientConfig.new_client jid dom secret with
      | None => [SZ 0]
      | Some p => [SZ 1; SS (plain_payload (ClientConfig.p_local p) secret);
                   SS (ClientConfig.p_domain p); SS (ClientConfig.p_resource p)]
      end).

Definition run_C14b (x : sx) : sx :=
  match x with
  | SL [SZ 0; y] => run_C14 y
  | SL [SZ 1; y] => run_session y
  | SL [SZ 2; y; SS user; SS secret] => run_sess_payloads y user secret
  | SL [SZ 3; SS jid; SS dom; SS secret] => run_config jid dom secret
  | _ => decode_error
  end.
