(* C14 composite: authSASL-level cases (tag 0, Model/Sasl.v) and connection histories
   (tag 1, Model/Session.v: step_auth chooses the mechanism from the features of the
   stream it authenticates on). *)
From Coq Require Import List ZArith NArith Bool.
From XV Require Import Lib.Sx Corr.RunC14 Corr.RunSession.
Import ListNotations.
Open Scope Z_scope.

Definition run_C14b (x : sx) : sx :=
  match x with
  | SL [SZ 0; y] => run_C14 y
  | SL [SZ 1; y] => run_session y
  | _ => decode_error
  end.
