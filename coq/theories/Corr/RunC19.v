From Coq Require Import List ZArith NArith Bool.
From XV Require Import Lib.Sx Model.Backoff.
Import ListNotations.
Open Scope Z_scope.

(* input: (mode, NoJitter, Base, Factor, Cap, k, n, rs)
     mode 0: durationForAttempt(n) on a fresh value          (VerifBackoffForAttempt)
     mode 1: n calls of duration() on a fresh value          (VerifBackoffSeq)
     mode 2: k calls of duration(), reset(), n calls         (VerifBackoffSeqReset)
     mode 3: StreamManager scenario: n outages on one manager (defaults, jitter); rs = the
             observed number of failed attempts of each outage; output = for each outage
             the upper bounds (ns) of the waits after its failed attempts 0, 1, ...
             (the no-jitter value: C19_jitter_range; restart per outage: C19_outages_restart)
     mode 4: ONE value driven through operations in any order (VerifBackoffOps): rs is the flat
             list kind, arg, r per operation (n = its length): kind 0 = durationForAttempt(arg),
             1 = duration(), 2 = reset(); r = 0 without jitter, the observed delay of that call
             with jitter (echoed iff within [0, the no-jitter delay of the same call]); output =
             the delay of every call of kind 0 / 1.  (C19_query_history_independent,
             C19_ops_are_queries.)  A negative arg of a query is outside the domain.
   rs (modes 0-2): one value per observed call (1 for mode 0, n otherwise).
   Without jitter rs is all zeros and the delays are compared exactly.
   With jitter the draw cannot be predicted (the global math/rand source is not under the
   harness's control, and the property does not say how the draw is made), so the
   comparison is through the range only: rs carries the delays the code returned (ns);
   the model echoes such a value r when 0 <= r <= bound, bound = the no-jitter delay of
   the same attempt (the property's "between zero and that value"), and otherwise answers
   what it draws itself for the oracle value r (r mod bound, which differs from r) -- so
   the outputs are equal iff the code's delay is inside the range.  The k calls before
   reset() are not observed (oracle 0).
   Domain (what the property quantifies over): Base, Factor, Cap positive after the
   defaults (a 0 field is unset and takes its default) and attempt numbers >= 0.  For
   every other input both sides answer the constant (9): the check only requires that
   the harness survives such a call, not what the code does with it.

   observation of one call: (0 ns) the time.Duration in ns.  (The harness writes (1) /
   ((1)) when the code's random draw panics; the repaired code and the model never do.) *)

Definition outcome_sx (o : outcome) : sx :=
  match o with Dur ns => SL [SZ 0; SZ ns] end.

(* jittered call: echo the observed delay r when it is within [0, bound] *)
Definition echo_sx (r : Z) (o bound : outcome) : sx :=
  match o, bound with
  | Dur x, Dur bnd => if (0 <=? r) && (r <=? bnd) then SL [SZ 0; SZ r] else SL [SZ 0; SZ x]
  end.

Fixpoint echo_list (rs : list Z) (os bs : list outcome) : list sx :=
  match rs, os, bs with
  | r :: rs', o :: os', b :: bs' => echo_sx r o b :: echo_list rs' os' bs'
  | _, _, _ => []
  end.

(* a sequence of calls on [b] with observed values / oracle [rs] *)
Definition seq_sx (b : backoff) (rs : list Z) : sx :=
  let os := snd (dur_seq b rs) in
  if no_jitter b then SL (map outcome_sx os)
  else
    let twin := mkBackoff true (base b) (factor b) (cap b) (attempt b) in
    SL (echo_list rs os (snd (dur_seq twin (map (fun _ => 0) rs)))).

Definition c19_input := (Z * bool * Z * Z * Z * Z * Z * list Z)%type.

Definition dec_input (x : sx) : option c19_input :=
  match x with
  | SL [SZ mode; nj; SZ ba; SZ f; SZ c; SZ k; SZ n; rs] =>
      do j <- as_b nj;
      do l <- as_list as_z rs;
      if (0 <=? k) && ((mode =? 0) || (0 <=? n)) && (0 <=? mode) && (mode <=? 4)
         && (Z.of_nat (length l) =? (if mode =? 0 then 1 else n))
      then Some (mode, j, ba, f, c, k, n, l) else None
  | _ => None
  end.

Definition out_of_domain : sx := SL [SZ 9].

(* mode 4: decode the flat list; None on a malformed list or a negative query argument.
   The second component: the same operations with oracle 0 (run on the no-jitter twin to
   get the bounds); the third: the oracle / observed value of every call that returns a delay. *)
Fixpoint dec_ops (l : list Z) : option (list op * list op * list Z) :=
  match l with
  | [] => Some ([], [], [])
  | kind :: arg :: r :: t =>
      match dec_ops t with
      | None => None
      | Some (ops, ops0, rs) =>
          if kind =? 0 then
            if arg <? 0 then None else Some (OQuery arg r :: ops, OQuery arg 0 :: ops0, r :: rs)
          else if kind =? 1 then Some (OWait r :: ops, OWait 0 :: ops0, r :: rs)
          else if kind =? 2 then Some (OReset :: ops, OReset :: ops0, rs)
          else None
      end
  | _ => None
  end.

Definition ops_sx (nj : bool) (ba f c : Z) (l : list Z) : sx :=
  match dec_ops l with
  | None => out_of_domain
  | Some (ops, ops0, rs) =>
      let os := snd (run_ops (fresh nj ba f c) ops) in
      if nj then SL (map outcome_sx os)
      else SL (echo_list rs os (snd (run_ops (fresh true ba f c) ops0)))
  end.

Definition run_typed (inp : c19_input) : sx :=
  let '(mode, nj, ba, f, c, k, n, rs) := inp in
  let b := fresh nj ba f c in
  let b' := set_default b in
  if negb ((0 <? base b') && (0 <? factor b') && (0 <? cap b')) || ((mode =? 0) && (n <? 0))
  then out_of_domain else
  if mode =? 0 then
    let r := hd 0 rs in
    let o := snd (dur_for_attempt b n r) in
    if nj then outcome_sx o else echo_sx r o (snd (dur_for_attempt (fresh true ba f c) n 0))
  else if mode =? 1 then seq_sx b rs
  else if mode =? 4 then ops_sx nj ba f c rs
  else if mode =? 3 then
    SL (map (fun os => SL (map outcome_sx os)) (outages (fresh true ba f c) rs))
  else seq_sx (reset (fst (dur_seq b (zeros k)))) rs.

Definition run_C19 : sx -> sx := with_input dec_input run_typed.
