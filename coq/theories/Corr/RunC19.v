From Coq Require Import List ZArith NArith Bool.
From XV Require Import Lib.Sx Model.Backoff.
Import ListNotations.
Open Scope Z_scope.

(* input: (mode, NoJitter, Base, Factor, Cap, k, n, rs)
     mode 0: durationForAttempt(n) on a fresh value          (VerifBackoffForAttempt)
     mode 1: n calls of duration() on a fresh value          (VerifBackoffSeq)
     mode 2: k calls of duration(), reset(), n calls         (VerifBackoffSeqReset)
     mode 3: StreamManager scenario: n outages on one manager (defaults, jitter); rs = the
             observed number of failed attempts of each outage; output = for each outage
             the upper bounds (ns) of the waits after its failed attempts 0, 1, ...
             (the no-jitter value: C19_jitter_range; restart per outage: C19_outages_restart)
   rs: one oracle value per observed call (1 for mode 0, n otherwise).  The global
   math/rand source cannot be controlled by the harness, so for a jittered call the
   harness passes what it observed (ns / 10^6) as the oracle value: the model then
   answers (r mod d) ms, which equals the observation iff 0 <= r < d and the
   observation was a whole number of ms -- i.e. "there is an oracle value for which
   the model returns what the code returned".  Without jitter rs is all zeros and
   ignored by the model.  The k calls before reset() are not observed (oracle 0).
   Domain of the model: Base, Factor, k, n >= 0; anything else is a decode error.

   observation of one call: (0 ns) the time.Duration in ns | (1) rand.Intn panicked.
   A panic anywhere in a sequence makes the whole observation ((1)). *)

Definition outcome_sx (o : outcome) : sx :=
  match o with
  | Panic => SL [SZ 1]
  | Dur ns => SL [SZ 0; SZ ns]
  end.

Definition has_panic (os : list outcome) : bool :=
  existsb (fun o => match o with Panic => true | Dur _ => false end) os.

Definition seq_sx (os : list outcome) : sx :=
  if has_panic os then SL [SL [SZ 1]] else SL (map outcome_sx os).

Definition c19_input := (Z * bool * Z * Z * Z * Z * Z * list Z)%type.

Definition dec_input (x : sx) : option c19_input :=
  match x with
  | SL [SZ mode; nj; SZ ba; SZ f; SZ c; SZ k; SZ n; rs] =>
      do j <- as_b nj;
      do l <- as_list as_z rs;
      if (0 <=? ba) && (0 <=? f) && (0 <=? k) && (0 <=? n) && (0 <=? mode) && (mode <=? 3)
         && (Z.of_nat (length l) =? (if mode =? 0 then 1 else n))
      then Some (mode, j, ba, f, c, k, n, l) else None
  | _ => None
  end.

Definition run_typed (inp : c19_input) : sx :=
  let '(mode, nj, ba, f, c, k, n, rs) := inp in
  let b := fresh nj ba f c in
  if mode =? 0 then outcome_sx (snd (dur_for_attempt b n (hd 0 rs)))
  else if mode =? 1 then seq_sx (snd (dur_seq b rs))
  else if mode =? 3 then SL (map seq_sx (outages (fresh true ba f c) rs))
  else
    let '(b1, os1) := dur_seq b (zeros k) in
    if has_panic os1 then SL [SL [SZ 1]]
    else seq_sx (snd (dur_seq (reset b1) rs)).

Definition run_C19 : sx -> sx := with_input dec_input run_typed.
