(* C12 composite: the receive-loop cases of RunRecv (one connection per Client) and, tagged 12, histories of
   connections of ONE Client object (Model/RecvHist.v):
   (12 (round ...)), round = (established (item ...)) with the items completely received before the cut.
   Output, per round: (established, error callbacks, Disconnected events, keys of the stanzas routed in arrival
   order (id*4 + kind), (keepalive goroutines still running when the receiver has returned, receivers, others)):
   the model's receivers all return (crecv is structurally recursive) and it starts nothing else. *)
From Coq Require Import List ZArith NArith Bool.
From XV Require Import Lib.Sx Model.Recv Model.RecvHist Corr.RunRecv.
Import ListNotations.
Open Scope Z_scope.

Definition dec_round (x : sx) : option round :=
  match x with
  | SL [e; SL xs] =>
      do b <- as_b e; do lh <- dec_items xs;
      match snd lh with
      | None => Some {| rd_est := b; rd_inb := 0%N; rd_items := fst lh |}
      | Some _ => None
      end
  | _ => None
  end.
Definition stanza_key (i : item) : list sx :=
  match i with IStanza k id => [SZ (Z.of_N id * 4 + kind_z k)] | _ => [] end.
Definition round_sx (o : round_out) : sx :=
  let tr := ro_trace o in
  SL [SB (match ro_chan o with Some _ => true | None => false end);
      SZ (Z.of_nat (count_act is_err tr)); SZ (Z.of_nat (count_act is_disc tr));
      SL (flat_map stanza_key (routed tr));
      SL [SZ (Z.of_nat (length (ro_alive o))); SZ 0; SZ 0]].

Definition run_C12 (x : sx) : sx :=
  match x with
  | SL [SZ 12; SL rs] =>
      match omap dec_round rs with
      | Some l => SL (map round_sx (run_hist ks_init l))
      | None => decode_error
      end
  | _ => run_recv x
  end.
