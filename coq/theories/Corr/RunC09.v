(* C09 runs two kinds of cases: receive-loop histories (tag 0, Model/Recv.v) and
   connection histories with traffic and resumption (tag 1, Model/Session.v). *)
From Coq Require Import List ZArith NArith Bool.
From XV Require Import Lib.Sx Corr.RunRecv Corr.RunSession.
Import ListNotations.
Open Scope Z_scope.

Definition run_C09 (x : sx) : sx :=
  match x with
  | SL [SZ 0; y] => run_recv y
  | SL [SZ 1; y] => run_session y
  | _ => decode_error
  end.
