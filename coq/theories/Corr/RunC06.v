(* Glue for C06: decode (route table as builder calls, pending ids, packet), run
   Model/Router.v, render what the harness observes: handler log, packets given to
   Sender.Send, SendRaw calls, SendIQ calls, IQs delivered to pending requests, ids
   still pending.  Strings are bytes. *)
From Coq Require Import List ZArith NArith Bool.
From XV Require Import Lib.Sx Model.Router.
Import ListNotations.
Open Scope Z_scope.

Definition dec_matcher (x : sx) : option matcher :=
  match x with
  | SL [SZ 0; SS s] => Some (b_packet s)                                    (* Route.Packet(s) *)
  | SL [SZ 1; l] => do ts <- as_list as_s l; Some (b_stanza_type ts)        (* Route.StanzaType(l...) *)
  | SL [SZ 2; l] => do ns <- as_list as_s l; Some (b_iq_namespaces ns)      (* Route.IQNamespaces(l...) *)
  | _ => None
  end.

Definition dec_attrs (x : sx) : option attrs :=
  match x with
  | SL [SS ty; SS id; SS from; SS to] =>
      Some {| a_type := ty; a_id := id; a_from := from; a_to := to |}
  | _ => None
  end.

Definition dec_pkt (x : sx) : option pkt :=
  match x with
  | SL [SZ 0; a] => do a' <- dec_attrs a; Some (PMessage a')
  | SL [SZ 1; a] => do a' <- dec_attrs a; Some (PPresence a')
  | SL [SZ 2; a; ns; any] =>
      do a' <- dec_attrs a; do ns' <- as_opt as_s ns; do any' <- as_opt as_s any;
      Some (PIQ a' ns' any')
  | SL [SZ 3; SZ k] => Some (POther (Z.to_N k))
  | _ => None
  end.

Definition dec_input (x : sx) : option (table * list str * pkt * list str) :=
  match x with
  | SL [t; pend; p] =>
      do t' <- as_list (as_list dec_matcher) t;
      do pend' <- as_list as_s pend;
      do p' <- dec_pkt p;
      Some (t', pend', p', [])
  | SL [t; pend; p; ended] =>       (* ended: ids of requests whose context has ended, entry still registered *)
      do t' <- as_list (as_list dec_matcher) t;
      do pend' <- as_list as_s pend;
      do p' <- dec_pkt p;
      do e' <- as_list as_s ended;
      Some (t', pend', p', e')
  | _ => None
  end.

Definition attrs_sx (a : attrs) : sx :=
  SL [SS (a_type a); SS (a_id a); SS (a_from a); SS (a_to a)].
(* a sent packet as the harness projects it: IQ, its four attributes, its error
   condition ("" when it carries none) — nothing else of the reply is compared *)
Definition reply_sx (r : reply) : sx :=
  SL [SZ 2; attrs_sx (rp_attrs r);
      SS (match rp_condition r with Some c => c | None => [] end)].

Definition run_typed (inp : table * list str * pkt * list str) : sx :=
  let '(t, pend, p, ended) := inp in
  let '(ev, pend', ended') := do_route_e t pend ended p in
  SL [ SL (map (fun i => SL [Snat i; SB true]) (handler_log ev));   (* (route index, got the routed packet) *)
       SL (map reply_sx (replies ev));                              (* Sender.Send *)
       SL [];                                                       (* Sender.SendRaw: never *)
       SZ 0;                                                        (* Sender.SendIQ: never *)
       SL (map attrs_sx (deliveries ev));
       SL (map SS pend');
       SL (map SS ended');                                          (* ended requests still registered *)
       SZ 0 ].   (* builder calls that rewrote the caller's argument slice: the builders are functions of their arguments *)

(* histories (routes registered while the router is in use): input = [table; hops], a hop is
   [0; route] (registered from outside a dispatch) or [1; packet; routes its handler registers];
   output = per dispatch [handler log; packets given to Sender.Send; SendRaw + SendIQ calls] *)
Definition dec_hop (x : sx) : option hop :=
  match x with
  | SL [SZ 0; r] => do r' <- as_list dec_matcher r; Some (HAdd r')
  | SL [SZ 1; p; ins] =>
      do p' <- dec_pkt p; do i' <- as_list (as_list dec_matcher) ins; Some (HDispatch p' i')
  | _ => None
  end.

Definition dec_hist (x : sx) : option (table * list hop) :=
  match x with
  | SL [t; h] =>
      do t' <- as_list (as_list dec_matcher) t;
      do h' <- as_list dec_hop h;
      Some (t', h')
  | _ => None
  end.

Definition run_hist_typed (inp : table * list hop) : sx :=
  SL (map (fun ev =>
             SL [ SL (map (fun i => SL [Snat i; SB true]) (handler_log ev));
                  SL (map reply_sx (replies ev));
                  SZ 0 ])
          (run_hist (fst inp) (snd inp))).

Definition run_C06 (x : sx) : sx :=
  match dec_hist x with
  | Some i => run_hist_typed i
  | None => with_input dec_input run_typed x
  end.
