From Coq Require Import List ZArith NArith Bool.
From XV Require Import Lib.Sx Model.Manager.
Import ListNotations.
Open Scope Z_scope.

Definition dec_ev (x : sx) : option mev :=
  match x with
  | SL [SZ 0; SZ a; SZ fl] =>
      let b := negb (fl =? 0) in
      if a =? 0 then Some (EAttempt ARefused) else if a =? 1 then Some (EAttempt (AFail false b))
      else if a =? 2 then Some (EAttempt (AFail true b)) else if a =? 3 then Some (EAttempt (AOk b))
      else if a =? 5 then Some (EAttempt (AHookFail b)) else None
  | SL [SZ 1; SZ t] =>
      if t =? 0 then Some (ETerm TDrop) else if t =? 1 then Some (ETerm TClose)
      else if t =? 2 then Some (ETerm TStop) else if t =? 3 then Some (ETerm TStreamError) else None
  | SL [SZ 2] => Some EStaleReader
  | SL [SZ 3] => Some EOldReceiver
  | _ => None
  end.

Definition phase_z (p : mphase) : Z :=
  match p with MIdle => 0 | MUp => 1 | MRetry => 2 | MDead => 3 | MReturned => 4 end.

Inductive c13_input :=
| IScenario (sm : bool) (es : list mev)   (* a fault sequence under a StreamManager *)
| IHeaderWrite                            (* how a stream header that cannot be written is classified *)
| IWssCert.                               (* how a certificate that does not verify is classified on wss:// *)

Definition dec_input (x : sx) : option c13_input :=
  match x with
  | SL [SZ 0; sm; es] => do b <- as_b sm; do l <- as_list dec_ev es; Some (IScenario b l)
  | SL [SZ 1] => Some IHeaderWrite
  | SL [SZ 2] => Some IWssCert
  | _ => None
  end.

(* observation of a scenario: whether Run has returned, negotiations completed on the
   server, sessions resumed, PostConnect calls, sessions that work in both directions (a
   probe stanza sent by the server on the session's connection reaches a handler and a
   stanza sent by the application arrives on that connection), connections the server
   accepted *)
Definition run_typed (i : c13_input) : sx :=
  match i with
  | IScenario sm es =>
      let s := m_run repaired (m_init sm) es in
      SL [SZ (phase_z (m_phase s)); Snat (m_estab s); Snat (m_resumed s); Snat (m_post s);
          Snat (m_recv s); Snat (m_conns s)]
  | IHeaderWrite => SL [SZ 9; SB (attempt_permanent header_write_failure)]
  | IWssCert => SL [SZ 8; SB (attempt_permanent wss_certificate_refused)]
  end.

Definition run_C13 : sx -> sx := with_input dec_input run_typed.
