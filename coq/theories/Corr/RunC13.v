From Coq Require Import List ZArith NArith Bool.
From XV Require Import Lib.Sx Model.Manager.
Import ListNotations.
Open Scope Z_scope.

Definition dec_ev (x : sx) : option mev :=
  match x with
  | SL [SZ 0; SZ a] =>
      if a =? 0 then Some (EAttempt ARefused) else if a =? 1 then Some (EAttempt AFailTransient)
      else if a =? 2 then Some (EAttempt AFailPermanent) else if a =? 3 then Some (EAttempt (AOk false))
      else if a =? 4 then Some (EAttempt (AOk true)) else None
  | SL [SZ 1; SZ t] =>
      if t =? 0 then Some (ETerm TDrop) else if t =? 1 then Some (ETerm TClose)
      else if t =? 2 then Some (ETerm TStop) else if t =? 3 then Some (ETerm TStreamError) else None
  | _ => None
  end.

Definition phase_z (p : mphase) : Z :=
  match p with MIdle => 0 | MUp => 1 | MRetry => 2 | MDead => 3 | MReturned => 4 end.

(* observation: phase, sessions, resumed sessions, PostConnect calls, sessions whose
   receiver works (a probe stanza sent on each established session reaches a handler) *)
Definition run_typed (es : list mev) : sx :=
  let s := m_run m_init es in
  SL [SZ (phase_z (m_phase s)); Snat (m_sessions s); Snat (m_resumed s); Snat (m_post s); Snat (m_recv s)].

Definition run_C13 : sx -> sx := with_input (as_list dec_ev) run_typed.
