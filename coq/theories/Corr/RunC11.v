(* C11 composite: connection histories (tag 0, as run_session decodes them) and the
   resumption step with a failing write of <resume/> (tag 1):
     (1 (insecure resource sm_resume (mech ...)) (held-id inbound sm_enable) features (item ...) wfail)
     -> ((request ...) result state failed-writes)
   the step runs on an authenticated, restarted stream whose features are given; the items
   are what the server holds ready after them. *)
From Coq Require Import List ZArith NArith Bool.
From XV Require Import Lib.Sx Model.Session Corr.RunSession.
Import ListNotations.
Open Scope Z_scope.

Definition dec_wf (x : sx) : option (config * persist * features * list sitem * bool) :=
  match x with
  | SL [SL [ins; SS res; smr; mechs]; SL [SS held; SZ inb; sme]; f; items; wf] =>
      do i <- as_b ins; do r <- as_b smr; do ms <- as_list as_s mechs; do e <- as_b sme;
      do f' <- dec_features f; do l <- as_list dec_item items; do w <- as_b wf;
      Some ({| c_insecure := i; c_resource := res; c_sm_resume := r; c_mechs := ms |},
            {| p_has_session := true; p_sm_id := held; p_inbound := Z.to_N inb; p_has_queue := false;
               p_sm_enable := e; p_bind_jid := []; p_packet_id := 0%N;
               p_code_secure := false; p_tls_enabled := false; p_resume_refused := false |},
            f', l, w)
  | _ => None
  end.

Definition run_wf (i : config * persist * features * list sitem * bool) : sx :=
  let '(cfg, p, f, items, wf) := i in
  let '(w, r, p1) := step_resume_w wf cfg false p f items [] in
  SL [SL (map req_sx (reqs w)); result_sx r; persist_sx p1;
      Snat (if wf && resume_attempted p f then 1 else 0)].

Definition run_C11 (x : sx) : sx :=
  match x with
  | SL [SZ 0; y] => run_session y
  | SL (SZ 1 :: rest) => with_input dec_wf run_wf (SL rest)
  | _ => decode_error
  end.
