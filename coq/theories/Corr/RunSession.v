(* Glue for the session model (C03, C04, C11). *)
From Coq Require Import List ZArith NArith Bool.
From XV Require Import Lib.Sx Model.Session Model.Recv Model.SessionRecv.
Import ListNotations.
Open Scope Z_scope.

Definition dec_tls (z : Z) : option tlsfeat :=
  if z =? 0 then Some TlsNone else if z =? 1 then Some TlsOffered else if z =? 2 then Some TlsRequired else None.
Definition dec_sess (z : Z) : option sessfeat :=
  if z =? 0 then Some SessAbsent else if z =? 1 then Some SessMandatory else if z =? 2 then Some SessOptional else None.
Definition dec_typ (z : Z) : option iqtyp :=
  if z =? 0 then Some TGet else if z =? 1 then Some TSet else if z =? 2 then Some TResult else if z =? 3 then Some TError else None.
Definition dec_res (z : Z) : option resattr :=
  if z =? 0 then Some ResTrue else if z =? 1 then Some ResFalse else if z =? 2 then Some ResAbsent else if z =? 3 then Some ResGarbage else None.

Definition dec_features (x : sx) : option features :=
  match x with
  | SL [SZ t; ms; b; SZ s; m] =>
      do t' <- dec_tls t; do ms' <- as_list as_s ms; do b' <- as_b b; do s' <- dec_sess s; do m' <- as_b m;
      Some {| f_tls := t'; f_mechs := ms'; f_bind := b'; f_sess := s'; f_sm := m' |}
  | _ => None
  end.

Definition dec_item (x : sx) : option sitem :=
  match x with
  | SL [SZ 0; SS id] => Some (SHeader id)
  | SL [SZ 1; f] => do f' <- dec_features f; Some (SFeatures f')
  | SL [SZ 2] => Some SProceed
  | SL [SZ 3] => Some STlsFailure
  | SL [SZ 4] => Some SSuccess
  | SL [SZ 5] => Some SSaslFailure
  | SL [SZ 6; SZ t; pl; e] =>
      do t' <- dec_typ t; do e' <- as_b e;
      do pl' <- match pl with
                | SL [SZ 0; SS jid] => Some (PlBind jid)
                | SL [SZ 1] => Some PlSession
                | SL [SZ 2] => Some PlOther
                | SL [SZ 3] => Some PlNone
                | _ => None
                end;
      Some (SIq t' pl' e')
  | SL [SZ 7] => Some SMessage
  | SL [SZ 8] => Some SPresence
  | SL [SZ 9; SS id; SZ r] => do r' <- dec_res r; Some (SEnabled id r')
  | SL [SZ 10; SS id] => Some (SResumed id)
  | SL [SZ 11] => Some SFailed
  | SL [SZ 12] => Some SR
  | SL [SZ 13] => Some SA
  | SL [SZ 14] => Some SStreamError
  | SL [SZ 15] => Some SClose
  | SL [SZ 16] => Some SUnknown
  | SL [SZ 17] => Some SMalformed
  | SL [SZ 18] => Some SEof
  | _ => None
  end.

Definition dec_conn (x : sx) : option conn :=
  match x with
  | SL [d; t; items; SZ tr] =>
      do d' <- as_b d; do t' <- as_b t; do l <- as_list dec_item items;
      Some {| k_dial := d'; k_tls := t'; k_script := l; k_traffic := Z.to_N tr |}
  | _ => None
  end.

(* optional fourth component: per connection, for each request, the number of server
   items that had been sent when the request showed up at the (patient) server; -1 or
   absent: not measured *)
Definition dec_input (x : sx) : option (config * bool * list conn * list (list Z)) :=
  match x with
  | SL (SL [ins; SS res; smr; mechs] :: sme :: conns :: more) =>
      do i <- as_b ins; do r <- as_b smr; do ms <- as_list as_s mechs; do e <- as_b sme;
      do cs <- as_list dec_conn conns;
      do sbs <- match more with
                | [] => Some []
                | [y] => as_list (as_list as_z) y
                | _ => None
                end;
      Some ({| c_insecure := i; c_resource := res; c_sm_resume := r; c_mechs := ms |}, e, cs, sbs)
  (* the same with the transport named as a fifth element of the configuration (1 ws://, 2 wss://) *)
  | SL (SL [ins; SS res; smr; mechs; SZ _] :: sme :: conns :: more) =>
      do i <- as_b ins; do r <- as_b smr; do ms <- as_list as_s mechs; do e <- as_b sme;
      do cs <- as_list dec_conn conns;
      do sbs <- match more with
                | [] => Some []
                | [y] => as_list (as_list as_z) y
                | _ => None
                end;
      Some ({| c_insecure := i; c_resource := res; c_sm_resume := r; c_mechs := ms |}, e, cs, sbs)
  | _ => None
  end.
Definition dec_transport (x : sx) : transport :=
  match x with
  | SL (SL [_; _; _; _; SZ t] :: _) => if t =? 1 then TWs false else if t =? 2 then TWs true else TTcp
  | _ => TTcp
  end.

Definition req_sx (r : creq) : sx :=
  match r with
  | ROpen => SL [SZ 0]
  | RStartTls => SL [SZ 1]
  | RAuth m => SL [SZ 2; SS m]
  | RResume id h => SL [SZ 3; SS id; SN h]
  | RBind res id => SL [SZ 4; SS res; SN id]
  | RSession id => SL [SZ 5; SN id]
  | REnable b => SL [SZ 6; SB b]
  end.
(* Third component of every request: the observed count [sb] of server items sent
   before the request showed up is echoed when it is at least the number of items the
   client must have consumed by then (cumulative [o_seen], theorems C03_waits_for_confirmation
   and C03_seen_is_read); otherwise the required number is shown, which the observation
   cannot equal. *)
Fixpoint outs_sx (w : list out) (sbs : list Z) (consumed_before : Z) : list sx :=
  match w with
  | [] => []
  | x :: w' =>
      let c := (consumed_before + Z.of_nat (length (o_seen x)))%Z in
      let sb := match sbs with b :: _ => b | [] => (-1)%Z end in
      SL [req_sx (o_req x); SB (o_tls x);
          if (sb <? 0)%Z then SZ sb else if (c <=? sb)%Z then SZ sb else SL [SZ c]]
      :: outs_sx w' (tl sbs) c
  end.
Definition result_sx (r : result) : sx :=
  match r with Ok => SL [SZ 0] | Err ce perm => SL [SZ 1; SB ce; SB perm] end.
Definition persist_sx (p : persist) : sx :=
  SL [SB (p_has_session p); SS (p_sm_id p); SN (p_inbound p); SB (p_has_queue p); SS (p_bind_jid p)].

(* During the traffic phase the scripted server sends the stanzas number 1, 2, ... of the
   connection (message, presence alternating) with <r/> after the stanzas number 1, 4, 7,
   ...: that item list is given to the receive-loop model (Model/Recv.v, [crecv]) through
   [run_full] (Model/SessionRecv.v), which starts the loop with the count the negotiation
   left and takes the count held afterwards from the loop's Disconnected event.  The
   answers compared are the ones that loop writes. *)
Fixpoint traffic_items (k : nat) (left : nat) : list item :=
  match left with
  | O => []
  | S l => IStanza (if Nat.even k then KMsg else KPres) (N.of_nat (S k))
           :: (if Nat.eqb (Nat.modulo k 3) 0 then [ISmR] else []) ++ traffic_items (S k) l
  end.
Definition tconn_of (c : conn) : tconn :=
  {| t_dial := k_dial c; t_tls := k_tls c; t_script := k_script c;
     t_items := traffic_items 0 (N.to_nat (k_traffic c)); t_wf := no_fault |}.

(* fifth component: how many times the session-established state was announced while the
   connection was being set up (when Client.connect returned / when the connection was over) *)
Fixpoint full_sx (rs : list (list out * result * persist * list cev * list action)) (sbs : list (list Z)) : list sx :=
  match rs with
  | [] => []
  | (w, r, p2, ev, tr) :: rs' =>
      let n := Snat (count_ev EvEstablished ev) in
      SL [SL (outs_sx w (hd [] sbs) 0); result_sx r; persist_sx p2; SL (map SN (answers tr)); SL [n; n]]
      :: full_sx rs' (tl sbs)
  end.

Definition run_typed (i : config * bool * list conn * list (list Z)) : sx :=
  let '(cfg, sme, cs, sbs) := i in SL (full_sx (run_full cfg (fresh sme) (map tconn_of cs)) sbs).

(* over the WebSocket transport: connection histories without traffic *)
Fixpoint conns_sx (rs : list (list out * result * persist)) (sbs : list (list Z)) : list sx :=
  match rs with
  | [] => []
  | (w, r, p2) :: rs' =>
      let n := Snat (count_ev EvEstablished (announce r)) in
      SL [SL (outs_sx w (hd [] sbs) 0); result_sx r; persist_sx p2; SL []; SL [n; n]] :: conns_sx rs' (tl sbs)
  end.
Definition run_typed_on (t : transport) (i : config * bool * list conn * list (list Z)) : sx :=
  let '(cfg, sme, cs, sbs) := i in SL (conns_sx (run_conns_on t cfg (fresh sme) cs) sbs).

Definition run_session (x : sx) : sx :=
  match dec_transport x with
  | TTcp => with_input dec_input run_typed x
  | t => with_input dec_input (run_typed_on t) x
  end.
