(* C15 glue: input = the string handed to stanza.NewJid, as units (code points; a byte
   outside well-formed UTF-8 as 0x110000 + byte, see Model/Jid.v); the strings of the
   output are compared in the same encoding, i.e. byte-exactly.
   Output: (0) on error; (1 node domain resource full bare r_full r_bare) on success,
   where r_full / r_bare are the results of parsing Full() / Bare() again, each
   (0) or (1 node domain resource).
   Strings with a '/' before the first '@' are outside the property (RFC 7622 and the
   library legitimately differ there): they are projected to (2) on both sides, so a
   change of behaviour on that class alone is not reported. *)
From Coq Require Import List ZArith NArith Bool.
From XV Require Import Lib.Sx Model.Jid.
Import ListNotations.
Open Scope Z_scope.

Definition res_sx (r : result) : sx :=
  match r with
  | Err => SL [SZ 0]
  | Ok j => SL [SZ 1; SS (node j); SS (domain j); SS (resource j)]
  end.

Definition dec_input (x : sx) : option str := as_s x.

(* a '/' occurs before the first '@' *)
Definition slash_before_at (s : str) : bool :=
  match split_first c_at s with
  | Some (l, _) => mem c_slash l
  | None => false
  end.

Definition run_typed (s : str) : sx :=
  if slash_before_at s then SL [SZ 2] else
  match new_jid s with
  | Err => SL [SZ 0]
  | Ok j => SL [SZ 1; SS (node j); SS (domain j); SS (resource j);
                SS (full j); SS (bare j);
                res_sx (new_jid (full j)); res_sx (new_jid (bare j))]
  end.

(* ---- histories (several calls in one process) ----
   Input: a list of steps instead of a string:
     (0 s)                 NewJid(s), observed at once: (2) | (0) | (1 node domain resource full bare)
     (1 k f v)             the caller assigns v to field f (0 Node, 1 Domain, 2 Resource) of the Jid
                           step k returned (nothing happens when step k returned none); shows (3)
     (2 rounds s1 .. sn)   n goroutines, goroutine i parses s_i [rounds] times, observing each result
                           at once and then assigning to its fields; shows (4 (r_1,1 .. r_1,rounds) ..)
   Output: (3 obs_1 .. obs_m), by Model/Jid.v run_hist from an empty heap. *)
Definition one_sx (s : str) (r : result) : sx :=
  if slash_before_at s then SL [SZ 2] else
  match r with
  | Err => SL [SZ 0]
  | Ok j => SL [SZ 1; SS (node j); SS (domain j); SS (resource j); SS (full j); SS (bare j)]
  end.

Definition dec_field (z : Z) : option jfield :=
  if z =? 0 then Some FNode else if z =? 1 then Some FDomain else if z =? 2 then Some FResource else None.

Definition dec_step (x : sx) : option hstep :=
  match x with
  | SL [SZ 0; SS s] => Some (HParse s)
  | SL [SZ 1; SZ k; SZ f; SS v] => do f' <- dec_field f; Some (HMut (Z.to_nat k) f' v)
  | SL (SZ 2 :: SZ n :: ss) => do ss' <- omap as_s ss; Some (HPar ss' (Z.to_nat n))
  | _ => None
  end.

Definition obs_sx (st : hstep) (o : hobs) : sx :=
  match st, o with
  | HParse s, OParse r => one_sx s r
  | HMut _ _ _, OMut => SL [SZ 3]
  | HPar ss _, OPar rs =>
      SL (SZ 4 :: map (fun p => SL (map (one_sx (fst p)) (snd p))) (combine ss rs))
  | _, _ => decode_error
  end.

Definition run_hist_sx (h : list hstep) : sx :=
  SL (SZ 3 :: map (fun p => obs_sx (fst p) (snd p)) (combine h (run_hist [] h))).

Inductive c15_input := IStr (s : str) | IHist (h : list hstep).

Definition dec_any (x : sx) : option c15_input :=
  match x with
  | SS s => Some (IStr s)
  | SL l => do h <- omap dec_step l; Some (IHist h)
  | _ => None
  end.

Definition run_any (i : c15_input) : sx :=
  match i with IStr s => run_typed s | IHist h => run_hist_sx h end.

Definition run_C15 : sx -> sx := with_input dec_any run_any.
