(* C15 glue: input = the string handed to stanza.NewJid, as code points.
   Output: (0) on error; (1 node domain resource full bare r_full r_bare) on success,
   where r_full / r_bare are the results of parsing Full() / Bare() again, each
   (0) or (1 node domain resource). *)
From Coq Require Import List ZArith NArith Bool.
From XV Require Import Lib.Sx Model.Jid.
Import ListNotations.
Open Scope Z_scope.

Definition res_sx (r : result) : sx :=
  match r with
  | Err => SL [SZ 0]
  | Ok j => SL [SZ 1; SS (node j); SS (domain j); SS (resource j)]
  end.

Definition dec_input (x : sx) : option str := as_s x.

Definition run_typed (s : str) : sx :=
  match new_jid s with
  | Err => SL [SZ 0]
  | Ok j => SL [SZ 1; SS (node j); SS (domain j); SS (resource j);
                SS (full j); SS (bare j);
                res_sx (new_jid (full j)); res_sx (new_jid (bare j))]
  end.

Definition run_C15 : sx -> sx := with_input dec_input run_typed.
