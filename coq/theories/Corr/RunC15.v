(* C15 glue: input = the string handed to stanza.NewJid, as units (code points; a byte
   outside well-formed UTF-8 as 0x110000 + byte, see Model/Jid.v); the strings of the
   output are compared in the same encoding, i.e. byte-exactly.
   Output: (0) on error; (1 node domain resource full bare r_full r_bare) on success,
   where r_full / r_bare are the results of parsing Full() / Bare() again, each
   (0) or (1 node domain resource).
   Strings with a '/' before the first '@' are outside the property (RFC 7622 and the
   library legitimately differ there): they are projected to (2) on both sides, so a
   change of behaviour on that class alone is not reported. *)
From Coq Require Import List ZArith NArith Bool.
From XV Require Import Lib.Sx Model.Jid.
Import ListNotations.
Open Scope Z_scope.

Definition res_sx (r : result) : sx :=
  match r with
  | Err => SL [SZ 0]
  | Ok j => SL [SZ 1; SS (node j); SS (domain j); SS (resource j)]
  end.

Definition dec_input (x : sx) : option str := as_s x.

(* a '/' occurs before the first '@' *)
Definition slash_before_at (s : str) : bool :=
  match split_first c_at s with
  | Some (l, _) => mem c_slash l
  | None => false
  end.

Definition run_typed (s : str) : sx :=
  if slash_before_at s then SL [SZ 2] else
  match new_jid s with
  | Err => SL [SZ 0]
  | Ok j => SL [SZ 1; SS (node j); SS (domain j); SS (resource j);
                SS (full j); SS (bare j);
                res_sx (new_jid (full j)); res_sx (new_jid (bare j))]
  end.

Definition run_C15 : sx -> sx := with_input dec_input run_typed.
