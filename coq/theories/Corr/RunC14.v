(* C14 glue.  Two input shapes:
     (0 kind user secret ((ns local text) ...) wmode (rkind reason))   authSASL through VerifAuthSASL;
        the list: the child elements of the SASL <mechanisms/> element the server sent
        kind 0 = Password, 1 = OAuthToken; wmode 0 = Write succeeds, 1 = Write
        returns an error, 2 = Write returns (0, nil); rkind 0 = <success/>,
        1 = <failure/>, 2 = other packet, 3 = read error
        -> (nwrites result (elem ...))   nwrites = number of Write calls; result 0 = nil,
           1 = permanent ConnError, 2 = other error; one elem per Write, the written
           bytes READ AS AN ELEMENT: (namespace local-name mechanism-attribute
           character-data), or (bytes) when they are not one such element.  How the
           element is spelled (quotes, attribute order, xmlns placement) is not compared;
           the character data (the payload) is, byte for byte.
     (2 kind user secret ((ns local ((ns local text) ...)) ...) wmode reply)   the same, with ALL the
        children of the <stream:features/> element the server sent (each with its own element
        children), as an independent XML reader sees them: which of them advertise a mechanism is
        the model's business ([advertised_in]).
        reply = (rkind reason) as above, or (rkind reason ns local) when the server's answer starts
        with a complete, well-formed element of that expanded name: then the model itself decides
        what the reply is ([reply_of_name], through Model/Parser.v's classification) and rkind is
        not looked at.
     (1 data text)   base64.StdEncoding: -> (EncodeToString(data) (DecodeString(text)) or ()) *)
From Coq Require Import List ZArith NArith Bool.
From XV Require Import Lib.Sx Model.Base64 Model.Sasl Model.SaslReply.
Import ListNotations.
Open Scope Z_scope.

Inductive c14_input :=
| IAuth (k : cred_kind) (user secret : str) (children : list fchild) (w : wres) (r : reply)
| IAuthNodes (k : cred_kind) (user secret : str) (nodes : list fnode) (w : wres) (r : reply)
| ICodec (data text : str).

Definition dec_kind (z : Z) : option cred_kind :=
  if z =? 0 then Some CPassword else if z =? 1 then Some COAuthToken else None.
Definition dec_wres (z : Z) : option wres :=
  if z =? 0 then Some WOk else if z =? 1 then Some WErr else if z =? 2 then Some WZero else None.
Definition dec_reply (x : sx) : option reply :=
  match x with
  | SL [SZ z; SS reason] =>
      if z =? 0 then Some RSuccess else if z =? 1 then Some (RFailure reason)
      else if z =? 2 then Some ROther else if z =? 3 then Some RReadErr else None
  | SL [SZ _; SS reason; SS ns; SS local] => Some (reply_of_name (ns, local) reason)
  | _ => None
  end.

Definition dec_child (x : sx) : option fchild :=
  match x with SL [SS ns; SS local; SS text] => Some (ns, local, text) | _ => None end.

Definition dec_node (x : sx) : option fnode :=
  match x with
  | SL [SS ns; SS local; ch] => do ch' <- as_list dec_child ch; Some (ns, local, ch')
  | _ => None
  end.

Definition dec_input (x : sx) : option c14_input :=
  match x with
  | SL [SZ 2; SZ k; SS user; SS secret; nodes; SZ w; r] =>
      do k' <- dec_kind k; do ns <- as_list dec_node nodes; do w' <- dec_wres w;
      do r' <- dec_reply r; Some (IAuthNodes k' user secret ns w' r')
  | SL [SZ 0; SZ k; SS user; SS secret; server; SZ w; r] =>
      do k' <- dec_kind k; do srv <- as_list dec_child server; do w' <- dec_wres w;
      do r' <- dec_reply r; Some (IAuth k' user secret srv w' r')
  | SL [SZ 1; SS data; SS text] => Some (ICodec data text)
  | _ => None
  end.

Definition result_sx (r : result) : sx :=
  SZ (match r with Ok => 0 | ErrPermanent => 1 | ErrOther => 2 end).

(* {urn:ietf:params:xml:ns:xmpp-sasl}auth: the expanded name of what auth_element spells *)
Definition s_auth : str := s_ [97; 117; 116; 104].

(* the model's written bytes, read back by the model's own server-side reader
   (Props/C14.v, C14_wire_parses: it always succeeds on what auth_sasl writes) *)
Definition elem_sx (e : str) : sx :=
  match parse_auth e with
  | Some (m, p) => SL [SS s_ns_sasl; SS s_auth; SS m; SS p]
  | None => SL [SS e]
  end.

Definition run_typed (i : c14_input) : sx :=
  match i with
  | IAuth k user secret children w r =>
      let '(written, res) := auth_sasl_features k children user secret w r in
      SL [Snat (length written); result_sx res; SL (map elem_sx written)]
  | IAuthNodes k user secret nodes w r =>
      let '(written, res) := auth_sasl_nodes k nodes user secret w r in
      SL [Snat (length written); result_sx res; SL (map elem_sx written)]
  | ICodec data text => SL [SS (b64_encode data); SO SS (b64_decode text)]
  end.

Definition run_C14 : sx -> sx := with_input dec_input run_typed.
