(* Glue for C08: decodes the harness's case, runs Model/Send.v, renders the
   observation.  Payloads are abstract tokens chosen by the harness (the
   canonical reading of a stanza as XML elements for Send/SendIQ, the exact
   bytes for SendRaw): the property fixes WHICH element goes on the wire, whole
   and once, not its spelling.  Only what the property speaks about is rendered:
   error or no error, the transport writes, the queue payloads; the log file's
   own write pattern and the error values are projected away.  Three case kinds:
   0  op history on a client/component over a recording transport
   1  Write calls straight on the stream logger
   2  concurrent senders: the LTS run under the schedule read off the wire
   3  op history on a client over the real WebSocket transport whose TCP
      connection starts failing every write from socket call k0 on
   4  Client.Connect's own send of the initial presence *)
From Coq Require Import List ZArith NArith Bool Arith.
From XV Require Import Lib.Sx Model.Queue Model.Send.
Import ListNotations.
Open Scope Z_scope.

(* error or no error *)
Definition result_sx (r : result) : sx :=
  match r with RNil => SZ 0 | _ => SZ 1 end.

(* faults: list of (call number, kind 1 = error / 2 = short, bytes taken) *)
Definition dec_fault (x : sx) : option (nat * wres) :=
  match x with
  | SL [SZ k; SZ kind; SZ n] =>
      if kind =? 1 then Some (Z.to_nat k, WErr (Z.to_nat n))
      else if kind =? 2 then Some (Z.to_nat k, WShort (Z.to_nat n))
      else None
  | _ => None
  end.
Definition mk_oracle (fs : list (nat * wres)) : oracle :=
  fun k => match find (fun f => Nat.eqb (fst f) k) fs with
           | Some f => snd f
           | None => WOk
           end.

Definition dec_iqtype (z : Z) : option iqtype :=
  if z =? 0 then Some TGet else if z =? 1 then Some TSet else if z =? 2 then Some TOther
  else if z =? 3 then Some TPending else None.
Definition dec_op (x : sx) : option op :=
  match x with
  | SL [SZ 0; SS d; nz] => do b <- as_b nz; Some (OSend d b)
  | SL [SZ 1; SS s; nz] => do b <- as_b nz; Some (OSendRaw s b)
  | SL [SZ 2; SS d; SZ t] => do t' <- dec_iqtype t; Some (OSendIQ d t')
  | _ => None
  end.
Definition dec_cfg (x : sx) : option config :=
  match x with
  | SL [comp; sm; lg; conn; ws] =>
      do c <- as_b comp; do s <- as_b sm; do l <- as_b lg; do n <- as_z conn; do w <- as_b ws;
      Some (mkC (if c then RComponent else RClient) s l
                (if n =? 0 then CUp else if n =? 1 then CNone else CFresh) w)
  | _ => None
  end.

Inductive cinput :=
| ISeq (cfg : config) (so lo : list (nat * wres)) (ops : list op)
| ILogger (so lo : list (nat * wres)) (ps : list str)
| IConc (senders : list (list str)) (sched : list nat)
| IWs (sm lg : bool) (k0 : nat) (ops : list op)
| IConnect (reset : bool).

Definition dec_input (x : sx) : option cinput :=
  match x with
  | SL [SZ 0; cfg; so; lo; ops] =>
      do c <- dec_cfg cfg; do s <- as_list dec_fault so; do l <- as_list dec_fault lo;
      do o <- as_list dec_op ops; Some (ISeq c s l o)
  | SL [SZ 1; so; lo; ps] =>
      do s <- as_list dec_fault so; do l <- as_list dec_fault lo;
      do p <- as_list as_s ps; Some (ILogger s l p)
  | SL [SZ 2; senders; sched] =>
      do s <- as_list (as_list as_s) senders; do sc <- as_list as_nat sched; Some (IConc s sc)
  | SL [SZ 3; sm; lg; k0; ops] =>
      do s <- as_b sm; do l <- as_b lg; do k <- as_nat k0; do o <- as_list dec_op ops;
      Some (IWs s l k o)
  | SL [SZ 4; reset] => do r <- as_b reset; Some (IConnect r)
  | _ => None
  end.

Definition strs_sx (l : list str) : sx := SL (map SS l).

Fixpoint logger_run (so lo : oracle) (st : state) (ps : list str) : list (option werr) * state :=
  match ps with
  | [] => ([], st)
  | p :: rest =>
      let '(st1, e) := logger_write so lo st p in
      let '(es, st2) := logger_run so lo st1 rest in (e :: es, st2)
  end.

Definition run_typed (i : cinput) : sx :=
  match i with
  | ISeq cfg sf lf ops =>
      let so := mk_oracle sf in
      let lo := mk_oracle lf in
      let '(obs, st) := run_obs cfg so lo st0 ops in
      SL [SL (map (fun o => match o with (r, sc, _) => SL [result_sx r; strs_sx sc] end) obs);
          strs_sx (map snd (q_items (s_queue st)))]
  | ILogger sf lf ps =>
      let so := mk_oracle sf in
      let lo := mk_oracle lf in
      let '(es, st) := logger_run so lo st0 ps in
      SL [SL (map (fun e => match e with None => SZ 0 | Some _ => SZ 1 end) es);
          strs_sx (s_sock st); SS (stream so 0 (s_sock st))]
  | IConc senders sched =>
      let '(w, rest, ok) := run_sched senders sched in
      SL [strs_sx w; SB ok; SB (all_doneb rest)]
  | IWs sm lg k0 ops =>
      (* the real WebsocketTransport, its traffic log as configured; the log file's own
         outcome is irrelevant there (C08_ws_failure_reported): it is made to fail *)
      let so := fun k => if Nat.leb k0 k then WErr 0 else WOk in
      let '(rs, st) := run (mkC RClient sm lg CUp true) so (fun _ => WErr 0) st0 ops in
      SL [SL (map result_sx rs); SS (stream so 0 (s_sock st));
          strs_sx (map snd (q_items (s_queue st)))]
  | IConnect reset =>
      (* Client.Connect's own send: SendRaw(InitialPresence) on the session just established;
         Connect returns its result, PostConnectHook or not.  Output: error?, did the peer get it *)
      let so := fun k : nat => if reset then WErr 0 else WOk in
      let pres := [60; 112; 47; 62]%N in
      let '(rs, st) := run (mkC RClient false false CUp false) so (fun _ => WOk) st0 [OSendRaw pres false] in
      SL [match rs with [r] => result_sx r | _ => SZ (-1) end;
          SB (negb (match stream so 0 (s_sock st) with [] => true | _ => false end))]
  end.

Definition run_C08 : sx -> sx := with_input dec_input run_typed.
