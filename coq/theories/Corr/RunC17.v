From Coq Require Import List ZArith NArith Bool.
From XV Require Import Lib.Sx Model.Queue.
Import ListNotations.
Open Scope Z_scope.

Definition entry_sx (e : entry) : sx := SL [SZ (fst e); SS (snd e)].
Definition qout_sx (o : qout) : sx :=
  match o with
  | QNil => SL []
  | QOne e => SL [SZ 1; entry_sx e]
  | QMany l => SL [SZ 2; SL (map entry_sx l)]
  | QBool b => SL [SZ 3; SB b]
  | QRefused => SL [SZ 98]
  end.

Definition dec_op (x : sx) : option qop :=
  match x with
  | SL [SZ 0; SS s] => Some (QPush s)
  | SL [SZ 1] => Some QPop
  | SL [SZ 2; SZ k] => Some (QPopN k)
  | SL [SZ 3] => Some QPeek
  | SL [SZ 4; SZ k] => Some (QPeekN k)
  | SL [SZ 5] => Some QEmpty
  | SL [SZ 6] => Some QDropLast
  | SL [SZ 7] => Some QPushForeign
  | _ => None
  end.
Definition dec_input (x : sx) : option (bool * list qop) :=
  match x with
  | SL [nilrecv; ops] => do b <- as_b nilrecv; do l <- as_list dec_op ops; Some (b, l)
  | _ => None
  end.

(* input: (nil receiver?, ops).  A nil *UnAckQueue returns nothing from every
   method (Empty: true). *)
Definition run_typed (inp : bool * list qop) : sx :=
  let '(nilrecv, ops) := inp in
  if nilrecv then
    SL (map (fun o => SL [match o with QEmpty => qout_sx (QBool true) | _ => SL [] end; SL []]) ops)
  else
  SL (map (fun rq => SL [qout_sx (fst rq); SL (map entry_sx (snd rq))]) (q_run q_init ops)).

Definition run_C17 : sx -> sx := with_input dec_input run_typed.
