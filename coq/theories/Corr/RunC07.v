From Coq Require Import List ZArith NArith Bool.
From XV Require Import Lib.Sx Model.Conc.
Import ListNotations.
Open Scope Z_scope.

Definition dec_act (x : sx) : option act :=
  match x with
  | SL [SZ 0; SZ i] => Some (ARegister (Z.to_N i))
  | SL [SZ 1; SZ c] => Some (AUnregister (Z.to_nat c))
  | SL [SZ 2; SZ i; SZ v] => Some (AArrive (result (Z.to_N i) (Z.to_N v)))
  | SL [SZ 2; SZ i; SZ v; SZ q] =>      (* q = 1: get/set; q = 2: missing or non-standard type; else result/error *)
      Some (AArrive (if Z.eqb q 1 then request (Z.to_N i) (Z.to_N v)
                     else if Z.eqb q 2 then other (Z.to_N i) (Z.to_N v) else result (Z.to_N i) (Z.to_N v)))
  | SL [SZ 3; SZ k] => Some (ARouter (Z.to_nat k))
  | SL [SZ 4; SZ c] => Some (ARecv (Z.to_nat c))
  | SL [SZ 5; SZ c] => Some (ACancel (Z.to_nat c))
  | SL [SZ 6; SZ c] => Some (ACancelDelete (Z.to_nat c))
  | _ => None
  end.

(* an IQ as the harness reports it: its id, plus 100 for a request (get/set), plus 200 for a
   missing or non-standard type *)
Definition iq_sx (v : resp) : sx :=
  SN (match rkind v with KResponse => rid v | KRequest => 100 + rid v | KOther => 200 + rid v end)%N.

Definition chan_sx (ch : chst) : sx :=
  (* what the requester can see: ids of the values read, and for a channel that got
     its value whether it was closed afterwards *)
  SL [SL (map iq_sx (c_got ch));
      SB (match c_got ch with [] => false | _ => c_closed ch end)].

Fixpoint count_blocked (s : cst) (n : nat) : nat :=
  match n with
  | O => 0
  | S n' => (if blocked s n' then 1 else 0) + count_blocked s n'
  end.
Definition unfinished (s : cst) : nat :=
  length (filter (fun t => match r_pc t with RDone => false | _ => true end) (routers s)).

Definition run_typed (l : list act) : sx :=
  let s := c_run c_init l in
  SL [SB (panicked s); SL (map chan_sx (chans s)); SL (map iq_sx (ordinary s));
      Snat (unfinished s); SL (map Snat (refused s))].

Definition run_C07 : sx -> sx := with_input (as_list dec_act) run_typed.
