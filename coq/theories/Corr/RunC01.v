(* C01 glue: decode the harness's value description, run the model
   (print (enc v); parse; dec; print again) and render the observables. *)
From Coq Require Import List ZArith NArith Bool.
From XV Require Import Lib.Sx Gen.Generated Model.XmlText Model.XmlPrint Model.XmlLex Model.Codec.
Import ListNotations.
Open Scope Z_scope.

(* ---- sx -> values ---- *)
Definition sx_kv (x : sx) : option (str * str) :=
  match x with SL [SS k; SS v] => Some (k, v) | _ => None end.
Definition sx_kvs (x : sx) : option (list (str * str)) := as_list sx_kv x.

Definition sx_attrs (x : sx) : option attrs :=
  match x with
  | SL [SS t; SS i; SS f; SS o; SS l] => Some (mkAttrs t i f o l)
  | _ => None
  end.
Definition sx_err (x : sx) : option err :=
  match x with
  | SL [SZ c; SS t; SS r; SS tx] => Some (mkErr c t r tx)
  | _ => None
  end.

Fixpoint sx_node (x : sx) : option node :=
  match x with
  | SL [SS ns; SS l; a; SS c; SL ks] =>
      match sx_kvs a,
            (fix go (l : list sx) : option (list node) :=
               match l with
               | [] => Some []
               | k :: r => match sx_node k, go r with
                           | Some n, Some ns => Some (n :: ns)
                           | _, _ => None
                           end
               end) ks with
      | Some a', Some ks' => Some (Node ns l a' c ks')
      | _, _ => None
      end
  | _ => None
  end.

Fixpoint sx_tree (x : sx) : option xtree :=
  match x with
  | SL [SZ 0; SS ns; SS l; a; SL ks] =>
      match sx_kvs a,
            (fix go (l : list sx) : option (list xtree) :=
               match l with
               | [] => Some []
               | k :: r => match sx_tree k, go r with
                           | Some n, Some ns => Some (n :: ns)
                           | _, _ => None
                           end
               end) ks with
      | Some a', Some ks' => Some (XE ns l a' ks')
      | _, _ => None
      end
  | SL [SZ 1; SZ raw; SS s] => Some (XT (negb (raw =? 0)) s)
  | _ => None
  end.

Definition sx_value (x : sx) : option value :=
  match x with
  | SL [SZ 1; a; SS su; SS bo; SS th; e; ex] =>
      do a' <- sx_attrs a; do e' <- sx_err e; do ex' <- as_list sx_tree ex;
      Some (VMessage (mkMessage a' su bo th e' ex'))
  | SL [SZ 2; a; SS sh; SS st; SZ pr; e; ex] =>
      do a' <- sx_attrs a; do e' <- sx_err e; do ex' <- as_list sx_tree ex;
      Some (VPresence (mkPresence a' sh st pr e' ex'))
  | SL [SZ 3; a; pl; e; an] =>
      do a' <- sx_attrs a; do pl' <- as_opt sx_tree pl; do e' <- as_opt sx_err e;
      do an' <- as_opt sx_node an;
      Some (VIQ (mkIQ a' pl' e' an'))
  | SL [SZ 4; n] => do n' <- sx_node n; Some (VNode n')
  | SL [SZ 5; mx; rs] =>
      do mx' <- as_opt as_n mx; do rs' <- as_opt as_b rs; Some (VSMEnable mx' rs')
  | SL [SZ 6; SS i; SS l; SS r; SZ mx] => Some (VSMEnabled i l r (Z.to_N mx))
  | SL [SZ 7] => Some VSMRequest
  | SL [SZ 8; SZ h] => Some (VSMAnswer (Z.to_N h))
  | SL [SZ 9; SS p; h] => do h' <- as_opt as_n h; Some (VSMResume p h')
  | SL [SZ 10; SS p; h] => do h' <- as_opt as_n h; Some (VSMResumed p h')
  | SL [SZ 11; h; SS c] => do h' <- as_opt as_n h; Some (VSMFailed h' c)
  | SL [SZ 12; SS m; SS v] => Some (VSASLAuth m v)
  | SL [SZ 13; SS v] => Some (VHandshake v)
  | _ => None
  end.

(* ---- values -> sx (the same format) ---- *)
Definition kvs_sx (a : list (str * str)) : sx := SL (map (fun kv => SL [SS (fst kv); SS (snd kv)]) a).
Definition attrs_sx (a : attrs) : sx :=
  SL [SS (a_type a); SS (a_id a); SS (a_from a); SS (a_to a); SS (a_lang a)].
Definition err_sx (e : err) : sx := SL [SZ (e_code e); SS (e_type e); SS (e_reason e); SS (e_text e)].
Fixpoint node_sx (n : node) : sx :=
  match n with
  | Node ns l a c ks =>
      SL [SS ns; SS l; kvs_sx a; SS c;
          SL ((fix go (l : list node) : list sx :=
                 match l with [] => [] | k :: r => node_sx k :: go r end) ks)]
  end.
Fixpoint tree_sx (t : xtree) : sx :=
  match t with
  | XE ns l a ks =>
      SL [SZ 0; SS ns; SS l; kvs_sx a;
          SL ((fix go (l : list xtree) : list sx :=
                 match l with [] => [] | k :: r => tree_sx k :: go r end) ks)]
  | XT raw s => SL [SZ 1; SB raw; SS s]
  end.
Definition value_sx (v : value) : sx :=
  match v with
  | VMessage m => SL [SZ 1; attrs_sx (m_attrs m); SS (m_subject m); SS (m_body m); SS (m_thread m);
                      err_sx (m_error m); SL (map tree_sx (m_exts m))]
  | VPresence p => SL [SZ 2; attrs_sx (p_attrs p); SS (p_show p); SS (p_status p); SZ (p_priority p);
                       err_sx (p_error p); SL (map tree_sx (p_exts p))]
  | VIQ i => SL [SZ 3; attrs_sx (i_attrs i); SO tree_sx (i_payload i); SO err_sx (i_error i);
                 SO node_sx (i_any i)]
  | VNode n => SL [SZ 4; node_sx n]
  | VSMEnable mx rs => SL [SZ 5; SO SN mx; SO SB rs]
  | VSMEnabled i l r mx => SL [SZ 6; SS i; SS l; SS r; SN mx]
  | VSMRequest => SL [SZ 7]
  | VSMAnswer h => SL [SZ 8; SN h]
  | VSMResume p h => SL [SZ 9; SS p; SO SN h]
  | VSMResumed p h => SL [SZ 10; SS p; SO SN h]
  | VSMFailed h c => SL [SZ 11; SO SN h; SS c]
  | VSASLAuth m v => SL [SZ 12; SS m; SS v]
  | VHandshake v => SL [SZ 13; SS v]
  end.

(* ---- the document a tree denotes: what is compared with the implementation's bytes
        as read by the harness's neutral reader.  Attributes sorted by name (stable),
        character data exact, adjacent runs joined, no lexical detail (raw-LF flag,
        attribute order). ---- *)
Fixpoint str_leb (a b : str) : bool :=
  match a, b with
  | [], _ => true
  | _ :: _, [] => false
  | x :: a', y :: b' => if N.ltb x y then true else if N.ltb y x then false else str_leb a' b'
  end.
Fixpoint insert_kv (kv : str * str) (l : list (str * str)) : list (str * str) :=
  match l with
  | [] => [kv]
  | h :: t => if str_leb (fst h) (fst kv) then h :: insert_kv kv t else kv :: l
  end.
Definition sort_kvs (l : list (str * str)) : list (str * str) :=
  fold_left (fun acc kv => insert_kv kv acc) l [].

Fixpoint merge_texts (l : list sx) : list sx :=
  match l with
  | [] => []
  | SL [SZ 1; SS a] :: rest =>
      let r := merge_texts rest in
      match a with
      | [] => r
      | _ => match r with
             | SL [SZ 1; SS b] :: r' => SL [SZ 1; SS (a ++ b)] :: r'
             | _ => SL [SZ 1; SS a] :: r
             end
      end
  | x :: rest => x :: merge_texts rest
  end.

Fixpoint canon_sx (t : xtree) : sx :=
  match t with
  | XT _ s => SL [SZ 1; SS s]
  | XE ns l a ks =>
      SL [SZ 0; SS ns; SS l; kvs_sx (sort_kvs a);
          SL (merge_texts ((fix go (l : list xtree) : list sx :=
                              match l with [] => [] | k :: r => canon_sx k :: go r end) ks))]
  end.

(* observables.  [SL [SZ (-4)]]: xml.Marshal returns an error (a condition that is not an
   element name).  [SL [SZ (-5)]]: the bytes written are not one element the decoder reads
   (a generic node or attribute whose name is not a name: names are the caller's business,
   encoding/xml writes them unchecked).  Otherwise the document written; then, twice (the
   harness decodes the implementation's own bytes and the same document in the model
   printer's spelling), either an error marker or the decoded value *)
Definition decoded (ty : vtype) (t : xtree) : sx :=
  match dec Generated.registry ty t with
  | None => SL [SZ (-2)]
  | Some v' => SL [value_sx v']
  end.

Definition run_typed (v : value) : sx :=
  if negb (marshals v) then SL [SZ (-4)] else
  let t := enc v in
  match parse (print t) with
  | None => SL [SZ (-5)]
  | Some t' =>
      let r := decoded (vtype_of v) t' in
      (* in the domain of C01_parse_print the document is enc v itself; outside it (e.g. a
         child without namespace under a parent with one) it is what the printed form
         denotes, i.e. what the model's own reader makes of it *)
      let doc := if wf_doc t then t else t' in
      SL [canon_sx doc; r; r]
  end.

(* a document that is NOT the encoding of a value (what a peer may send: the stanza in
   jabber:client, unknown and repeated children, numbers with white space around them),
   printed by the model's printer and decoded into the given type *)
Definition vtype_of_z (z : Z) : option vtype :=
  match z with
  | 1 => Some TMessage | 2 => Some TPresence | 3 => Some TIQ | 4 => Some TNode
  | 5 => Some TSMEnable | 6 => Some TSMEnabled | 7 => Some TSMRequest | 8 => Some TSMAnswer
  | 9 => Some TSMResume | 10 => Some TSMResumed | 11 => Some TSMFailed | 12 => Some TSASLAuth
  | 13 => Some THandshake | _ => None
  end.
Definition sx_wire (x : sx) : option (vtype * xtree) :=
  match x with
  | SL [SZ 20; SZ ty; t] => do ty' <- vtype_of_z ty; do t' <- sx_tree t; Some (ty', t')
  | _ => None
  end.
Definition run_wire (w : vtype * xtree) : sx :=
  match parse (print (snd w)) with
  | None => SL [SZ (-5)]
  | Some t' => decoded (fst w) t'
  end.

(* [SL [SZ 0]]: an oracle-only case of the harness (reflection round trip of a
   type the model does not cover); nothing to compare *)
Definition run_C01 (x : sx) : sx :=
  match x with
  | SL [SZ 0] => SL [SZ 0]
  | SL (SZ 20 :: _) => with_input sx_wire run_wire x
  | _ => with_input sx_value run_typed x
  end.
