(* Glue for the keep-alive model (C18).
   Tick counts depend on the wall clock, so the harness hands the model the schedule
   it OBSERVED: the number of successful pings before the terminating event, and HOW the
   run ended (harness closed quit / a ping failed / the session of a real Client ended
   in a given way); the model must reproduce everything else: failed ping, Close, the
   loop being over ("return"), silence afterwards whatever the continuation [suffix]
   offers, wire bytes, what happens to the connection underneath, how the loss is reported.
   Transports: 0 a recording stub (the k-th Ping fails); 1 the real XMPPTransport over
   loopback TCP, alone or inside a real Client.Connect session (which write the kernel
   refuses is observed); 2 the real XMPPTransport over a scripted net.Conn (the model
   finds the failing write in the script itself and lists every conn.Write / conn.Close).
   Where a real receive loop shares the quit channel ([k_end] <> 0) it closes quit whichever way the
   session ends, and reports what [session_report] says (tied to Model/Recv.v by
   C18_session_report_is_recv / C18_session_end_closes_quit).  A ping that was under way when the
   session ended ([k_late]) is not answered by Close; one the harness held past the poll until the
   session was over appears after the "session over" marker. *)
From Coq Require Import List ZArith NArith Bool.
From XV Require Import Lib.Sx Model.Keepalive.
Import ListNotations.
Open Scope Z_scope.

Record kinput := {
  k_interval : Z;        (* microseconds; only its sign matters to the model *)
  k_term : Z;            (* 0 the run ends by quit; 1 by the tick whose ping fails; 2 nothing ends it *)
  k_failat : nat;        (* modes 0, 1: 1-based ping that fails; 0 = none *)
  k_nsucc : nat;         (* successful pings observed before the terminating event *)
  k_suffix : list sel;   (* what the environment goes on offering afterwards *)
  k_mode : Z;            (* transport, see above *)
  k_lossy : bool;        (* mode 1: the server stopped reading at some point: it saw a prefix *)
  k_srvn : nat;          (* mode 1, lossy: number of keep-alives the server had read *)
  k_script : list wres;  (* mode 2: results of the successive conn.Write calls (then (len, nil)) *)
  k_end : Z;             (* 0 no receive loop (the harness owns quit); 1 a receive loop whose read
                            fails once the connection is gone; 2 a receive loop that is handed the
                            server's closing tag; 3 a receive loop that is handed a stream error and
                            whose read then fails; 4 a stream error whose handler reconnects *)
  k_client : bool;       (* the loop was started by a Client built by NewClient (interval defaulted) *)
  k_late : Z             (* 0: quit was open when the loop looked again after its last ping;
                            1: it was closed by then (the ping was under way when the session ended);
                            2: the same, and the harness held that ping until the session was known to be
                               over: it is observed AFTER the "session over" marker.
                            With k_term = 1 the late ping is the failing one, with k_term = 0 it is one more
                            successful ping *)
}.

Definition dec_sel (x : sx) : option sel :=
  match x with
  | SZ 0 => Some STick
  | SZ 1 => Some SQuit
  | _ => None
  end.

Definition dec_wres (x : sx) : option wres :=
  match x with
  | SL [SZ n; SZ e] => Some (if e =? 0 then WOk n else WErr n)
  | _ => None
  end.

Definition dec_input (x : sx) : option kinput :=
  match x with
  | SL [iv; term; failat; nsucc; suffix; mode; lossy; srvn; script; en; cl; late] =>
      do i <- as_z iv; do t <- as_z term; do f <- as_nat failat; do n <- as_nat nsucc;
      do s <- as_list dec_sel suffix; do c <- as_z mode; do l <- as_b lossy; do r <- as_nat srvn;
      do w <- as_list dec_wres script; do e <- as_z en; do k <- as_b cl; do la <- as_z late;
      Some {| k_interval := i; k_term := t; k_failat := f; k_nsucc := n; k_suffix := s;
              k_mode := c; k_lossy := l; k_srvn := r; k_script := w; k_end := e; k_client := k;
              k_late := la |}
  | _ => None
  end.

Definition act_sx (a : act) : list sx :=
  match a with
  | APingOk => [SZ 0]
  | APingFail => [SZ 1]
  | AClose => [SZ 2]
  | ATickerStop => []          (* not observable from outside *)
  | AReturn => []              (* rendered as the marker, see run_typed *)
  | APanic => []               (* interval <= 0 is outside the property: what the code does there is not compared *)
  end.

Definition cact_sx (c : cact) : sx :=
  match c with
  | CWrite d =>
      (* a whitespace keep-alive is compared as such, not by its bytes *)
      if is_keepalive_payload d then SL [SZ 0; SZ 1] else SL [SZ 0; SS d]
  | CConnClose => SL [SZ 1]
  end.

(* the receive loop sharing the quit channel, for the way the session ended *)
Definition end_of (i : kinput) : session_end :=
  if k_end i =? 1 then SeReadFails else if k_end i =? 2 then SeStreamClose
  else if k_end i =? 3 then SeStreamError else if k_end i =? 4 then SeHandedOver else SeNone.

(* the schedule in two parts: what the loop did while the session was up / from the moment the
   session was known to be over (only a ping the harness held past the poll, then quit) *)
Definition last_tick (i : kinput) : list sel :=
  if k_term i =? 1 then [if k_late i =? 0 then STick else STickLate]
  else if k_late i =? 0 then [] else [STickLate].
Definition sched_up (i : kinput) : list sel :=
  repeat STick (k_nsucc i) ++ (if k_late i =? 2 then [] else last_tick i).
Definition sched_over (i : kinput) : list sel :=
  (if k_late i =? 2 then last_tick i else [])
  ++ (if k_term i =? 0 then [SQuit] else [])   (* every way a session ends closes quit *)
  ++ k_suffix i.

Definition fail_oracle (i : kinput) : nat -> bool :=
  let f := k_failat i in
  if k_mode i =? 2
  then tcp_fail (fun k => nth (pred k) (k_script i) (WOk 1))
  else if k_mode i =? 1
  then tcp_fail (fun k => if Nat.eqb f 0 then WOk 1 else if Nat.eqb k f then WErr 0 else WOk 1)
  else fun k => negb (Nat.eqb f 0) && Nat.eqb k f.

Definition run_typed (i : kinput) : sx :=
  let iv := if k_client i then client_interval (k_interval i) else k_interval i in
  let fl := fail_oracle i in
  let ra := ka_run fl (Running 0) (sched_up i) in
  let tr_up := snd ra in
  let tr_over := snd (ka_run fl (fst ra) (sched_over i)) in
  let tr := if iv <=? 0 then [] else tr_up ++ tr_over in   (* interval <= 0: outside the property, not compared *)
  (* the log: what happened while the session was up, the marker (session over / loop returned), the rest *)
  let events :=
    if iv <=? 0 then []
    else flat_map act_sx tr_up ++ (if existsb is_return tr then [SZ 3] else []) ++ flat_map act_sx tr_over in
  let w := wire tr in
  let wire_sx :=
    (* number of keep-alives the server read in the XML stream, and whether it read only white space *)
    if negb (k_mode i =? 1) then SL []
    else if k_lossy i
         then (* the server read a prefix of what was handed to the connection *)
              if Nat.leb (k_srvn i) (count is_ping tr) then SL [Snat (k_srvn i); SB (forallb xml_ws w)]
              else SL [SZ (-1)]
         else (* connection healthy: every successful ping arrives *)
              SL [Snat (count (fun a => match a with APingOk => true | _ => false end) tr);
                  SB (forallb xml_ws w)] in
  (* mode 2: everything done to the connection *)
  let ct := if k_mode i =? 2 then conn_trace tr else [] in
  (* how the loss is reported by the receive loop: mode 2, the read only fails once the
     keep-alive loop has closed the connection; otherwise the session was ended from outside *)
  let rp := if (k_mode i =? 2) && negb (Nat.ltb 0 (count is_connclose ct)) then (0%nat, 0%nat)
            else session_report (end_of i) in
  SL [SL events; wire_sx; SL (map cact_sx ct); SL [Snat (fst rp); Snat (snd rp)]].

(* a history of Connect / Resume attempts on ONE client object, each with the description of the loop
   it would run: only the attempts the model says start a loop contribute an observation; and for each
   attempt whether it leaves a session up behind it *)
Definition dec_attempt (x : sx) : option (attempt * kinput) :=
  match x with
  | SL [SZ a; inp] =>
      do i <- dec_input inp;
      Some (if a =? 0 then AttOk else if a =? 1 then AttConnectFails else AttHookFails, i)
  | _ => None
  end.

(* the same history at the level of the client object (Model/Keepalive.v, client_quits): every attempt
   that starts a loop made the quit channel of its connection, and every session of a harness history is
   ended - its keep-alive is asked to stop.  Whether the quit of the k-th session IS closed then is what
   the client-level model says, for the k-th session as for the first; a session whose quit it leaves open
   is run as one that nothing ends (k_term 2: the loop goes on with whatever the continuation offers). *)
Definition hist_closed (l : list (attempt * kinput)) : list bool :=
  rev (client_quits [] (flat_map (fun ai => match loops_started (fst ai) with
                                            | O => []
                                            | S _ => session_ops 0
                                            end) l)).
Definition unended (i : kinput) : kinput :=
  {| k_interval := k_interval i; k_term := (if k_term i =? 0 then 2 else k_term i); k_failat := k_failat i;
     k_nsucc := k_nsucc i; k_suffix := k_suffix i; k_mode := k_mode i; k_lossy := k_lossy i;
     k_srvn := k_srvn i; k_script := k_script i; k_end := k_end i; k_client := k_client i;
     k_late := k_late i |}.
Fixpoint run_sessions (closed : list bool) (l : list (attempt * kinput)) : list sx :=
  match l with
  | [] => []
  | ai :: r =>
      match loops_started (fst ai) with
      | O => run_sessions closed r
      | S _ => run_typed (if hd false closed then snd ai else unended (snd ai)) :: run_sessions (tl closed) r
      end
  end.

Definition run_C18 (x : sx) : sx :=
  match x with
  | SL [SZ 99; SL atts] =>
      match omap dec_attempt atts with
      | Some l =>
          SL [SL (run_sessions (hist_closed l) l);
              SL (map (fun ai => SB (attempt_leaves_session (fst ai))) l);
              (* the client's state after the attempt: 1 established, 0 disconnected, 2 not compared *)
              SL (map (fun ai => SZ (match o_state (run_attempt (fst ai)) with
                                     | CsEstablished => 1 | CsDisconnected => 0 | CsAsBefore => 2 end)) l)]
      | None => decode_error
      end
  | _ => with_input dec_input run_typed x
  end.
