(* Glue for the keep-alive model (C18).
   Tick counts depend on the wall clock, so the harness hands the model the schedule
   it OBSERVED: the number of successful pings before the terminating event, and HOW the
   run ended (harness closed quit / a ping failed / the session of a real Client ended
   in a given way); the model must reproduce everything else: failed ping, Close, the
   loop being over ("return"), silence afterwards whatever the continuation [suffix]
   offers, wire bytes, what happens to the connection underneath, how the loss is reported.
   Transports: 0 a recording stub (the k-th Ping fails); 1 the real XMPPTransport over
   loopback TCP, alone or inside a real Client.Connect session (which write the kernel
   refuses is observed); 2 the real XMPPTransport over a scripted net.Conn (the model
   finds the failing write in the script itself and lists every conn.Write / conn.Close).
   Where a real receive loop shares the quit channel ([k_end] <> 0) quit is closed iff the
   receive-loop model (Model/Recv.v) says so for the way the session ended. *)
From Coq Require Import List ZArith NArith Bool.
From XV Require Import Lib.Sx Model.Keepalive.
From XV Require Model.Recv.
Import ListNotations.
Open Scope Z_scope.

Record kinput := {
  k_interval : Z;        (* microseconds; only its sign matters to the model *)
  k_term : Z;            (* 0 the run ends by quit; 1 by the tick whose ping fails; 2 nothing ends it *)
  k_failat : nat;        (* modes 0, 1: 1-based ping that fails; 0 = none *)
  k_nsucc : nat;         (* successful pings observed before the terminating event *)
  k_suffix : list sel;   (* what the environment goes on offering afterwards *)
  k_mode : Z;            (* transport, see above *)
  k_lossy : bool;        (* mode 1: the server stopped reading at some point: it saw a prefix *)
  k_srvn : nat;          (* mode 1, lossy: number of keep-alives the server had read *)
  k_script : list wres;  (* mode 2: results of the successive conn.Write calls (then (len, nil)) *)
  k_end : Z;             (* 0 no receive loop (the harness owns quit); 1 a receive loop whose read
                            fails once the connection is gone; 2 a receive loop that is handed the
                            server's closing tag; 3 a receive loop that is handed a stream error and
                            whose read then fails; 4 a stream error whose handler reconnects *)
  k_client : bool        (* the loop was started by a Client built by NewClient (interval defaulted) *)
}.

Definition dec_sel (x : sx) : option sel :=
  match x with
  | SZ 0 => Some STick
  | SZ 1 => Some SQuit
  | _ => None
  end.

Definition dec_wres (x : sx) : option wres :=
  match x with
  | SL [SZ n; SZ e] => Some (if e =? 0 then WOk n else WErr n)
  | _ => None
  end.

Definition dec_input (x : sx) : option kinput :=
  match x with
  | SL [iv; term; failat; nsucc; suffix; mode; lossy; srvn; script; en; cl] =>
      do i <- as_z iv; do t <- as_z term; do f <- as_nat failat; do n <- as_nat nsucc;
      do s <- as_list dec_sel suffix; do c <- as_z mode; do l <- as_b lossy; do r <- as_nat srvn;
      do w <- as_list dec_wres script; do e <- as_z en; do k <- as_b cl;
      Some {| k_interval := i; k_term := t; k_failat := f; k_nsucc := n; k_suffix := s;
              k_mode := c; k_lossy := l; k_srvn := r; k_script := w; k_end := e; k_client := k |}
  | _ => None
  end.

Definition act_sx (a : act) : list sx :=
  match a with
  | APingOk => [SZ 0]
  | APingFail => [SZ 1]
  | AClose => [SZ 2]
  | ATickerStop => []          (* not observable from outside *)
  | AReturn => [SZ 3]
  | APanic => []               (* interval <= 0 is outside the property: what the code does there is not compared *)
  end.

Definition cact_sx (c : cact) : sx :=
  match c with
  | CWrite d =>
      (* a whitespace keep-alive is compared as such, not by its bytes *)
      if is_keepalive_payload d then SL [SZ 0; SZ 1] else SL [SZ 0; SS d]
  | CConnClose => SL [SZ 1]
  end.

(* the receive loop sharing the quit channel, for the way the session ended *)
Definition recv_trace (i : kinput) : list Recv.action :=
  if k_end i =? 1 then Recv.crecv 0 0 None []
  else if k_end i =? 2 then Recv.crecv 0 0 None [Recv.IClose]
  else if k_end i =? 3 then Recv.crecv 0 0 None [Recv.IStreamError 0]
  else if k_end i =? 4
  then (* a stream error whose event handler reconnected the client itself: the loop leaves the
          transport to the new session and returns, no Disconnected event *)
       [Recv.AQuit; Recv.AEvStreamError; Recv.AErrCall]
  else [].

Definition schedule (i : kinput) : list sel :=
  let quit_closed :=
    if k_end i =? 0 then true else existsb Recv.is_quit (recv_trace i) in
  repeat STick (k_nsucc i)
  ++ (if k_term i =? 1 then [STick]
      else if (k_term i =? 0) && quit_closed then [SQuit] else [])
  ++ k_suffix i.

Definition fail_oracle (i : kinput) : nat -> bool :=
  let f := k_failat i in
  if k_mode i =? 2
  then tcp_fail (fun k => nth (pred k) (k_script i) (WOk 1))
  else if k_mode i =? 1
  then tcp_fail (fun k => if Nat.eqb f 0 then WOk 1 else if Nat.eqb k f then WErr 0 else WOk 1)
  else fun k => negb (Nat.eqb f 0) && Nat.eqb k f.

Definition run_typed (i : kinput) : sx :=
  let iv := if k_client i then client_interval (k_interval i) else k_interval i in
  let tr := keepalive iv (fail_oracle i) (schedule i) in
  let w := wire tr in
  let wire_sx :=
    (* number of keep-alives the server read in the XML stream, and whether it read only white space *)
    if negb (k_mode i =? 1) then SL []
    else if k_lossy i
         then (* the server read a prefix of what was handed to the connection *)
              if Nat.leb (k_srvn i) (count is_ping tr) then SL [Snat (k_srvn i); SB (forallb xml_ws w)]
              else SL [SZ (-1)]
         else (* connection healthy: every successful ping arrives *)
              SL [Snat (count (fun a => match a with APingOk => true | _ => false end) tr);
                  SB (forallb xml_ws w)] in
  (* mode 2: everything done to the connection; the closing tag's write fails iff the
     connection is dead for writing, the model does not care *)
  let ct := if k_mode i =? 2 then conn_trace (WErr 0) tr else [] in
  (* how the loss is reported by the receive loop: mode 2, the read only fails once the
     keep-alive loop has closed the connection; mode 1, the session was ended from outside *)
  let rt := if (k_mode i =? 2) && negb (Nat.ltb 0 (count is_connclose ct)) then [] else recv_trace i in
  SL [SL (flat_map act_sx tr); wire_sx; SL (map cact_sx ct);
      SL [Snat (Recv.count_act Recv.is_err rt); Snat (Recv.count_act Recv.is_disc rt)]].

(* a history of Resume attempts on ONE client object, each with the description of the loop it
   would run: only the attempts the model says start a loop contribute an observation *)
Definition dec_attempt (x : sx) : option (attempt * kinput) :=
  match x with
  | SL [SZ a; inp] =>
      do i <- dec_input inp;
      Some (if a =? 0 then AttOk else if a =? 1 then AttConnectFails else AttHookFails, i)
  | _ => None
  end.

Definition run_C18 (x : sx) : sx :=
  match x with
  | SL [SZ 99; SL atts] =>
      match omap dec_attempt atts with
      | Some l =>
          SL (flat_map (fun ai => match loops_started (fst ai) with
                                  | O => []
                                  | S _ => [run_typed (snd ai)]
                                  end) l)
      | None => decode_error
      end
  | _ => with_input dec_input run_typed x
  end.
