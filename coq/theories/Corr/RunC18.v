(* Glue for the keep-alive model (C18).
   Tick counts depend on the wall clock, so the harness hands the model the schedule
   it OBSERVED: the number of successful pings before the terminating event and the
   kind of that event; the model must reproduce everything else (failed ping, Close,
   return, silence afterwards whatever the continuation [suffix] offers, wire bytes).
   Three transports: 0 a recording stub (the k-th Ping fails); 1 the real XMPPTransport
   over loopback TCP (which write the kernel refuses is observed; the server's byte
   count is compared); 2 the real XMPPTransport over a scripted net.Conn (the model finds
   the failing write in the script itself and lists the conn.Write calls of each Ping). *)
From Coq Require Import List ZArith NArith Bool.
From XV Require Import Lib.Sx Model.Keepalive.
Import ListNotations.
Open Scope Z_scope.

Record kinput := {
  k_interval : Z;        (* microseconds; only its sign matters to the model *)
  k_term : Z;            (* terminating event offered: 0 quit, 1 the tick whose ping fails, 2 none *)
  k_failat : nat;        (* 1-based ping that fails; 0 = none *)
  k_nsucc : nat;         (* successful pings observed before the terminating event *)
  k_suffix : list sel;   (* what the environment goes on offering afterwards *)
  k_mode : Z;            (* 0 stub transport; 1 real XMPPTransport over TCP; 2 real XMPPTransport
                            over a scripted net.Conn (every conn.Write call and its result visible) *)
  k_srvn : nat;          (* mode 1, failing path: bytes the server had read when it was cut *)
  k_script : list wres   (* mode 2: results of the successive conn.Write calls (then (1, nil)) *)
}.

Definition dec_sel (x : sx) : option sel :=
  match x with
  | SZ 0 => Some STick
  | SZ 1 => Some SQuit
  | _ => None
  end.

Definition dec_wres (x : sx) : option wres :=
  match x with
  | SL [SZ n; SZ e] => Some (if e =? 0 then WOk n else WErr n)
  | _ => None
  end.

Definition dec_input (x : sx) : option kinput :=
  match x with
  | SL [iv; term; failat; nsucc; suffix; mode; srvn; script] =>
      do i <- as_z iv; do t <- as_z term; do f <- as_nat failat; do n <- as_nat nsucc;
      do s <- as_list dec_sel suffix; do c <- as_z mode; do r <- as_nat srvn;
      do w <- as_list dec_wres script;
      Some {| k_interval := i; k_term := t; k_failat := f; k_nsucc := n;
              k_suffix := s; k_mode := c; k_srvn := r; k_script := w |}
  | _ => None
  end.

Definition act_sx (a : act) : list sx :=
  match a with
  | APingOk => [SZ 0]
  | APingFail => [SZ 1]
  | AClose => [SZ 2]
  | ATickerStop => []          (* not observable from outside *)
  | AReturn => [SZ 3]
  | APanic => [SZ 4]
  end.

Definition schedule (i : kinput) : list sel :=
  repeat STick (k_nsucc i)
  ++ (if k_term i =? 0 then [SQuit] else if k_term i =? 1 then [STick] else [])
  ++ k_suffix i.

Definition fail_oracle (i : kinput) : nat -> bool :=
  let f := k_failat i in
  if k_mode i =? 2
  then tcp_fail (fun k => nth (pred k) (k_script i) (WOk 1))
  else if k_mode i =? 1
  then tcp_fail (fun k => if Nat.eqb f 0 then WOk 1 else if Nat.eqb k f then WErr 0 else WOk 1)
  else fun k => negb (Nat.eqb f 0) && Nat.eqb k f.

Definition run_typed (i : kinput) : sx :=
  let tr := keepalive (k_interval i) (fail_oracle i) (schedule i) in
  let w := wire tr in
  let wire_sx :=
    if negb (k_mode i =? 1) then SS []
    else if k_term i =? 1
         then (* the server was cut: it read a prefix of what was handed to the connection *)
              if Nat.leb (k_srvn i) (length w) then SS (firstn (k_srvn i) w) else SL [SZ (-1)]
         else (* connection healthy: every successful ping's byte arrives *)
              SS (flat_map (fun a => match a with APingOk => ping_data | _ => [] end) tr) in
  (* mode 2: the conn.Write calls made by each Ping, in order *)
  let ping_writes :=
    if k_mode i =? 2
    then flat_map (fun a => if is_ping a then [SL [SS (fst (xmpp_ping (WOk 1)))]] else []) tr
    else [] in
  SL [SL (flat_map act_sx tr); wire_sx; SL ping_writes].

Definition run_C18 : sx -> sx := with_input dec_input run_typed.
