(* One entry point for the extracted runner: property number -> run function. *)
From Coq Require Import List ZArith Bool.
From XV Require Import Lib.Sx.
From XV Require Corr.RunC17.
From XV Require Corr.RunC15.
From XV Require Corr.RunC19.
From XV Require Corr.RunRecv.
From XV Require Corr.RunC20.
From XV Require Corr.RunC06.
From XV Require Corr.RunC16.
From XV Require Corr.RunC14.
(* REQUIRE-INSERTION-POINT: add "From XV Require Corr.RunCxx." above this line *)
Open Scope Z_scope.

Definition dispatch (prop : Z) : sx -> sx :=
  if prop =? 17 then RunC17.run_C17 else
  if prop =? 15 then RunC15.run_C15 else
  if prop =? 19 then RunC19.run_C19 else
  if (prop =? 5) || (prop =? 9) || (prop =? 12) then RunRecv.run_recv else
  if prop =? 20 then RunC20.run_C20 else
  if prop =? 6 then RunC06.run_C06 else
  if prop =? 16 then RunC16.run_C16 else
  if prop =? 14 then RunC14.run_C14 else
  (* DISPATCH-INSERTION-POINT: add "if prop =? NN then RunCNN.run_CNN else" above this line *)
  fun _ => decode_error.
