(* One entry point for the extracted runner: property number -> run function. *)
From Coq Require Import List ZArith.
From XV Require Import Lib.Sx.
From XV Require Corr.RunC17.
Open Scope Z_scope.

Definition dispatch (prop : Z) : sx -> sx :=
  if prop =? 17 then RunC17.run_C17 else
  fun _ => decode_error.
