(* One entry point for the extracted runner: property number -> run function. *)
From Coq Require Import List ZArith Bool.
From XV Require Import Lib.Sx.
From XV Require Corr.RunC17.
From XV Require Corr.RunC15.
From XV Require Corr.RunC19.
From XV Require Corr.RunRecv.
From XV Require Corr.RunC20.
From XV Require Corr.RunC06.
From XV Require Corr.RunC16.
From XV Require Corr.RunC14.
From XV Require Corr.RunC18.
From XV Require Corr.RunSession.
From XV Require Corr.RunC08.
From XV Require Corr.RunC02.
From XV Require Corr.RunC01.
From XV Require Corr.RunC10.
From XV Require Corr.RunC13.
From XV Require Corr.RunC07.
From XV Require Corr.RunC09.
From XV Require Corr.RunC14b.
From XV Require Corr.RunC04.
From XV Require Corr.RunC11.
From XV Require Corr.RunC12.
(* REQUIRE-INSERTION-POINT: add "From XV Require Corr.RunCxx." above this line *)
Open Scope Z_scope.

Definition dispatch (prop : Z) : sx -> sx :=
  if prop =? 17 then RunC17.run_C17 else
  if prop =? 15 then RunC15.run_C15 else
  if prop =? 19 then RunC19.run_C19 else
  if prop =? 12 then RunC12.run_C12 else
  if (prop =? 5) || (prop =? 12) then RunRecv.run_recv else
  if prop =? 9 then RunC09.run_C09 else
  if prop =? 20 then RunC20.run_C20 else
  if prop =? 6 then RunC06.run_C06 else
  if prop =? 16 then RunC16.run_C16 else
  if prop =? 14 then RunC14b.run_C14b else
  if prop =? 18 then RunC18.run_C18 else
  if prop =? 4 then RunC04.run_C04 else
  if prop =? 11 then RunC11.run_C11 else
  if (prop =? 3) || (prop =? 4) || (prop =? 11) then RunSession.run_session else
  if prop =? 8 then RunC08.run_C08 else
  if prop =? 2 then RunC02.run_C02 else
  if prop =? 1 then RunC01.run_C01 else
  if prop =? 10 then RunC10.run_C10 else
  if prop =? 13 then RunC13.run_C13 else
  if prop =? 7 then RunC07.run_C07 else
  (* DISPATCH-INSERTION-POINT: add "if prop =? NN then RunCNN.run_CNN else" above this line *)
  fun _ => decode_error.
