(* C16 glue: decode the harness's case, run Model/Component.v, render the observables.
   case kind 0: (0 id secret)                       -> (digest)
   case kind 1: (1 pre secret write_ok reply)       -> (text-read-by-server? err state events probe-routed)
     pre   = (0) transport refused | (1) connect/stream header failed | (2 id)
     reply = (0) handshake | (1 cond) stream error | (2 k) other packet | (3) read error/closed
     err   = 0 nil | 1 ConnError non-permanent | 2 ConnError permanent *)
From Coq Require Import List ZArith NArith Bool.
From XV Require Import Lib.Sx Model.Sha1 Model.Hex Model.Component.
Import ListNotations.
Open Scope Z_scope.

Inductive c16_input :=
| InDigest (id secret : str)
| InConnect (secret : str) (e : env).

Definition dec_pre (x : sx) : option pre :=
  match x with
  | SL [SZ 0] => Some PBadTransport
  | SL [SZ 1] => Some PConnectFail
  | SL [SZ 2; SS id] => Some (PConnected id)
  | _ => None
  end.

Definition dec_reply (x : sx) : option reply :=
  match x with
  | SL [SZ 0] => Some RHandshake
  | SL [SZ 1; SS c] => Some (RStreamError c)
  | SL [SZ 2; SZ k] => Some (ROther (Z.to_N k))
  | SL [SZ 3] => Some RReadError
  | _ => None
  end.

Definition dec_input (x : sx) : option c16_input :=
  match x with
  | SL [SZ 0; SS id; SS secret] => Some (InDigest id secret)
  | SL [SZ 1; p; SS secret; w; r] =>
      do p' <- dec_pre p; do w' <- as_b w; do r' <- dec_reply r;
      Some (InConnect secret (Env p' w' r'))
  | _ => None
  end.

Definition err_sx (e : cerr) : sx :=
  match e with ErrNil => SZ 0 | ErrConn false => SZ 1 | ErrConn true => SZ 2 end.

Definition event_sx (ev : event) : sx := SL [SN (cstate_num (fst ev)); SS (snd ev)].

(* what the server reads as the text of the handshake element, if one was written *)
Definition server_text (written : list str) : sx :=
  match written with
  | [w] => match parse_handshake_element w with
           | Some t => SL [SS t]
           | None => SL [SZ (-1)]
           end
  | [] => SL []
  | _ => SL [SZ (-2)]
  end.

Definition run_typed (i : c16_input) : sx :=
  match i with
  | InDigest id secret => SL [SS (handshake id secret)]
  | InConnect secret e =>
      let r := component_connect secret e in
      SL [server_text (r_written r); err_sx (r_err r); SN (cstate_num (r_state r));
          SL (map event_sx (r_events r)); SB (probe_routed r)]
  end.

Definition run_C16 : sx -> sx := with_input dec_input run_typed.
