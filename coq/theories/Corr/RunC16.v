(* C16 glue: decode the harness's case, run Model/Component.v, render the observables.
   case kind 0: (0 id secret)                       -> (digest)
   case kind 1: (1 pre secret write_ok reply)       -> (text-read-by-server? err state events probe-routed send-accepted)
     pre   = (0) transport refused | (1) dial failed | (2 id)
           | (3 bytes): the stream header as the server wrote it; the model reads it itself
             (Model/StreamHeader.v init_stream): stream id, or connect failure
     reply = (0) handshake | (1 cond) stream error | (2 k) other packet | (3) unreadable answer
           | (5) connection lost before or inside the answer
           | (4 tokens): the tokens NextPacket reads after the handshake; the model classifies
             them itself (Model/Parser.v next_packet, Model/ComponentWire.v reply_of)
     err   = 0 nil | 1 ConnError non-permanent | 2 ConnError permanent
   case kind 2: (2 (id ...) secret)                 -> (digest ...)      one Component value, successive calls
   case kind 3: (3 (session ...) secret)            -> ((text-read-by-server? err state probe-routed send-accepted
                                                         state-after-the-end) ...)
                                                       one Component value, successive connections;
                                                       session = (id reply) | (3 hdr reply) | (1) dial refused
   case kind 5: (5 (session ...) secret)            -> (((...) ...) 0)
                                                       the same, the later connections made by the event handler from
                                                       inside the stream-error callback of the first one; the last 0:
                                                       the library never closes a connection it reported established *)
From Coq Require Import List ZArith NArith Bool.
From XV Require Import Lib.Sx Model.XmlTree Model.Sha1 Model.Hex Model.Component
  Model.StreamHeader Model.ComponentWire.
Import ListNotations.
Open Scope Z_scope.

Inductive c16_input :=
| InDigest (id secret : str)
| InConnect (secret : str) (e : env)
| InDigestSeq (ids : list str) (secret : str)
| InReconnect (secret : str) (es : list env)
| InHandlerReconnect (secret : str) (es : list env).

Definition dec_pre (x : sx) : option pre :=
  match x with
  | SL [SZ 0] => Some PBadTransport
  | SL [SZ 1] => Some PConnectFail
  | SL [SZ 2; SS id] => Some (PConnected id)
  | SL [SZ 3; SS hdr] => Some (pre_of_header hdr)
  | _ => None
  end.

Definition dec_attr (x : sx) : option attr :=
  match x with
  | SL [SS ns; SS l; SS v] => Some ((ns, l), v)
  | _ => None
  end.

Definition dec_token (x : sx) : option token :=
  match x with
  | SL [SZ 0; SS ns; SS l; attrs] => do a <- as_list dec_attr attrs; Some (TStart (ns, l) a)
  | SL [SZ 1; SS ns; SS l] => Some (TEnd (ns, l))
  | SL [SZ 2; SS s] => Some (TText s)
  | SL [SZ 3] => Some TMisc
  | _ => None
  end.

Definition dec_reply (x : sx) : option reply :=
  match x with
  | SL [SZ 0] => Some RHandshake
  | SL [SZ 1; SS c] => Some (RStreamError c)
  | SL [SZ 2; SZ k] => Some (ROther (Z.to_N k))
  | SL [SZ 3] => Some RReadError
  | SL [SZ 5] => Some RCut
  | SL [SZ 4; toks] => do ts <- as_list dec_token toks; Some (reply_from_tokens ts)
  | _ => None
  end.

Definition dec_session (x : sx) : option env :=
  match x with
  | SL [SS id; r] => do r' <- dec_reply r; Some (Env (PConnected id) true r')
  | SL [SZ 3; SS hdr; r] => do r' <- dec_reply r; Some (Env (pre_of_header hdr) true r')
  | SL [SZ 1] => Some (Env PConnectFail true RCut)
  | _ => None
  end.

Definition dec_input (x : sx) : option c16_input :=
  match x with
  | SL [SZ 2; ids; SS secret] => do l <- as_list as_s ids; Some (InDigestSeq l secret)
  | SL [SZ 3; ss; SS secret] => do l <- as_list dec_session ss; Some (InReconnect secret l)
  | SL [SZ 5; ss; SS secret] => do l <- as_list dec_session ss; Some (InHandlerReconnect secret l)
  | SL [SZ 0; SS id; SS secret] => Some (InDigest id secret)
  | SL [SZ 1; p; SS secret; w; r] =>
      do p' <- dec_pre p; do w' <- as_b w; do r' <- dec_reply r;
      Some (InConnect secret (Env p' w' r'))
  | _ => None
  end.

Definition err_sx (e : cerr) : sx :=
  match e with ErrNil => SZ 0 | ErrConn false => SZ 1 | ErrConn true => SZ 2 end.

Definition event_sx (ev : event) : sx := SL [SN (cstate_num (fst ev)); SS (snd ev)].

(* what the server reads as the text of the handshake element, if one was written *)
Definition server_text (written : list str) : sx :=
  match written with
  | [w] => match parse_handshake_element w with
           | Some t => SL [SS t]
           | None => SL [SZ (-1)]
           end
  | [] => SL []
  | _ => SL [SZ (-2)]
  end.

Definition session_sx (r : result) : sx :=
  SL [server_text (r_written r); err_sx (r_err r); SN (cstate_num (r_state r)); SB (r_recv r);
      SB (r_open r); SN (cstate_num (state_after_end r))].

(* a connection made from inside the first connection's stream-error callback: the first
   session's end and the second attempt overlap, so no state "after the end" is reported *)
Definition session5_sx (r : result) : sx :=
  SL [server_text (r_written r); err_sx (r_err r); SN (cstate_num (r_state r)); SB (r_recv r);
      SB (r_open r)].

Definition run_typed (i : c16_input) : sx :=
  match i with
  | InDigestSeq ids secret => SL (map SS (handshakes secret ids))
  | InReconnect secret es => SL (map session_sx (component_sessions secret es))
  | InHandlerReconnect secret es => SL [SL (map session5_sx (component_sessions secret es)); SB false]
  | InDigest id secret => SL [SS (handshake id secret)]
  | InConnect secret e =>
      let r := component_connect secret e in
      SL [server_text (r_written r); err_sx (r_err r); SN (cstate_num (r_state r));
          SL (map event_sx (r_events r)); SB (r_recv r); SB (r_open r)]
  end.

Definition run_C16 : sx -> sx := with_input dec_input run_typed.
