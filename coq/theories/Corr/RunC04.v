(* Glue for C04, a composite check (like C09):
   tag 0: a history of connections on one Client (Model/Session.v, as run_session decodes it)
          plus, per connection, the sends other goroutines make meanwhile and afterwards
          (Model/Gate.v: the send gate);
   tag 1: the opening handshake of the websocket transport over a chain of redirects. *)
From Coq Require Import List ZArith NArith Bool.
From XV Require Import Lib.Sx Model.Session Model.Gate Corr.RunSession.
Import ListNotations.
Open Scope Z_scope.

Definition dec_plan (x : sx) : option plan :=
  match x with
  | SL [d; a] =>
      do d' <- as_list as_nat d; do a' <- as_nat a;
      Some {| pl_during := d'; pl_after := a'; pl_rduring := []; pl_rafter := O |}
  | SL [d; a; rd; ra] =>
      do d' <- as_list as_nat d; do a' <- as_nat a; do rd' <- as_list as_nat rd; do ra' <- as_nat ra;
      Some {| pl_during := d'; pl_after := a'; pl_rduring := rd'; pl_rafter := ra' |}
  | _ => None
  end.

Definition sres_sx (r : sres) : sx :=
  match r with Refused => SL [SZ 0] | Written b => SL [SZ 1; SB b] end.

(* connections without a plan have no sends *)
Fixpoint zip_plans (cs : list conn) (pls : list plan) : list (conn * plan) :=
  match cs with
  | [] => []
  | c :: cs' => (c, hd {| pl_during := []; pl_after := O; pl_rduring := []; pl_rafter := O |} pls) :: zip_plans cs' (tl pls)
  end.

Definition run_gate (y plans : sx) : sx :=
  match dec_input y, as_list dec_plan plans with
  | Some (cfg, sme, cs, _), Some pls =>
      SL [run_session y;
          (* per connection: what became of the sends; and, when Insecure is off, what the server received
             outside TLS besides stream headers, <starttls/> and the closing tag: nothing *)
          SL (map (fun rs => SL [SL (map sres_sx rs); SS []]) (gate_conns cfg (fresh sme) gate0 (zip_plans cs pls)))]
  | _, _ => decode_error
  end.

Definition dec_scheme (x : sx) : option scheme :=
  match x with SZ 0 => Some Https | SZ 1 => Some Http | _ => None end.

Definition wres_sx (r : wres) : sx :=
  match r with WDialError => SL [SZ 0] | WNoTls => SL [SZ 1] | WAuth b => SL [SZ 2; SB b] end.

Definition run_ws (ins addr reds : sx) : sx :=
  match as_b ins, dec_scheme addr, as_list dec_scheme reds with
  | Some i, Some a, Some rs =>
      (* the endpoint reached completes the negotiation: connect() succeeds iff authentication was reached *)
      let r := ws_connect i a rs in SL [wres_sx r; SB (match r with WAuth _ => true | _ => false end)]
  | _, _, _ => decode_error
  end.

Definition run_C04 (x : sx) : sx :=
  match x with
  | SL [SZ 0; y; plans] => run_gate y plans
  | SL [SZ 1; ins; addr; reds] => run_ws ins addr reds
  | _ => decode_error
  end.
