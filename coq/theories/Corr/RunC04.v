(* Glue for C04, a composite check (like C09):
   tag 0: a history of connections on one Client (Model/Session.v, as run_session decodes it)
          plus, per connection, the sends other goroutines make meanwhile and afterwards
          (Model/Gate.v: the send gate);
   tag 1: the opening handshake of the websocket transport over a chain of redirects. *)
From Coq Require Import List ZArith NArith Bool.
From XV Require Import Lib.Sx Model.Session Model.Gate Model.TlsPolicy Corr.RunSession.
Import ListNotations.
Open Scope Z_scope.

Definition dec_plan (x : sx) : option plan :=
  match x with
  | SL [d; a] =>
      do d' <- as_list as_nat d; do a' <- as_nat a;
      Some {| pl_during := d'; pl_after := a'; pl_rduring := []; pl_rafter := O |}
  | SL [d; a; rd; ra] =>
      do d' <- as_list as_nat d; do a' <- as_nat a; do rd' <- as_list as_nat rd; do ra' <- as_nat ra;
      Some {| pl_during := d'; pl_after := a'; pl_rduring := rd'; pl_rafter := ra' |}
  | _ => None
  end.

Definition sres_sx (r : sres) : sx :=
  match r with Refused => SL [SZ 0] | Written b => SL [SZ 1; SB b] end.

(* connections without a plan have no sends *)
Fixpoint zip_plans (cs : list conn) (pls : list plan) : list (conn * plan) :=
  match cs with
  | [] => []
  | c :: cs' => (c, hd {| pl_during := []; pl_after := O; pl_rduring := []; pl_rafter := O |} pls) :: zip_plans cs' (tl pls)
  end.

(* the TLS configuration of the client and, per connection, what crypto/x509 says about the
   certificate the server presents: the MODEL decides the outcome of StartTLS from them
   (TlsPolicy.start_tls) -- the bit the harness computed on its own is not used *)
(* third component: the server saw this connection's TLS session RESUMED (observed; false when absent) *)
Definition dec_cert (x : sx) : option (cert * bool) :=
  match x with
  | SL [tr; ns] => do tr' <- as_b tr; do ns' <- as_list as_s ns; Some ({| c_trusted := tr'; c_names := ns' |}, false)
  | SL [tr; ns; rs] =>
      do tr' <- as_b tr; do ns' <- as_list as_s ns; do rs' <- as_b rs;
      Some ({| c_trusted := tr'; c_names := ns' |}, rs')
  | _ => None
  end.
Definition dec_tlsdata (x : sx) : option (tlsconf * list (cert * bool)) :=
  match x with
  | SL [sk; SS sn; SS dom; cs] =>
      do sk' <- as_b sk; do cs' <- as_list dec_cert cs;
      Some ({| t_skip := sk'; t_servername := sn; t_domain := dom |}, cs')
  | _ => None
  end.
Fixpoint decide_tls (t : tlsconf) (cs : list conn) (certs : list (cert * bool)) : list conn :=
  match cs, certs with
  | c :: cs', (ct, resumed) :: certs' =>
      {| k_dial := k_dial c; k_tls := start_tls_r t ct resumed; k_script := k_script c; k_traffic := k_traffic c |}
      :: decide_tls t cs' certs'
  | _, _ => cs
  end.

(* per connection: the flags the code reads, against the real channel: isSecure claiming a TLS that was
   not established on this connection; after a successful negotiation, Session.TlsEnabled differing from
   whether the session runs over TLS *)
Fixpoint flags_sx (rs : list (list out * result * persist)) : list (sx * sx) :=
  match rs with
  | [] => []
  | (w, r, p) :: rs' =>
      (SB (stale_secure w p),
       SB (match r with Ok => xorb (p_tls_enabled p) (existsb o_tls w) | Err _ _ => false end)) :: flags_sx rs'
  end.

Fixpoint zip_out (gs : list (list sres)) (fl : list (sx * sx)) (resumed : list bool) : list sx :=
  match gs with
  | [] => []
  | rs :: gs' =>
      let '(a, b) := hd (SB false, SB false) fl in
      (* what became of the sends; what the server received outside TLS besides stream headers,
         <starttls/> and the closing tag when Insecure is off: nothing; the two flag checks *)
      (* ... and for a sender held inside its write while this connection attempt was started: did the
         dial overtake it (Gate.dial_overtakes_writer: the lock does not permit it), did its stanza end
         up in clear text on the new connection *)
      (* last: whether the server saw the TLS session resumed -- an input from the environment (it must not
         matter to anything else: C04_resumed_session_irrelevant), echoed *)
      SL [SL (map sres_sx rs); SS []; a; b; SB (dial_overtakes_writer true); SB (dial_overtakes_writer true);
          SB (hd false resumed)]
      :: zip_out gs' (tl fl) (tl resumed)
  end.

Definition run_gate (y plans tlsdata : sx) : sx :=
  match dec_input y, as_list dec_plan plans, dec_tlsdata tlsdata with
  | Some (cfg, sme, cs0, sbs), Some pls, Some (t, certs) =>
      let cs := decide_tls t cs0 certs in
      SL [run_typed (cfg, sme, cs, sbs);
          SL (zip_out (gate_conns cfg (fresh sme) gate0 (zip_plans cs pls))
                      (flags_sx (run_conns cfg (fresh sme) cs)) (map snd certs))]
  | _, _, _ => decode_error
  end.

Definition dec_scheme (x : sx) : option scheme :=
  match x with SZ 0 => Some Https | SZ 1 => Some Http | _ => None end.

Definition wres_sx (r : wres) : sx :=
  match r with WDialError => SL [SZ 0] | WNoTls => SL [SZ 1] | WAuth b => SL [SZ 2; SB b] end.

(* the TLS configuration of the application and what crypto/x509 says about the certificate of the https
   endpoint: the model decides the handshake (the host of the URL in the place of the domain) *)
Definition dec_wstls (x : sx) : option bool :=
  match x with
  | SL [sk; SS sn; SS host; tr; ns] =>
      do sk' <- as_b sk; do tr' <- as_b tr; do ns' <- as_list as_s ns;
      Some (handshake_ok {| t_skip := sk'; t_servername := sn; t_domain := host |} {| c_trusted := tr'; c_names := ns' |})
  | _ => None
  end.

Definition run_ws (ins addr reds tls : sx) : sx :=
  match as_b ins, dec_scheme addr, as_list dec_scheme reds, dec_wstls tls with
  | Some i, Some a, Some rs, Some ok =>
      (* the endpoint reached completes the negotiation: connect() succeeds iff authentication was reached *)
      let r := ws_connect i ok a rs in SL [wres_sx r; SB (match r with WAuth _ => true | _ => false end)]
  | _, _, _, _ => decode_error
  end.

Definition run_C04 (x : sx) : sx :=
  match x with
  | SL [SZ 0; y; plans; tlsdata] => run_gate y plans tlsdata
  | SL [SZ 1; ins; addr; reds; tls] => run_ws ins addr reds tls
  | _ => decode_error
  end.
