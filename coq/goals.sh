#!/bin/bash
# usage: goals.sh <file.v> <line>  — prints the proof state just before <line>
f=$1; n=$2
tmp=/tmp/goals_$$.v
head -n $((n-1)) "$f" > $tmp
echo "Show. " >> $tmp
cd /verif/coq && timeout 120 coqc -Q theories XV $tmp 2>&1 | tail -${3:-40}
rm -f /tmp/goals_$$.*
