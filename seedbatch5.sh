#!/bin/bash
# round 5: validate /tmp/seed5/<P>/mut9, mut10 for the properties given as arguments
cd /verif
mkdir -p work/seedres5
for p in "$@"; do for m in mut9 mut10; do
  [ -f /verif/seeded/$p-$m/patch.diff ] && [ ! -f work/seedres5/$p-$m.json ] && echo "$p $m"
done; done | xargs -P 4 -L 1 sh -c './seedval.py $0 $1 --src /verif/seeded/$0-$1 --keep > work/seedres5/$0-$1.json 2>&1; python3 -c "
import json
try:
  r=json.load(open(\"work/seedres5/$0-$1.json\")); print(r[\"property\"],r[\"mutant\"],\"applies\",r.get(\"applies\"),\"demo_ok\",r.get(\"demo_ok\"),\"suite\",r.get(\"suite_passes_with_patch\"),\"caught_by\",r.get(\"caught_by\"))
except Exception as e: print(\"$0 $1 ERR\",e)
"'
