#!/bin/bash
# re-validate, on the current /repo HEAD, every seeded change whose patch still applies
cd /verif
mkdir -p work/seedres2
for d in seeded/C*-*/; do
  n=$(basename $d); p=${n%%-*}; m=${n#*-}
  if git -C /repo apply --check /verif/$d/patch.diff 2>/dev/null; then echo "$p $m"; fi
done | xargs -P 3 -L 1 sh -c './seedval.py $0 $1 --src /verif/seeded/$0-$1 --keep > work/seedres2/$0-$1.json 2>&1; python3 -c "
import json
try:
  r=json.load(open(\"work/seedres2/$0-$1.json\")); print(r[\"property\"],r[\"mutant\"],\"demo_ok\",r.get(\"demo_ok\"),\"suite\",r.get(\"suite_passes_with_patch\"),\"caught_by\",r.get(\"caught_by\"))
except Exception as e: print(\"$0 $1 ERR\",e)
"'
