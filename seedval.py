#!/usr/bin/env python3
"""Validate a seeded change produced by an independent sub-agent and run the checks on it.

  ./seedval.py C06 mut1 [--checks C06,C05] [--src /tmp/seed/out-C06/mut1]

Steps (all in a scratch worktree of /repo under /tmp/seedval, removed afterwards):
  1. the patch applies to /repo's HEAD and `go build ./...` succeeds;
  2. the unedited test suite passes with the patch;
  3. the demonstration fails with the patch and passes without it;
  4. `VERIF_REPO=<worktree> ./check <prop>` (experiment mode) is run: caught or missed.
With --keep the change is stored as /verif/seeded/<prop>-<mut>/ (patch.diff, demo, meta.json).
"""
import argparse, json, os, re, shutil, subprocess, sys, time

ENV = dict(os.environ, GOFLAGS="-mod=mod", GOPROXY="off", GOSUMDB="off", GOTOOLCHAIN="local")


def sh(cmd, cwd=None, timeout=1800, env=ENV):
    p = subprocess.run(cmd, cwd=cwd, shell=True, stdout=subprocess.PIPE, stderr=subprocess.STDOUT, text=True,
                       errors="replace", timeout=timeout, env=env)
    return p.returncode, p.stdout


def main():
    ap = argparse.ArgumentParser()
    ap.add_argument("prop")
    ap.add_argument("mut")
    ap.add_argument("--src")
    ap.add_argument("--checks")
    ap.add_argument("--keep", action="store_true")
    ap.add_argument("--tier", default="quick")
    a = ap.parse_args()
    src = a.src or "/tmp/seed/out-%s/%s" % (a.prop, a.mut)
    patch = os.path.join(src, "patch.diff")
    wt = "/tmp/seedval/%s-%s" % (a.prop, a.mut)
    res = {"property": a.prop, "mutant": a.mut, "source": src}
    sh("git -C /repo worktree remove --force %s" % wt)
    os.makedirs("/tmp/seedval", exist_ok=True)
    rc, out = sh("git -C /repo worktree add --detach %s HEAD" % wt)
    if rc != 0:
        print(out)
        return 2
    try:
        rc, out = sh("git apply %s" % patch, cwd=wt)
        res["applies"] = rc == 0
        if rc != 0:
            res["apply_output"] = out[-800:]
            print(json.dumps(res, indent=1))
            return 1
        rc, out = sh("go build ./... ", cwd=wt)
        res["builds"] = rc == 0
        rc, out = sh("flock /tmp/xmpp-gotest.lock go test -vet=off -count=1 ./... 2>&1 | tail -5", cwd=wt, timeout=3600)
        res["suite_passes_with_patch"] = "FAIL" not in out and "ok" in out
        res["suite_output"] = out[-400:]
        # demonstration
        demos = [f for f in os.listdir(src) if f.endswith(".go")]
        demo_res = {}
        for d in demos:
            txt = open(os.path.join(src, d)).read()
            first = txt.split("\n", 1)[0]
            pkgdir = "stanza" if re.search(r"\bstanza\b", first) and "root" not in first else ""
            m = re.search(r"^package\s+(\w+)", txt, flags=re.M)
            pkg = m.group(1) if m else ""
            if pkg in ("stanza", "stanza_test"):
                pkgdir = "stanza"
            elif pkg in ("xmpp", "xmpp_test"):
                pkgdir = ""
            if pkg == "main":
                dst = os.path.join(wt, "cmd", "seeddemo")
                os.makedirs(dst, exist_ok=True)
                shutil.copy(os.path.join(src, d), os.path.join(dst, "main.go"))
                cmd = "go run ./cmd/seeddemo"
            else:
                name = "zz_seed_" + (d if d.endswith("_test.go") else d[:-3] + "_test.go")
                shutil.copy(os.path.join(src, d), os.path.join(wt, pkgdir, name))
                tests = re.findall(r"^func (Test\w+)\(", txt, flags=re.M)
                # only the demonstration's own tests run (they use ports of their own), so the suite lock is not needed
                cmd = "go test -vet=off -count=1 -run '^(%s)$' ./%s" % ("|".join(tests), pkgdir or ".")
            rc1, o1 = sh(cmd, cwd=wt, timeout=1500)
            sh("git apply -R %s" % patch, cwd=wt)  # without the patch (never git stash: the stash is shared by all worktrees)
            rc0, o0 = sh(cmd, cwd=wt, timeout=1500)
            sh("git apply %s" % patch, cwd=wt)
            demo_res[d] = {"fails_with_patch": rc1 != 0, "passes_without": rc0 == 0, "cmd": cmd,
                           "with_tail": o1[-300:], "without_tail": o0[-300:]}
            # remove the demo again so that the checks see only the source change
            if pkg == "main":
                shutil.rmtree(os.path.join(wt, "cmd", "seeddemo"), ignore_errors=True)
            else:
                os.unlink(os.path.join(wt, pkgdir, name))
        res["demos"] = demo_res
        res["demo_ok"] = bool(demo_res) and all(v["fails_with_patch"] and v["passes_without"] for v in demo_res.values())
        # the checks
        checks = (a.checks or a.prop).split(",")
        res["checks"] = {}
        for c in checks:
            t0 = time.time()
            rc, out = sh("./check %s --tier %s" % (c, a.tier), cwd="/verif", env=dict(os.environ, VERIF_REPO=wt), timeout=3600)
            lines = [l for l in out.split("\n") if l.startswith(("VIOLATION", "OK ", "KNOWN-FINDING")) or l.startswith("  ")]
            res["checks"][c] = {"exit": rc, "caught": rc != 0, "lines": lines[:8], "wall_s": round(time.time() - t0, 1)}
        res["caught_by"] = [c for c, v in res["checks"].items() if v["caught"]]
    finally:
        sh("git -C /repo worktree remove --force %s" % wt)
        import hashlib
        sh("rm -f /verif/work/xvrun.%s*" % hashlib.sha1(wt.encode()).hexdigest()[:8])  # only this experiment's harness binary
    print(json.dumps(res, indent=1))
    if a.keep:
        dst = "/verif/seeded/%s-%s" % (a.prop, a.mut)
        os.makedirs(dst, exist_ok=True)
        if os.path.realpath(src) != os.path.realpath(dst):
            shutil.copy(patch, os.path.join(dst, "patch.diff"))
            for d in os.listdir(src):
                if d.endswith(".go") or d == "README.md":
                    shutil.copy(os.path.join(src, d), os.path.join(dst, d))
        old = {}
        if os.path.exists(os.path.join(dst, "meta.json")):
            try:
                old = json.load(open(os.path.join(dst, "meta.json")))
            except ValueError:
                old = {}
        meta = {"property": a.prop, "breaks": "see README.md", "validated": {k: res.get(k) for k in ("applies", "builds", "suite_passes_with_patch", "demo_ok")},
                "ran": ["git apply patch.diff (scratch worktree of /repo HEAD)", "go build ./...", "go test -vet=off -count=1 ./... (unedited suite)",
                        "demonstration with and without the patch"] + ["VERIF_REPO=<worktree> ./check %s --tier %s" % (c, a.tier) for c in checks],
                "caught_by": res.get("caught_by"), "check_lines": {c: v["lines"][:3] for c, v in res["checks"].items()},
                "validated_on": subprocess.run("git -C /repo rev-parse --short HEAD", shell=True, stdout=subprocess.PIPE, text=True).stdout.strip()}
        for k in ("origin", "needs", "superseded", "breaks"):
            if k in old and (k not in meta or meta[k] == "see README.md"):
                meta[k] = old[k]
        json.dump(meta, open(os.path.join(dst, "meta.json"), "w"), indent=1)
    return 0


if __name__ == "__main__":
    sys.exit(main())
