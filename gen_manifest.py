#!/usr/bin/env python3
"""Writes MANIFEST.json from the table below (kept as code so it stays valid and consistent)."""
import json, subprocess
hooks = subprocess.run("git -C /repo log --format=%H --grep='^verif hooks'", shell=True, capture_output=True, text=True).stdout.split()
CHECKS = {
 "C17": ("theorems C17_refines_fifo / C17_peek_pure / C17_ids_increasing over all operation histories (induction over the op list) on Model/Queue.v; model tied to stanza.UnAckQueue by differential runs of random histories through the real Push/Pop/PopN/Peek/PeekN/Empty (extracted model + in-Coq vm_compute sample) and an independent reference-FIFO oracle",
         "6.C17", "Coq proof (refinement to a list FIFO + sortedness invariant) + model/implementation correspondence"),
}
ALL = ["C%02d" % i for i in range(1, 21)]
NOT_APPLICABLE = {p: "check not yet built in this phase (model and correspondence under construction; see DESIGN.md section 8 build order)" for p in ALL if p not in CHECKS}
checks = []
for pid, (text, ref, tech) in sorted(CHECKS.items()):
    checks.append({
        "property_id": pid,
        "quick_cmd": "./check %s --tier quick" % pid,
        "thorough_cmd": "./check %s --tier thorough" % pid,
        "evidence_file": "/verif/evidence/%s.json" % pid,
        "replay_cmd_template": "./check %s --replay {path}" % pid,
        "engine": "coq-proof+correspondence",
        "level_claimed": {"category": "proof", "text": text, "design_ref": ref},
        "level_note": "Trusted: Coq 8.16.1 kernel (vm_compute, no native_compute), no axioms (every theorem prints 'Closed under the global context'); the hand-written Gallina model, tied to the Go code by the per-run correspondence (Go harness built from /repo with tag verif; extracted OCaml runner via ExtrOcamlBasic, N/Z kept as Coq numbers; in-Coq re-evaluation of a sample). Go runtime / encoding/xml / net / crypto are exercised, not modelled.",
        "technique": tech,
    })
m = {
 "version": 1,
 "setup_cmd": "./check --setup",
 "hooks": {"guard": "verif (Go build tag)", "enable": "GOFLAGS='-mod=mod -tags=verif' go build (harness/go.mod replaces gosrc.io/xmpp by /repo)",
           "baseline_off_cmd": "cd /repo && GOFLAGS=-mod=mod GOPROXY=off GOSUMDB=off go test -vet=off -count=1 ./...",
           "source_commits": hooks, "add_only": True},
 "engines": [{"name": "coq-proof+correspondence", "path": "/verif/check", "serves_properties": sorted(CHECKS),
              "kind_free_text": "Coq 8.16.1 theories under coq/ (models, proofs, property theorems), regenerated Generated.v (translator harness/gen.go), extracted OCaml model runner, Go differential harness (harness/), python driver (check)"}],
 "checks": checks,
 "not_applicable": [{"property_id": k, "reason": v} for k, v in sorted(NOT_APPLICABLE.items())],
 "notes": "See DESIGN.md. Every check rebuilds the Go harness from /repo's working tree, regenerates Generated.v, re-checks the Coq obligations (make + Print Assumptions), runs the implementation and the model on the same generated cases, and evaluates a model-free oracle on the implementation.",
}
json.dump(m, open("/verif/MANIFEST.json", "w"), indent=1)
print("wrote MANIFEST.json with", len(checks), "checks")
