module xv

go 1.13

require (
	gosrc.io/xmpp v0.0.0
	nhooyr.io/websocket v1.6.5
)

replace gosrc.io/xmpp => /repo
