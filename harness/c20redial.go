package main

import (
	"fmt"
	"net"
	"strings"
	"sync"
	"time"

	xmpp "gosrc.io/xmpp"
)

// C20, reconnections: a client keeps ONE transport object for its whole life and calls its
// Connect() again for every reconnection (Client.Connect after Disconnect, Client.Resume, the
// StreamManager). "The address the transport dials ... keeps the given host and explicit port"
// is therefore about the 2nd and 3rd Connect of a transport as much as about the 1st.
//
// A redial case: a listener on a loopback address; the transport each constructor returns for
// host:port (host a NAME or a literal whose canonical form differs from what was given) is
// connected Redial times; before each Connect the address it is about to dial (Config.Address,
// the argument of its net.DialTimeout) is noted. One attempt may be made to fail (the server
// cuts the connection before its stream header). Model: Model/Addr.v client_dials /
// component_dials; theorem C20_redial_keeps_host.
type c20Redial struct {
	Host   string `json:"redial_host"` // as written in the address, brackets included
	N      int    `json:"redial"`      // number of Connects per transport
	FailAt int    `json:"fail_at"`     // index of the attempt the server cuts, -1 = none

	// filled by Run
	ran     bool
	addr    string
	reached [][]string // per transport, per attempt: the peer address reached, "" = failed
	skipped bool
}

var c20V6Loopback = func() bool {
	l, err := net.Listen("tcp", "[::1]:0")
	if err != nil {
		return false
	}
	l.Close()
	return true
}()

func c20RedialGen(thorough bool) []interface{} {
	hosts := []string{"localhost", "127.0.0.1", "[::ffff:127.0.0.1]", "[::FFFF:7f00:1]", "[0:0:0:0:0:ffff:127.0.0.1]"}
	if c20V6Loopback {
		hosts = append(hosts, "[::1]", "[0:0:0:0:0:0:0:1]", "ip6-localhost")
	}
	var out []interface{}
	for i, h := range hosts {
		if h == "ip6-localhost" {
			if addrs, err := net.LookupHost(h); err != nil || len(addrs) == 0 {
				continue
			}
		}
		out = append(out, &c20Redial{Host: h, N: 3, FailAt: -1})
		out = append(out, &c20Redial{Host: h, N: 3, FailAt: i % 2}) // a failed attempt does not change the address either
		if thorough {
			out = append(out, &c20Redial{Host: h, N: 2, FailAt: -1}, &c20Redial{Host: h, N: 4, FailAt: 2})
		}
	}
	return out
}

const c20StreamHeader = "<?xml version='1.0'?><stream:stream xmlns='jabber:client' xmlns:stream='http://etherx.jabber.org/streams' id='c20' version='1.0'>"

func (c *c20Redial) run() Sx {
	c.ran, c.reached, c.skipped = true, nil, false
	laddr := "127.0.0.1:0"
	if c.Host == "[::1]" || c.Host == "[0:0:0:0:0:0:0:1]" || c.Host == "ip6-localhost" {
		laddr = "[::1]:0"
	}
	l, err := net.Listen("tcp", laddr)
	if err != nil {
		c.skipped = true
		return L(SBytes("listen-failed"))
	}
	defer l.Close()
	_, port, _ := net.SplitHostPort(l.Addr().String())
	c.addr = c.Host + ":" + port

	// server: the k-th accepted connection is cut at once when k is marked, otherwise it answers the
	// client's stream header with its own and the client's closing tag with its own
	var mu sync.Mutex
	cut := map[int]bool{}
	accepted := 0
	local := map[int]string{}
	go func() {
		for {
			conn, err := l.Accept()
			if err != nil {
				return
			}
			mu.Lock()
			k := accepted
			accepted++
			local[k] = conn.LocalAddr().String()
			doCut := cut[k]
			mu.Unlock()
			go func(conn net.Conn) {
				defer conn.Close()
				if doCut {
					return
				}
				buf := make([]byte, 4096)
				seen, sent := "", false
				conn.SetDeadline(time.Now().Add(5 * time.Second))
				for {
					n, err := conn.Read(buf)
					seen += string(buf[:n])
					if !sent && strings.Contains(seen, "<stream:stream") && strings.HasSuffix(strings.TrimSpace(seen), ">") {
						conn.Write([]byte(c20StreamHeader))
						sent = true
					}
					if strings.Contains(seen, "</stream:stream>") {
						conn.Write([]byte("</stream:stream>"))
						return
					}
					if err != nil {
						return
					}
				}
			}(conn)
		}
	}()

	attempt := 0
	one := func(t xmpp.Transport) Sx {
		xt, ok := t.(*xmpp.XMPPTransport)
		if !ok {
			c.reached = append(c.reached, nil)
			return L(SBytes(fmt.Sprintf("%T", t)))
		}
		var dialled []Sx
		var reached []string
		for i := 0; i < c.N; i++ {
			mu.Lock()
			k := accepted
			cut[k] = i == c.FailAt
			mu.Unlock()
			dialled = append(dialled, SBytes(xt.Config.Address)) // what net.DialTimeout is about to get
			_, err := xt.Connect()
			r := ""
			if err == nil {
				mu.Lock()
				r = local[k]
				mu.Unlock()
				hist("redial:connected")
			} else {
				hist("redial:attempt-failed")
			}
			reached = append(reached, r)
			xt.Close()
			attempt++
		}
		c.reached = append(c.reached, reached)
		return LS(dialled)
	}
	cfg := xmpp.TransportConfiguration{Address: c.addr, Domain: "localhost", ConnectTimeout: 0}
	ct := xmpp.NewClientTransport(cfg)
	pt, perr := xmpp.NewComponentTransport(cfg)
	co := one(ct)
	var po Sx
	if perr != nil {
		c.reached = append(c.reached, nil)
		po = L(SBytes("refused"))
	} else {
		po = one(pt)
	}
	return L(co, po)
}

func (c *c20Redial) input() Sx {
	if !c.ran {
		panic("c20: Input called before Run (the listener's port is part of the address)")
	}
	if c.skipped {
		return L(Z(1), SBytes(""), L())
	}
	var outs []Sx
	if len(c.reached) > 0 {
		for _, r := range c.reached[0] {
			outs = append(outs, Opt(r != "", SBytes(r)))
		}
	}
	return L(Z(1), SBytes(c.addr), LS(outs))
}

// model-free: every address dialled, at the first Connect and at every later one, is a valid host:port
// naming exactly the host and the port that were given
func (c *c20Redial) oracle(obs Sx) (string, string) {
	if c.skipped {
		return "", ""
	}
	if len(obs.L) != 2 {
		return "observation shape", "shape"
	}
	wantHost := strings.TrimSuffix(strings.TrimPrefix(c.Host, "["), "]")
	_, wantPort, _ := net.SplitHostPort(c.addr)
	for ti, who := range []string{"client", "component"} {
		ds := obs.L[ti]
		if len(ds.L) != c.N {
			return fmt.Sprintf("%s transport for %q: %d dial addresses observed for %d Connects", who, c.addr, len(ds.L), c.N), "redial-shape-" + who
		}
		for i, d := range ds.L {
			a := string(bytesOf(d))
			h, p, err := net.SplitHostPort(a)
			nth := []string{"1st", "2nd", "3rd", "4th", "5th"}[i%5]
			if err != nil {
				return fmt.Sprintf("%s transport given %q: the %s Connect dials %q, not a valid host:port (%v)", who, c.addr, nth, a, err), "redial-undialable-" + who
			}
			if h != wantHost {
				return fmt.Sprintf("%s transport given %q: the %s Connect on the same transport dials %q - host %q, the host given was %q", who, c.addr, nth, a, h, wantHost), "redial-host-" + who
			}
			if p != wantPort {
				return fmt.Sprintf("%s transport given %q: the %s Connect on the same transport dials %q - port %q, the port given was %q", who, c.addr, nth, a, p, wantPort), "redial-port-" + who
			}
		}
	}
	return "", ""
}

func (c *c20Redial) key() (string, bool) {
	hist("form:redial")
	kind := "literal"
	if !strings.ContainsAny(c.Host, ":.") || c.Host == "ip6-localhost" {
		kind = "name"
	}
	hist("redial-host:" + kind)
	return fmt.Sprintf("redial|%s|%d|%d", c.Host, c.N, c.FailAt), true
}
