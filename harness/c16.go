package main

import (
	"bytes"
	"crypto/sha1"
	"encoding/hex"
	"encoding/json"
	"encoding/xml"
	"errors"
	"fmt"
	"io"
	"math/rand"
	"net"
	"strconv"
	"strings"
	"sync"
	"time"

	xmpp "gosrc.io/xmpp"
	"gosrc.io/xmpp/stanza"
)

// C16: Component.handshake / Component.Connect vs Model/Component.v (+ Sha1.v, Hex.v).
//
// Two kinds of case:
//
//	digest  - the pure hook VerifComponentHandshake(c, id) (no network), any bytes;
//	connect - a real Component.Connect() against a scripted TCP server written in this
//	          file: one listener per case, scripted stream header and reply.
type c16In struct {
	Kind   string `json:"kind"` // "digest" | "connect"
	ID     []byte `json:"id"`   // the id the server intends (what the attribute value unescapes to)
	Secret []byte `json:"secret"`
	// connect only
	Pre            string `json:"pre,omitempty"`              // ok | ws | refused | badheader:<variant>
	Hdr            string `json:"hdr,omitempty"`              // std | noid | dq | idfirst | nsid
	Wire           string `json:"wire,omitempty"`             // the escaped attribute value as sent
	Reply          string `json:"reply,omitempty"`            // name in c16Replies, or "write-fail"
	Close          bool   `json:"close,omitempty"`            // server closes right after the reply (no probe)
	NoErrorHandler bool   `json:"no_error_handler,omitempty"` // reconnect: NewComponent(..., nil): the error callback is optional
	lateProbe      bool   // handler-reconnect: send the probe only after watching the accepted connection
	Depth          int    `json:"depth,omitempty"` // other:deep-delegation-*: nesting depth of the reply, generated when it is sent
	// digest-seq / reconnect: the SAME Component value is used for every entry, in order
	Sessions []c16Sess `json:"sessions,omitempty"`
}

// c16Sess is one handshake of a multi-step case.  digest-seq uses ID only.
type c16Sess struct {
	ID     []byte `json:"id"`
	Hdr    string `json:"hdr,omitempty"`
	Wire   string `json:"wire,omitempty"`
	Reply  string `json:"reply,omitempty"`
	End    string `json:"end,omitempty"`    // how an established session ends: drop | server-close | client-close
	Resume bool   `json:"resume,omitempty"` // call Resume() instead of Connect()
	Down   bool   `json:"down,omitempty"`   // handler-reconnect: the server is not listening any more when this connection is attempted
}

type c16 struct{}

func init() { register(c16{}) }

func (c16) ID() string    { return "C16" }
func (c16) RunFn() string { return "run_C16" }
func (c16) Workers() int  { return 64 }

// Journal: a reply can bring the whole process down (fatal error: stack overflow in the
// stanza decoder); the driver then finds the case among the ones in flight.
func (c16) Journal() bool { return true }
func (c16) Rule() string {
	return "handler-reconnect cases: an established connection is ended by the server with a stream error and the application's event handler reconnects from inside that callback (Disconnect + Resume); the second connection is refused with a stanza behind the refusal, accepted and watched for what the library does to it, answered otherwise, or the server is down; after every Connect/Resume, in every kind of case, Send is tried (accepted iff established), and after the end of every established session the state must become Disconnected; digest-seq cases: Component.handshake called 2-4 times on the SAME Component value with different (and repeated, empty) ids; reconnect cases: the SAME Component connects 2-4 times in a row (Connect/Resume) to the scripted server, a fresh escaped/non-ASCII/empty/1 kB stream id per connection, sessions ended by a TCP drop, a server-side stream close or Disconnect, optionally one refused or cut handshake in between (incl. a fixed family: an orderly closed established session followed by a connection on which the server hangs up or says something else instead of answering) - digest, error, state and routing of every connection are compared; the model is given the header bytes the server wrote and encoding/xml's tokens of the reply and reads the stream id / classifies the reply itself; digest cases: random (id, secret) byte strings through Component.handshake (lengths 0..1100 incl. every SHA-1 padding boundary, XML-special, non-ASCII, NUL/0xff bytes); connect cases: Component.Connect against a scripted TCP server, id sent XML-escaped in the stream header (entities, numeric references, either quote, missing attribute, 1 kB; random attribute layouts with namespace-qualified look-alikes xml:id / x:id / y:id before, after and on both sides of the unqualified id, prefix declarations before or after their use, id first / last / in the middle of many attributes), every reply kind (handshake forms, 25 stream-error conditions, 12 other packet kinds incl. a stanza whose delegation/forwarded payload is nested 3 to 300 000 levels deep, unknown/malformed/closed), transport failures and a failing handshake write; distinct = distinct (kind, total length mod 64, block count, id class, header, pre, reply); non-trivial = digest of a non-empty input, a connect case that reaches the reply, or a sequence of at least two handshakes"
}

// ---------------------------------------------------------------- replies

type c16Reply struct {
	name string
	wire string
	abs  Sx   // the model's reply: (0) handshake | (1 cond) | (2 k) | (3)
	open bool // the connection stays usable after it (a probe can follow)
}

const nsStreams = "urn:ietf:params:xml:ns:xmpp-streams"

var c16Conditions = []string{"bad-format", "bad-namespace-prefix", "conflict", "connection-timeout", "host-gone",
	"host-unknown", "improper-addressing", "internal-server-error", "invalid-from", "invalid-namespace", "invalid-xml",
	"not-authorized", "not-well-formed", "policy-violation", "remote-connection-failed", "reset", "resource-constraint",
	"restricted-xml", "see-other-host", "system-shutdown", "undefined-condition", "unsupported-encoding",
	"unsupported-feature", "unsupported-stanza-type", "unsupported-version"}

var c16Replies = buildC16Replies()

func buildC16Replies() []c16Reply {
	hs, rerr := L(Z(0)), L(Z(3))
	other := func(k int64) Sx { return L(Z(2), Z(k)) }
	serr := func(c string) Sx { return L(Z(1), SBytes(c)) }
	rs := []c16Reply{
		{"handshake", "<handshake/>", hs, true},
		{"handshake-long", "<handshake></handshake>", hs, true},
		{"handshake-ns", "<handshake xmlns='jabber:component:accept'/>", hs, true},
		{"handshake-text", "<handshake>welcome</handshake>", hs, true},
		{"handshake-ws", "\n  <handshake/>", hs, true},
		{"handshake-comment", "<!-- authenticated --><handshake/>", hs, true},
	}
	for _, c := range c16Conditions {
		rs = append(rs, c16Reply{"stream-error:" + c, "<stream:error><" + c + " xmlns='" + nsStreams + "'/></stream:error>", serr(c), true})
	}
	rs = append(rs,
		c16Reply{"stream-error-text:not-authorized", "<stream:error><not-authorized xmlns='" + nsStreams + "'/><text xmlns='" + nsStreams + "'>bad secret</text></stream:error>", serr("not-authorized"), true},
		c16Reply{"stream-error-empty", "<stream:error/>", serr(""), true},
		c16Reply{"stream-error-app", "<stream:error><too-many xmlns='urn:example:app'/></stream:error>", serr("too-many"), true},
		c16Reply{"stream-error-closing:host-unknown", "<stream:error><host-unknown xmlns='" + nsStreams + "'/></stream:error></stream:stream>", serr("host-unknown"), false},
		// other packets NextPacket decodes
		c16Reply{"other:message", "<message/>", other(1), true},
		c16Reply{"other:message-body", "<message from='a@b' to='comp.localhost'><body>hi</body></message>", other(1), true},
		c16Reply{"other:presence", "<presence/>", other(2), true},
		c16Reply{"other:iq-result", "<iq type='result' id='x'/>", other(3), true},
		c16Reply{"other:features", "<stream:features/>", other(4), true},
		c16Reply{"other:sasl-success", "<success xmlns='urn:ietf:params:xml:ns:xmpp-sasl'/>", other(5), true},
		c16Reply{"other:sasl-failure", "<failure xmlns='urn:ietf:params:xml:ns:xmpp-sasl'><not-authorized/></failure>", other(6), true},
		c16Reply{"other:sm-enabled", "<enabled xmlns='urn:xmpp:sm:3'/>", other(7), true},
		c16Reply{"other:sm-r", "<r xmlns='urn:xmpp:sm:3'/>", other(8), true},
		c16Reply{"other:sm-a", "<a xmlns='urn:xmpp:sm:3' h='1'/>", other(9), true},
		c16Reply{"other:sm-resumed", "<resumed xmlns='urn:xmpp:sm:3' previd='p' h='1'/>", other(10), true},
		c16Reply{"other:sm-failed", "<failed xmlns='urn:xmpp:sm:3'/>", other(11), true},
		// a stanza whose XEP-0355 delegation/forwarded payload wraps a stanza that again carries one, c16In.Depth levels deep
		c16Reply{"other:deep-delegation-message", "", other(1), true},
		c16Reply{"other:deep-delegation-iq", "", other(3), true},
		c16Reply{"other:stream-close", "</stream:stream>", other(12), false},
		// NextPacket errors
		c16Reply{"unknown-ns", "<ok xmlns='urn:example:unknown'/>", rerr, true},
		c16Reply{"unknown-component-element", "<welcome/>", rerr, true},
		c16Reply{"unknown-stream-element", "<stream:welcome/>", rerr, true},
		c16Reply{"handshake-client-ns", "<handshake xmlns='jabber:client'/>", rerr, true},
		c16Reply{"handshake-no-ns", "<handshake xmlns=''/>", rerr, true},
		c16Reply{"sasl-unknown", "<auth xmlns='urn:ietf:params:xml:ns:xmpp-sasl'/>", rerr, true},
		c16Reply{"malformed:unbalanced-end", "</handshake>", rerr, false},
		c16Reply{"malformed:double-lt", "<<handshake/>", rerr, false},
		c16Reply{"malformed:mismatched-end", "<handshake></hand>", rerr, false},
		c16Reply{"malformed:handshake-start-then-close", "<handshake>", rerr, false},
		c16Reply{"malformed:handshake-bad-child", "<handshake><a></b></handshake>", rerr, false},
		c16Reply{"malformed:bad-entity", "&nosuch;<handshake/>", rerr, false},
		c16Reply{"malformed:truncated", "<handshake", rerr, false},
		c16Reply{"malformed:invalid-utf8", "\xff\xfe<handshake/>", rerr, false},
		c16Reply{"malformed:unquoted-attr", "<handshake a=b/>", rerr, false},
		c16Reply{"text-only", "authenticated", rerr, false},
		c16Reply{"close", "", rerr, false},
	)
	return rs
}

// c16Patience: how long a step of this case may take before it counts as hung.  The very
// deep replies are tens of megabytes that the component has to tokenise: real work, slow on
// a starved machine.
func c16Patience(in c16In) time.Duration {
	if in.Depth > 10000 {
		return 10 * c16Wait
	}
	return c16Wait
}

// c16DeepReply: <kind><delegation><forwarded> repeated depth times, then closed again
// (about 90 bytes per level; built when it is sent, never stored in a case file).
func c16DeepReply(kind string, depth int) string {
	open := "<" + kind + " from='x@y' to='comp.localhost'><delegation xmlns='urn:xmpp:delegation:1'><forwarded xmlns='urn:xmpp:forward:0'>"
	cl := "</forwarded></delegation></" + kind + ">"
	return strings.Repeat(open, depth) + strings.Repeat(cl, depth)
}

func c16ReplyByName(n string) (c16Reply, bool) {
	for _, r := range c16Replies {
		if r.name == n {
			return r, true
		}
	}
	return c16Reply{}, false
}

// ---------------------------------------------------------------- generation

var c16RunePool = []rune{'&', '<', '>', '\'', '"', 'A', 'a', '0', ' ', ';', '#', 'x', '=', '/', '\t', '\n', '\r',
	0xe9, 0xdf, 0x3a9, 0x4e2d, 0x20ac, 0xfffd, 0x1f600, 0x10ffff, 0x7f, 0x85, 0xa0, 0xd7ff, 0xe000}

func c16GenID(r *rand.Rand, text bool) []byte {
	switch c := r.Intn(20); {
	case c == 0:
		return []byte{}
	case c < 4: // typical server ids
		return []byte(fmt.Sprint(r.Uint64()))
	case c < 6:
		return []byte(fmt.Sprintf("%08x-%04x-%04x-%04x-%012x", r.Uint32(), r.Intn(1<<16), r.Intn(1<<16), r.Intn(1<<16), r.Int63n(1<<48)))
	case c < 12: // special characters and non-ASCII
		n := 1 + r.Intn(24)
		var b strings.Builder
		for i := 0; i < n; i++ {
			b.WriteRune(c16RunePool[r.Intn(len(c16RunePool))])
		}
		return []byte(b.String())
	case c < 13: // literal text that looks like an escape once unescaped
		return []byte([]string{"&amp;", "&lt;id&gt;", "&#x41;", "a&amp;amp;b", "&quot;q&quot;", "]]>", "<!--x-->"}[r.Intn(7)])
	case c < 14: // about 1 kB
		n := 1000 + r.Intn(100)
		var b strings.Builder
		for b.Len() < n {
			if r.Intn(6) == 0 {
				b.WriteRune(c16RunePool[r.Intn(len(c16RunePool))])
			} else {
				b.WriteByte(byte('a' + r.Intn(26)))
			}
		}
		return []byte(b.String())
	case c < 17 || text: // lengths around the SHA-1 block boundaries
		n := []int{50, 54, 55, 56, 57, 62, 63, 64, 65, 100, 118, 119, 120, 121, 127, 128, 129, 183, 184, 192}[r.Intn(20)] - r.Intn(3)
		b := make([]byte, n)
		for i := range b {
			b[i] = byte('!' + r.Intn(94))
		}
		return b
	default: // arbitrary bytes (digest cases only)
		n := r.Intn(80)
		b := make([]byte, n)
		for i := range b {
			switch r.Intn(4) {
			case 0:
				b[i] = 0
			case 1:
				b[i] = 0xff
			default:
				b[i] = byte(r.Intn(256))
			}
		}
		return b
	}
}

func c16GenSecret(r *rand.Rand) []byte {
	switch c := r.Intn(10); {
	case c == 0:
		return []byte{}
	case c < 5:
		return []byte([]string{"mypass", "secret", "s3cr3t&<>", "pässwörd", "x"}[r.Intn(5)])
	case c < 9:
		n := 1 + r.Intn(40)
		b := make([]byte, n)
		for i := range b {
			b[i] = byte(r.Intn(256))
		}
		return b
	default:
		n := 200 + r.Intn(900)
		b := make([]byte, n)
		for i := range b {
			b[i] = byte(' ' + r.Intn(95))
		}
		return b
	}
}

// c16Escape writes id as an attribute value delimited by quote; every choice decodes back to id.
func c16Escape(r *rand.Rand, id string, quote rune) string {
	var b strings.Builder
	num := func(c rune) {
		switch r.Intn(3) {
		case 0:
			fmt.Fprintf(&b, "&#%d;", c)
		case 1:
			fmt.Fprintf(&b, "&#x%x;", c)
		default:
			fmt.Fprintf(&b, "&#x%X;", c)
		}
	}
	named := func(name string, c rune) {
		if r.Intn(3) == 0 {
			num(c)
		} else {
			b.WriteString(name)
		}
	}
	prev := rune(0)
	for _, c := range id {
		p := prev
		prev = c
		switch {
		case c == '&':
			named("&amp;", c)
		case c == '<':
			named("&lt;", c)
		case c == '>':
			// encoding/xml refuses a raw "]]>" even inside an attribute value (see the
			// bad header "cdata-end-in-id"), so a '>' after ']' is always escaped
			if p != ']' && r.Intn(2) == 0 {
				b.WriteRune(c)
			} else {
				named("&gt;", c)
			}
		case c == '\'':
			if quote == '\'' || r.Intn(2) == 0 {
				named("&apos;", c)
			} else {
				b.WriteRune(c)
			}
		case c == '"':
			if quote == '"' || r.Intn(2) == 0 {
				named("&quot;", c)
			} else {
				b.WriteRune(c)
			}
		case c == '\t' || c == '\n' || c == '\r':
			num(c)
		case r.Intn(8) == 0:
			num(c)
		default:
			b.WriteRune(c)
		}
	}
	return b.String()
}

func (c16) Gen(r *rand.Rand, tier string) []interface{} {
	nd, nc := 400, 150
	if tier == "thorough" {
		nd, nc = 20000, 3000
	}
	var out []interface{}
	dig := func(id, secret string) {
		out = append(out, c16In{Kind: "digest", ID: []byte(id), Secret: []byte(secret)})
	}
	// fixed digest corners: FIPS vectors, the repository's own test, argument order
	dig("", "")
	dig("abc", "")
	dig("", "abc")
	dig("abcdbcdecdefdefgefghfghighij", "hijkijkljklmklmnlmnomnopnopq")
	dig("1263952298440005243", "mypass")
	dig("id", "secret")
	dig("secret", "id")
	dig(strings.Repeat("a", 1000), "")
	for l := 0; l <= 130; l++ { // every padding boundary
		dig(strings.Repeat("k", l/2), strings.Repeat("z", l-l/2))
	}
	for i := 0; i < nd; i++ {
		out = append(out, c16In{Kind: "digest", ID: c16GenID(r, false), Secret: c16GenSecret(r)})
	}
	// connect cases
	conn := func(in c16In) {
		in.Kind = "connect"
		if in.Pre == "" {
			in.Pre = "ok"
		}
		if in.Hdr == "" {
			in.Hdr = "std"
		}
		out = append(out, in)
	}
	// every reply once with a plain id, every transport failure once
	for _, rp := range c16Replies {
		d := 0
		if strings.HasPrefix(rp.name, "other:deep-delegation-") {
			d = 3
		}
		conn(c16In{ID: []byte("4f2a&<1>"), Wire: "4f2a&amp;&lt;1&gt;", Secret: []byte("mypass"), Reply: rp.name, Depth: d})
	}
	// the same reply, shallow (control) and deep enough to exhaust a goroutine stack if the
	// decoder recurses per level (200 000 levels need more than the 1 GB limit)
	conn(c16In{ID: []byte("77"), Wire: "77", Secret: []byte("mypass"), Reply: "other:deep-delegation-message", Depth: 1000})
	conn(c16In{ID: []byte("77"), Wire: "77", Secret: []byte("mypass"), Reply: "other:deep-delegation-message", Depth: 300000})
	conn(c16In{ID: []byte("77"), Wire: "77", Secret: []byte("mypass"), Reply: "other:deep-delegation-iq", Depth: 300000})
	conn(c16In{ID: []byte("77"), Wire: "77", Secret: []byte("mypass"), Reply: "write-fail"})
	conn(c16In{ID: []byte{}, Secret: []byte("mypass"), Pre: "ws", Reply: "handshake"})
	conn(c16In{ID: []byte{}, Secret: []byte("mypass"), Pre: "refused", Reply: "handshake"})
	for _, v := range c16BadHeaders {
		conn(c16In{ID: []byte{}, Secret: []byte("mypass"), Pre: "badheader:" + v.name, Reply: "handshake"})
	}
	conn(c16In{ID: []byte{}, Hdr: "noid", Secret: []byte("mypass"), Reply: "handshake"})
	conn(c16In{ID: []byte{}, Wire: "", Secret: []byte{}, Reply: "handshake"})
	conn(c16In{ID: []byte("A&<\"'"), Wire: "&#x41;&amp;&lt;&quot;&apos;", Secret: []byte("s"), Reply: "handshake"})
	conn(c16In{ID: []byte("real"), Wire: "real", Hdr: "nsid", Secret: []byte("s"), Reply: "handshake"})
	// qualified look-alikes of the id attribute at every position relative to the unqualified
	// one (before, after, both sides; xml:id, x:id with its declaration before or after, several),
	// and look-alike-free headers with the id first / last / in the middle of many attributes
	for _, lay := range []string{
		"ns,st,from,xmlid,id", "ns,st,from,id,xmlid", "xmlid,ns,st,id,from", "ns,st,to,xmlid,idq",
		"ns,st,xdecl,xid,id", "ns,st,xid,id,xdecl", "ns,st,id,xdecl,xid", "ns,st,id,xid,xdecl", "xid,xdecl,ns,st,from,idq",
		"ns,st,xmlid,id,xid,xdecl", "ns,st,xdecl,xid,id,xmlid", "ydecl,yid,xmlid,ns,st,xid,xdecl,from,id", "ns,st,id,yid,xmlid,xid,xdecl,ydecl",
		"yid,ydecl,ns,st,id", "ns,st,id,ydecl,yid", "xmlid,idq,yid,ydecl,ns,st",
		"id,ns,st,from,to,ver,lang,a1,a2", "ns,st,from,to,ver,lang,a1,a2,id", "ns,st,from,to,id,ver,lang,a1,a2", "a2,a1,idq,ns,st", "st,ns,a1,idq",
		"ns,st,xmlid,from", "ns,st,from,xid,xdecl,yid,ydecl", "ns,st,from,to,ver,lang,a1,a2,a3,xdecl",
	} {
		in := c16In{Hdr: "lay:" + lay, Secret: []byte("mypass"), Reply: "handshake"}
		if strings.Contains(","+lay+",", ",id,") || strings.Contains(","+lay+",", ",idq,") {
			in.ID, in.Wire = []byte("s7r3am&<id>"), "s7r3am&amp;&lt;id&gt;"
		} else {
			in.ID = []byte{}
		}
		conn(in)
	}
	for i := 0; i < nc; i++ {
		in := c16In{Secret: c16GenSecret(r)}
		id := c16GenID(r, true)
		in.Hdr = []string{"std", "std", "lay", "dq", "idfirst", "noid", "nsid", "lay", "lay"}[r.Intn(9)]
		q := '\''
		if in.Hdr == "dq" {
			q = '"'
		}
		if in.Hdr == "noid" {
			id = []byte{}
		}
		if in.Hdr == "lay" {
			var has bool
			if in.Hdr, q, has = c16GenLayout(r); !has {
				id = []byte{}
			}
		}
		in.ID = id
		in.Wire = c16Escape(r, string(id), q)
		switch c := r.Intn(20); {
		case c < 7: // success path: the digest is what is being looked at
			in.Reply = c16Replies[r.Intn(6)].name
		case c < 18:
			rp := c16Replies[r.Intn(len(c16Replies))]
			in.Reply = rp.name
			if strings.HasPrefix(rp.name, "other:deep-delegation-") {
				in.Depth = 1 + r.Intn(40)
			}
			in.Close = rp.abs.L[0].Z != 0 && r.Intn(4) == 0
		case c < 19:
			in.Reply = "write-fail"
		default:
			in.Reply = "handshake"
			in.Pre = []string{"ws", "refused", "badheader:" + c16BadHeaders[r.Intn(len(c16BadHeaders))].name}[r.Intn(3)]
		}
		conn(in)
	}
	// ---- the SAME Component value hashing / connecting several times
	nds, nrc := 120, 70
	if tier == "thorough" {
		nds, nrc = 4000, 1000
	}
	demoIDs := []string{"1263952298440005243", "a&b<c>\"d'e", "поток-ストリーム-é", "3f9a1c0e-6a0b-4a57-9d0e-5b1d7f3c2a11"}
	seq := func(secret string, ids ...string) {
		in := c16In{Kind: "digest-seq", Secret: []byte(secret)}
		for _, id := range ids {
			in.Sessions = append(in.Sessions, c16Sess{ID: []byte(id)})
		}
		out = append(out, in)
	}
	seq("s3cr&t-é", demoIDs...)
	seq("mypass", "x", "x")
	seq("mypass", "", "")
	seq("", "a", "b", "")
	seq("k", strings.Repeat("i", 64), strings.Repeat("j", 55), "")
	for i := 0; i < nds; i++ {
		in := c16In{Kind: "digest-seq", Secret: c16GenSecret(r)}
		for n := 2 + r.Intn(3); n > 0; n-- {
			in.Sessions = append(in.Sessions, c16Sess{ID: c16GenID(r, false)})
		}
		out = append(out, in)
	}
	ends := []string{"drop", "server-close", "client-close"}
	okReplies := []string{"handshake", "handshake", "handshake-long", "handshake-ns", "handshake-text", "handshake-ws", "handshake-comment"}
	badReplies := []string{"stream-error:not-authorized", "stream-error:conflict", "other:message", "unknown-ns", "close",
		"malformed:handshake-start-then-close", "malformed:truncated", "text-only", "other:stream-close"}
	sess := func(id, hdr, reply, end string, resume bool) c16Sess {
		q := '\''
		if hdr == "dq" {
			q = '"'
		}
		if hdr == "noid" {
			id = ""
		}
		if hdr == "lay" {
			var has bool
			if hdr, q, has = c16GenLayout(r); !has {
				id = ""
			}
		}
		return c16Sess{ID: []byte(id), Hdr: hdr, Wire: c16Escape(r, id, q), Reply: reply, End: end, Resume: resume}
	}
	for _, e := range ends { // the seeded-change demonstration's history, once per way of ending a session
		in := c16In{Kind: "reconnect", Secret: []byte("s3cr&t-é")}
		for k, id := range demoIDs {
			in.Sessions = append(in.Sessions, sess(id, "dq", "handshake", e, k > 0))
		}
		out = append(out, in)
	}
	// a session that was established and then closed in an orderly way (the component's state is
	// still SessionEstablished: neither Disconnect nor the receive loop's handling of the
	// server's </stream:stream> changes it), followed by a connection on which the server hangs
	// up, or says something else, instead of answering the handshake: every such reply must
	// leave an error AND a non-established state
	for _, e := range []string{"server-close", "client-close"} {
		for _, lost := range []string{"close", "malformed:handshake-start-then-close", "malformed:truncated", "text-only", "other:stream-close", "stream-error:not-authorized", "unknown-ns"} {
			in := c16In{Kind: "reconnect", Secret: []byte("mypass")}
			in.Sessions = append(in.Sessions, sess("first", "std", "handshake", e, false), sess("second", "std", lost, "client-close", true),
				sess("third", "std", "handshake", "client-close", true))
			out = append(out, in)
		}
	}
	// the application's handler reconnects from inside the stream-error callback of an established
	// connection; the second connection is refused (a stanza behind the refusal must not be
	// routed), accepted (the library must leave it alone; a later stanza is routed), answered by
	// something else, or the server is down by then (an error, no crash)
	for _, second := range []string{"stream-error:not-authorized", "handshake", "other:message", "unknown-ns", "stream-error:conflict", "handshake-text", "DOWN"} {
		in := c16In{Kind: "handler-reconnect", Secret: []byte("mypass")}
		in.Sessions = append(in.Sessions, sess("first&1", "std", "handshake", "", false))
		if second == "DOWN" {
			in.Sessions = append(in.Sessions, c16Sess{Down: true, Resume: true})
		} else {
			in.Sessions = append(in.Sessions, sess("second<2>", "dq", second, "", true))
		}
		out = append(out, in)
	}
	nhr := 6
	if tier == "thorough" {
		nhr = 60
	}
	for i := 0; i < nhr; i++ {
		in := c16In{Kind: "handler-reconnect", Secret: c16GenSecret(r)}
		in.Sessions = append(in.Sessions, sess(string(c16GenID(r, true)), "lay", okReplies[r.Intn(len(okReplies))], "", false))
		switch r.Intn(5) {
		case 0:
			in.Sessions = append(in.Sessions, c16Sess{Down: true, Resume: true})
		case 1, 2:
			in.Sessions = append(in.Sessions, sess(string(c16GenID(r, true)), "lay", okReplies[r.Intn(len(okReplies))], "", true))
		default:
			in.Sessions = append(in.Sessions, sess(string(c16GenID(r, true)), "lay", badReplies[r.Intn(5)], "", true))
		}
		out = append(out, in)
	}
	// a component built without an error callback (NewComponent(opts, router, nil)) loses its
	// connection / is told a stream close and reconnects: no callback to call, no crash
	for _, e := range ends {
		in := c16In{Kind: "reconnect", Secret: []byte("mypass"), NoErrorHandler: true}
		in.Sessions = append(in.Sessions, sess("one", "std", "handshake", e, false), sess("two", "std", "handshake", "client-close", true))
		out = append(out, in)
	}
	{ // a refused handshake in the middle must not disturb the next one either
		in := c16In{Kind: "reconnect", Secret: []byte("mypass")}
		in.Sessions = append(in.Sessions, sess("one", "std", "handshake", "drop", false), sess("two", "std", "stream-error:not-authorized", "client-close", true),
			sess("", "std", "handshake", "server-close", true), sess("one", "std", "handshake", "client-close", false))
		out = append(out, in)
	}
	for i := 0; i < nrc; i++ {
		in := c16In{Kind: "reconnect", Secret: c16GenSecret(r)}
		n := 2 + r.Intn(3)
		failAt := -1
		if r.Intn(5) == 0 { // at most one refused handshake per case (each costs ConnectTimeout = 1 s)
			failAt = r.Intn(n)
		}
		for k := 0; k < n; k++ {
			reply := okReplies[r.Intn(len(okReplies))]
			if k == failAt {
				reply = badReplies[r.Intn(len(badReplies))]
			}
			hdr := []string{"std", "lay", "dq", "idfirst", "noid", "nsid", "lay"}[r.Intn(7)]
			in.Sessions = append(in.Sessions, sess(string(c16GenID(r, true)), hdr, reply, ends[r.Intn(3)], k > 0 && r.Intn(3) > 0))
		}
		out = append(out, in)
	}
	return out
}

func (c16) Decode(raw json.RawMessage) (interface{}, error) {
	var in c16In
	err := json.Unmarshal(raw, &in)
	return in, err
}

// ---------------------------------------------------------------- the scripted server

const (
	c16NSStream = "http://etherx.jabber.org/streams"
	c16Probe    = "<message from='a@b' to='comp.localhost'><body>probe</body></message>"
	// c16Wait only bounds a genuine hang: nothing in a sound run waits for it to expire, so it is
	// generous (a loaded or CPU-throttled machine can stall a goroutine for seconds)
	c16Wait = 30 * time.Second
)

type c16BadHeader struct{ name, wire string }

var c16BadHeaders = []c16BadHeader{
	{"close", ""},
	{"not-a-stream", "<?xml version='1.0'?><handshake xmlns='jabber:component:accept'/>"},
	{"wrong-stream-ns", "<?xml version='1.0'?><stream:stream xmlns='jabber:component:accept' xmlns:stream='urn:example:other' id='x1'>"},
	{"illegal-char-in-id", "<?xml version='1.0'?><stream:stream xmlns='jabber:component:accept' xmlns:stream='" + c16NSStream + "' id='a&#x1;b'>"},
	{"unterminated-id", "<?xml version='1.0'?><stream:stream xmlns='jabber:component:accept' xmlns:stream='" + c16NSStream + "' id='a<b'>"},
	{"cdata-end-in-id", "<?xml version='1.0'?><stream:stream xmlns='jabber:component:accept' xmlns:stream='" + c16NSStream + "' id='a]]>b'>"},
	{"stream-error-first", "<?xml version='1.0'?><stream:error xmlns:stream='" + c16NSStream + "'><host-unknown xmlns='" + nsStreams + "'/></stream:error>"},
}

// Header layouts ("lay:" + comma-separated tokens, in the order the attributes are written):
//
//	ns st from to ver lang   xmlns, xmlns:stream, from, to, version, xml:lang
//	id / idq                 the stream id, unqualified, in single / double quotes
//	xmlid                    xml:id='look-alike-xml'
//	xid yid                  x:id='look-alike-x', y:id='' (need xdecl / ydecl somewhere in the tag)
//	xdecl ydecl              xmlns:x='urn:example:x', xmlns:y='urn:example:y'
//	a1 a2 a3                 other attributes (x:lang needs xdecl; idx, ID: names that merely resemble id)
//
// Attribute order is not significant in XML: whatever the layout, the stream id is the value
// of the unqualified id attribute ("" when there is none).
var c16LayTokens = map[string]string{
	"ns": "xmlns='jabber:component:accept'", "st": "xmlns:stream='" + c16NSStream + "'", "from": "from='comp.localhost'",
	"to": "to='comp.localhost'", "ver": "version='1.0'", "lang": "xml:lang='en'",
	"xmlid": "xml:id='look-alike-xml'", "xid": "x:id='look-alike-x'", "yid": "y:id=''",
	"xdecl": "xmlns:x='urn:example:x'", "ydecl": "xmlns:y='urn:example:y'",
	"a1": "idx='7'", "a2": "ID='upper-case-is-another-name'", "a3": "x:lang='en'",
}

// the values of the qualified look-alikes, for the oracle's diagnosis
var c16LookAlikes = []string{"look-alike-xml", "look-alike-x", "not-the-stream-id"}

func c16LayHeader(spec, wire string) string {
	var b strings.Builder
	b.WriteString("<stream:stream")
	for _, t := range strings.Split(spec, ",") {
		switch t {
		case "id":
			b.WriteString(" id='" + wire + "'")
		case "idq":
			b.WriteString(" id=\"" + wire + "\"")
		default:
			if a, ok := c16LayTokens[t]; ok {
				b.WriteString(" " + a)
			}
		}
	}
	b.WriteString(">")
	return b.String()
}

func c16HdrClass(hdr string) string {
	if strings.HasPrefix(hdr, "lay:") {
		return "layout:" + c16LayClass(strings.TrimPrefix(hdr, "lay:"))
	}
	return hdr
}

// c16LayClass: where the qualified look-alikes stand relative to the unqualified id
func c16LayClass(spec string) string {
	toks := strings.Split(spec, ",")
	idAt, before, after := -1, false, false
	for i, t := range toks {
		if t == "id" || t == "idq" {
			idAt = i
		}
	}
	for i, t := range toks {
		if t == "xmlid" || t == "xid" || t == "yid" {
			if idAt < 0 || i < idAt {
				before = true
			} else {
				after = true
			}
		}
	}
	switch {
	case idAt < 0 && before:
		return "lookalike-only"
	case idAt < 0:
		return "no-id"
	case before && after:
		return "lookalike-both-sides"
	case before:
		return "lookalike-before-id"
	case after:
		return "lookalike-after-id"
	case idAt == 0:
		return "id-first-of-many"
	case idAt == len(toks)-1:
		return "id-last-of-many"
	}
	return "id-in-the-middle"
}

// c16GenLayout draws a layout; quote reports the delimiter of the id attribute, hasID whether there is one.
func c16GenLayout(r *rand.Rand) (spec string, quote rune, hasID bool) {
	toks := []string{"ns", "st"}
	for _, t := range []string{"from", "to", "ver", "lang", "a1", "a2"} {
		if r.Intn(2) == 0 {
			toks = append(toks, t)
		}
	}
	quote, hasID = '\'', r.Intn(12) != 0
	if hasID {
		if r.Intn(3) == 0 {
			toks, quote = append(toks, "idq"), '"'
		} else {
			toks = append(toks, "id")
		}
	}
	x, y := false, false
	for n := r.Intn(4); n > 0; n-- { // 0-3 qualified look-alikes, no attribute twice
		switch r.Intn(3) {
		case 0:
			toks = append(toks, "xmlid")
		case 1:
			if !x {
				toks, x = append(toks, "xid"), true
			}
		default:
			if !y {
				toks, y = append(toks, "yid"), true
			}
		}
	}
	if x && r.Intn(2) == 0 {
		toks = append(toks, "a3")
	}
	if x {
		toks = append(toks, "xdecl")
	}
	if y {
		toks = append(toks, "ydecl")
	}
	seen := map[string]bool{}
	var uniq []string
	for _, t := range toks {
		if !seen[t] {
			seen[t] = true
			uniq = append(uniq, t)
		}
	}
	r.Shuffle(len(uniq), func(i, j int) { uniq[i], uniq[j] = uniq[j], uniq[i] })
	return "lay:" + strings.Join(uniq, ","), quote, hasID
}

func c16Header(in c16In) (prolog, rest string) {
	prolog = "<?xml version='1.0'?>"
	if strings.HasPrefix(in.Hdr, "lay:") {
		return prolog, c16LayHeader(strings.TrimPrefix(in.Hdr, "lay:"), in.Wire)
	}
	common := "xmlns='jabber:component:accept' xmlns:stream='" + c16NSStream + "' from='comp.localhost'"
	switch in.Hdr {
	case "noid":
		rest = "<stream:stream " + common + ">"
	case "dq":
		rest = "<stream:stream " + common + " id=\"" + in.Wire + "\">"
	case "idfirst":
		rest = "<stream:stream id='" + in.Wire + "' " + common + " version='1.0' xml:lang='en'>"
	case "nsid": // an attribute named id in another namespace is not the stream id
		rest = "<stream:stream " + common + " id='" + in.Wire + "' xmlns:x='urn:example:x' x:id='not-the-stream-id'>"
	default:
		rest = "<stream:stream " + common + " id='" + in.Wire + "'>"
	}
	return
}

// what the server saw and did, reported back to Run
type c16Srv struct {
	accepted       bool
	gotOpen        bool
	text           string   // character data of the component's <handshake> element
	gotText        bool     // the component sent a complete first element
	peerSpokeEarly string   // lateProbe: what the component sent (or [EOF]) right after being accepted
	dismissed      []string // connections that did not open a component stream (why)
	notHandshake   string   // set when that element is not a childless jabber:component:accept handshake
	note           string   // "" or a timeout/error marker that must not occur in a sound run
	probeSent      bool
}

// The server reads the component's side of the stream as XML, not as bytes: elements are
// recognised by namespace-resolved name (encoding/xml tokenizer), whatever their spelling
// (quote style, where xmlns is declared, <a/> versus <a></a>).
const c16NSComponent = "jabber:component:accept"

// c16NextStart returns the next start element; white space is skipped, other character
// data outside an element is reported in stray.  ok is false on a read error / deadline /
// an end element (returned in endEl when it is the stream's end).
func c16NextStart(conn net.Conn, d *xml.Decoder, deadline time.Time) (se xml.StartElement, stray string, streamEnd bool, ok bool) {
	for {
		conn.SetReadDeadline(deadline)
		tok, err := d.Token()
		if err != nil {
			return se, stray, false, false
		}
		switch t := tok.(type) {
		case xml.StartElement:
			return t.Copy(), stray, false, true
		case xml.EndElement:
			return se, stray, t.Name.Space == c16NSStream && t.Name.Local == "stream", false
		case xml.CharData:
			if x := strings.TrimSpace(string(t)); x != "" {
				stray += x
			}
		}
	}
}

func c16Attr(se xml.StartElement, local string) string {
	for _, a := range se.Attr {
		if a.Name.Space == "" && a.Name.Local == local {
			return a.Value
		}
	}
	return ""
}

// c16ElementText reads up to the end of the element just opened: its direct character
// data, and whether it has element children.
func c16ElementText(conn net.Conn, d *xml.Decoder, deadline time.Time) (text string, kids bool, ok bool) {
	depth := 1
	var b strings.Builder
	for depth > 0 {
		conn.SetReadDeadline(deadline)
		tok, err := d.Token()
		if err != nil {
			return b.String(), kids, false
		}
		switch t := tok.(type) {
		case xml.StartElement:
			depth++
			kids = true
		case xml.EndElement:
			depth--
		case xml.CharData:
			if depth == 1 {
				b.Write(t)
			}
		}
	}
	return b.String(), kids, true
}

// c16AwaitStreamEnd consumes what the component sends until its </stream:stream>.
func c16AwaitStreamEnd(conn net.Conn, d *xml.Decoder, deadline time.Time) bool {
	for {
		se, _, streamEnd, ok := c16NextStart(conn, d, deadline)
		if streamEnd {
			return true
		}
		if !ok {
			return false
		}
		_ = se
		if _, _, ok := c16ElementText(conn, d, deadline); !ok {
			return false
		}
	}
}

// serve plays one case on one accepted connection.  atProlog/released implement the
// write-failure case (see Run).
// end (may be nil) lets Run decide how a session that stays open is ended.
func c16Serve(ln net.Listener, in c16In, atProlog <-chan struct{}, released chan<- struct{}, res *c16Srv, done chan<- struct{}, end <-chan string) {
	defer close(done)
	// Accept until a connection presents a component stream header.  Anything else (a
	// connection that hangs up at once, another check's client that found this port) is not
	// the component of this case: it is dismissed and counted, never judged.
	deadline := time.Now().Add(c16Wait)
	var conn net.Conn
	var dec *xml.Decoder
	for {
		if tl, ok := ln.(*net.TCPListener); ok {
			tl.SetDeadline(deadline)
		}
		cn, err := ln.Accept()
		if err != nil {
			return // no component ever connected (refused / dial failed / listener closed by Run)
		}
		res.accepted = true
		d := xml.NewDecoder(cn)
		open, _, _, ok := c16NextStart(cn, d, deadline)
		if ok && open.Name.Space == c16NSStream && open.Name.Local == "stream" && c16Attr(open, "xmlns") == c16NSComponent {
			conn, dec = cn, d
			break
		}
		why := "another element or namespace"
		if !ok {
			cn.SetReadDeadline(time.Now().Add(50 * time.Millisecond))
			if _, err := d.Token(); err != nil {
				why = err.Error()
			}
		}
		cn.Close()
		hist("connect:foreign-connection-dismissed")
		res.dismissed = append(res.dismissed, why)
	}
	defer conn.Close()
	res.gotOpen = true
	if strings.HasPrefix(in.Pre, "badheader:") {
		for _, v := range c16BadHeaders {
			if "badheader:"+v.name == in.Pre {
				if v.wire != "" {
					conn.Write([]byte(v.wire))
				}
			}
		}
		if in.Pre != "badheader:close" {
			c16AnswerClose(conn, dec)
		}
		return
	}
	prolog, rest := c16Header(in)
	if in.Reply == "write-fail" {
		// Header in two parts.  The prolog names an encoding, so the component's decoder calls
		// the configured CharsetReader: the harness parks the component there until the server
		// has sent the rest of the header and reset the connection.  The component then still
		// reads the complete header from its receive queue, but its next write fails.
		conn.Write([]byte(c16EncProlog))
		select {
		case <-atProlog:
		case <-time.After(c16Wait):
			res.note = "server: component never reached the prolog"
		}
		conn.Write([]byte(rest))
		if tc, ok := conn.(*net.TCPConn); ok {
			tc.SetLinger(0)
		}
		conn.Close()
		close(released)
		return
	}
	conn.Write([]byte(prolog + rest))
	// the component's first element must be <handshake> in jabber:component:accept (inherited
	// from its stream header or declared on the element); its character data is the digest
	first, stray, _, ok := c16NextStart(conn, dec, deadline)
	if !ok {
		res.note = "server: no handshake element from the component"
		return
	}
	text, kids, ok := c16ElementText(conn, dec, deadline)
	if !ok {
		res.note = "server: the component's first element <" + first.Name.Local + "> never ended"
		return
	}
	res.gotText = true
	switch {
	case first.Name.Space != c16NSComponent || first.Name.Local != "handshake":
		res.notHandshake = first.Name.Space + " " + first.Name.Local
	case kids:
		res.notHandshake = "handshake element with child elements"
	default:
		res.text = text
	}
	if stray != "" {
		res.note = "server: character data before the handshake element: " + stray
	}
	rp, _ := c16ReplyByName(in.Reply)
	out := rp.wire
	if in.lateProbe && rp.open && len(rp.abs.L) > 0 && rp.abs.L[0].Z == 0 {
		// reply now; then watch the connection for half a second: the component has no reason
		// to say anything or to hang up; only then send the probe
		conn.Write([]byte(out))
		conn.SetReadDeadline(time.Now().Add(500 * time.Millisecond))
		buf := make([]byte, 256)
		n, rerr := conn.Read(buf)
		if n > 0 || rerr == io.EOF {
			res.peerSpokeEarly = string(buf[:n])
			if rerr == io.EOF {
				res.peerSpokeEarly += "[EOF]"
			}
			return
		}
		conn.SetReadDeadline(time.Time{})
		conn.Write([]byte(c16Probe))
		res.probeSent = true
		c16AnswerClose(conn, dec)
		return
	}
	if strings.HasPrefix(in.Reply, "other:deep-delegation-") {
		out = c16DeepReply(strings.TrimPrefix(in.Reply, "other:deep-delegation-"), in.Depth)
		conn.SetWriteDeadline(time.Now().Add(c16Patience(in)))
	}
	if rp.open && !in.Close {
		out += c16Probe
		res.probeSent = true
	}
	if out != "" {
		conn.Write([]byte(out))
	}
	if !rp.open || in.Close {
		return // deferred Close
	}
	if end != nil {
		select {
		case cmd := <-end:
			switch cmd {
			case "drop": // hang up without a word
				return
			case "stream-error": // an established session is ended by the server with a stream error
				conn.Write([]byte("<stream:error><system-shutdown xmlns='" + nsStreams + "'/></stream:error>"))
				c16AnswerClose(conn, dec)
				return
			case "server-close": // close the stream from the server side, then wait for the peer
				conn.Write([]byte("</stream:stream>"))
				c16AwaitStreamEnd(conn, dec, time.Now().Add(c16Wait))
				return
			}
		case <-time.After(2 * c16Wait):
			res.note = "server: session never ended"
			return
		}
	}
	c16AnswerClose(conn, dec)
}

// c16AnswerClose waits for the component's </stream:stream> and answers it, so that
// XMPPTransport.Close returns as soon as a receive loop sees the answer.
func c16AnswerClose(conn net.Conn, dec *xml.Decoder) {
	if c16AwaitStreamEnd(conn, dec, time.Now().Add(c16Wait)) {
		conn.Write([]byte("</stream:stream>"))
	}
}

// ---------------------------------------------------------------- running a case

// c16TextObs: () nothing received | (text) a handshake element and its character data |
// (-1) some other element.  The model's output is projected the same way (RunC16.v).
func c16TextObs(srv *c16Srv) Sx {
	switch {
	case !srv.gotText:
		return L()
	case srv.notHandshake != "":
		return L(Z(-1))
	}
	return L(SBytes(srv.text))
}

func c16Timeout(what string) Sx { return L(SBytes("TIMEOUT"), SBytes(what)) }

func (c16) Run(inp interface{}) Sx {
	in := inp.(c16In)
	if in.Kind == "digest" {
		c, _ := xmpp.NewComponent(xmpp.ComponentOptions{Domain: "comp.localhost", Secret: string(in.Secret)}, nil, nil)
		return L(SBytes(xmpp.VerifComponentHandshake(c, string(in.ID))))
	}
	if in.Kind == "digest-seq" {
		c, _ := xmpp.NewComponent(xmpp.ComponentOptions{Domain: "comp.localhost", Secret: string(in.Secret)}, nil, nil)
		var ds []Sx
		for _, s := range in.Sessions {
			ds = append(ds, SBytes(xmpp.VerifComponentHandshake(c, string(s.ID))))
		}
		return LS(ds)
	}
	if in.Kind == "reconnect" {
		return c16RunReconnect(in)
	}
	if in.Kind == "handler-reconnect" {
		return c16RunHandlerReconnect(in)
	}
	ln, err := listenLoopback()
	if err != nil {
		return L(SBytes("listen-failed"), SBytes(err.Error()))
	}
	addr := ln.Addr().String()
	srv := &c16Srv{}
	srvDone := make(chan struct{})
	atProlog, released := make(chan struct{}), make(chan struct{})
	switch in.Pre {
	case "ws":
		addr = "ws://" + addr + "/xmpp"
		ln.Close()
		close(srvDone)
	case "refused":
		ln.Close()
		close(srvDone)
	default:
		go c16Serve(ln, in, atProlog, released, srv, srvDone, nil)
	}
	defer ln.Close()

	var mu sync.Mutex
	var events []Sx
	probe := make(chan struct{}, 8)
	router := xmpp.NewRouter()
	router.NewRoute().HandlerFunc(func(s xmpp.Sender, p stanza.Packet) {
		select {
		case probe <- struct{}{}:
		default:
		}
	})
	tcfg := xmpp.TransportConfiguration{Address: addr, Domain: "comp.localhost", ConnectTimeout: 1}
	if in.Reply == "write-fail" {
		var once sync.Once
		tcfg.CharsetReader = func(charset string, input io.Reader) (io.Reader, error) {
			once.Do(func() {
				close(atProlog)
				select {
				case <-released:
				case <-time.After(c16Wait):
				}
				time.Sleep(2 * time.Millisecond)
			})
			return input, nil
		}
	}
	c, _ := xmpp.NewComponent(xmpp.ComponentOptions{TransportConfiguration: tcfg, Domain: "comp.localhost", Secret: string(in.Secret),
		Name: "verif", Category: "gateway", Type: "service"}, router, func(error) {})
	c.SetHandler(func(e xmpp.Event) error {
		mu.Lock()
		events = append(events, L(Z(int64(xmpp.VerifEventState(e))), SBytes(e.StreamError)))
		mu.Unlock()
		return nil
	})

	// always clean up, every wait bounded
	cleanup := func() {
		d := make(chan struct{})
		go func() { c.Disconnect(); close(d) }()
		select {
		case <-d:
		case <-time.After(c16Wait):
		}
		ln.Close()
		select {
		case <-srvDone:
		case <-time.After(c16Wait):
		}
	}

	errCh := make(chan error, 1)
	go func() { errCh <- c.Connect() }()
	var cerr error
	select {
	case cerr = <-errCh:
	case <-time.After(2 * c16Patience(in)):
		ln.Close()
		go cleanup()
		return c16Timeout("Connect did not return")
	}
	if c16DialTimedOut(cerr) {
		cleanup()
		return L(SBytes("dial-timeout"), SBytes(in.Pre))
	}
	errCode := c16ErrCode(cerr)
	// the probe: wait long when Connect reported success, briefly otherwise (nothing is
	// running that could deliver it; the bytes are already in the component's socket)
	wait := 40 * time.Millisecond
	if cerr == nil {
		wait = c16Wait
	}
	handled := false
	select {
	case <-probe:
		handled = true
	case <-time.After(wait):
	}
	state := xmpp.VerifConnState(&c.EventManager)
	mu.Lock()
	evs := append([]Sx{}, events...)
	mu.Unlock()
	sendOK := c16TrySend(c)
	cleanup()
	if srv.note != "" {
		return L(SBytes("SERVER"), SBytes(srv.note))
	}
	return L(c16TextObs(srv), Z(errCode), Z(int64(state)), LS(evs), B(handled), B(sendOK))
}

// c16TrySend: does the component accept a stanza for sending now?  (After a failed Connect it
// must not: there is no authenticated stream to put it on.)
func c16TrySend(c *xmpp.Component) bool {
	done := make(chan bool, 1)
	go func() {
		done <- c.Send(stanza.Message{Attrs: stanza.Attrs{To: "user@example.org"}, Body: "sent after Connect returned"}) == nil
	}()
	select {
	case ok := <-done:
		return ok
	case <-time.After(c16Wait):
		return false
	}
}

// c16AwaitState waits (bounded) until the component's state is want; returns the state seen last.
func c16AwaitState(c *xmpp.Component, want uint8, bound time.Duration) uint8 {
	deadline := time.Now().Add(bound)
	for {
		st := xmpp.VerifConnState(&c.EventManager)
		if st == want || time.Now().After(deadline) {
			return st
		}
		time.Sleep(2 * time.Millisecond)
	}
}

// how long the end of an established session may take to be reported (an event that is
// missing altogether costs this much per session, so it is not c16Wait)
const c16EndWait = 10 * time.Second

// c16ErrCode: 0 nil, 1 ConnError non-permanent, 2 ConnError permanent, 3 other error
func c16ErrCode(err error) int64 {
	var ce xmpp.ConnError
	switch {
	case err == nil:
		return 0
	case errors.As(err, &ce):
		if ce.Permanent {
			return 2
		}
		return 1
	}
	return 3
}

// c16DialTimedOut: the only deadline in the component's connect path is the dial timeout
// (ConnectTimeout = 1 s here, kept short because XMPPTransport.Close waits that long).  A
// loopback dial to a live listener that takes longer is the sandbox (CPU starvation), not
// the library: the case is reported as an infrastructure failure and run again by main.go.
func c16DialTimedOut(err error) bool {
	var ne net.Error
	return err != nil && errors.As(err, &ne) && ne.Timeout()
}

// c16RunReconnect: ONE Component value, one listener, len(Sessions) connections in a row.
func c16RunReconnect(in c16In) Sx {
	ln, err := listenLoopback()
	if err != nil {
		return L(SBytes("listen-failed"), SBytes(err.Error()))
	}
	defer ln.Close()
	probe := make(chan struct{}, 8)
	gone := make(chan error, 8)
	router := xmpp.NewRouter()
	router.NewRoute().HandlerFunc(func(s xmpp.Sender, p stanza.Packet) {
		select {
		case probe <- struct{}{}:
		default:
		}
	})
	tcfg := xmpp.TransportConfiguration{Address: ln.Addr().String(), Domain: "comp.localhost", ConnectTimeout: 1}
	errCallback := func(e error) {
		select {
		case gone <- e:
		default:
		}
	}
	if in.NoErrorHandler {
		errCallback = nil // accepted by NewComponent; the receiver must cope with it
	}
	c, _ := xmpp.NewComponent(xmpp.ComponentOptions{TransportConfiguration: tcfg, Domain: "comp.localhost", Secret: string(in.Secret),
		Name: "verif", Category: "gateway", Type: "service"}, router, errCallback)
	disconnect := func() bool {
		d := make(chan struct{})
		go func() { c.Disconnect(); close(d) }()
		select {
		case <-d:
			return true
		case <-time.After(c16Wait):
			return false
		}
	}
	var out []Sx
	for k, s := range in.Sessions {
		for len(probe) > 0 {
			<-probe
		}
		for len(gone) > 0 {
			<-gone
		}
		hdr := s.Hdr
		if hdr == "" {
			hdr = "std"
		}
		sin := c16In{Kind: "connect", ID: s.ID, Secret: in.Secret, Pre: "ok", Hdr: hdr, Wire: s.Wire, Reply: s.Reply}
		srv := &c16Srv{}
		srvDone := make(chan struct{})
		end := make(chan string, 1)
		go c16Serve(ln, sin, nil, nil, srv, srvDone, end)
		errCh := make(chan error, 1)
		go func(resume bool) {
			if resume {
				errCh <- c.Resume()
			} else {
				errCh <- c.Connect()
			}
		}(s.Resume)
		var cerr error
		select {
		case cerr = <-errCh:
		case <-time.After(2 * c16Wait):
			end <- "drop"
			go disconnect()
			return c16Timeout(fmt.Sprintf("connection %d: Connect/Resume did not return", k+1))
		}
		if c16DialTimedOut(cerr) {
			disconnect()
			return L(SBytes("dial-timeout"), SBytes(fmt.Sprintf("connection %d", k+1)))
		}
		wait := 40 * time.Millisecond
		if cerr == nil {
			wait = c16Wait
		}
		handled := false
		select {
		case <-probe:
			handled = true
		case <-time.After(wait):
		}
		state := xmpp.VerifConnState(&c.EventManager)
		sendOK := c16TrySend(c)
		// end the session
		last := k == len(in.Sessions)-1
		var endState uint8
		switch {
		case cerr == nil && s.End == "drop":
			end <- "drop"
			if in.NoErrorHandler {
				// no callback to wait for: the state tells
				if st := c16AwaitState(c, 0, c16Wait); st != 0 {
					go disconnect()
					return c16Timeout(fmt.Sprintf("connection %d: the component never noticed that the server dropped the connection", k+1))
				}
			} else {
				select {
				case <-gone:
				case <-time.After(c16Wait):
					go disconnect()
					return c16Timeout(fmt.Sprintf("connection %d: the component never noticed that the server dropped the connection", k+1))
				}
			}
			endState = c16AwaitState(c, 0, c16EndWait)
			if last {
				go disconnect() // closes the local socket; nothing answers, returns after ConnectTimeout
			}
		case cerr == nil && s.End == "server-close":
			end <- "server-close"
			// the server has closed the stream: the component must report the disconnection on its own
			endState = c16AwaitState(c, 0, c16EndWait)
			if !disconnect() {
				return c16Timeout(fmt.Sprintf("connection %d: Disconnect after the server's stream close did not return", k+1))
			}
		default:
			end <- "client-close"
			if !disconnect() {
				return c16Timeout(fmt.Sprintf("connection %d: Disconnect did not return", k+1))
			}
			if cerr == nil {
				endState = c16AwaitState(c, 0, c16EndWait)
			} else {
				endState = xmpp.VerifConnState(&c.EventManager)
			}
		}
		select {
		case <-srvDone:
		case <-time.After(2 * c16Wait):
			return c16Timeout(fmt.Sprintf("connection %d: server side did not finish", k+1))
		}
		if srv.note != "" {
			return L(SBytes("SERVER"), SBytes(fmt.Sprintf("connection %d: %s", k+1, srv.note)))
		}
		out = append(out, L(c16TextObs(srv), Z(c16ErrCode(cerr)), Z(int64(state)), B(handled), B(sendOK), Z(int64(endState))))
	}
	return LS(out)
}

// c16RunHandlerReconnect: the first connection is established; the server then ends it with a
// stream error; the application's event handler reconnects from INSIDE the stream-error
// callback (Disconnect, then Resume - what a StreamManager does for a client).  Sessions[1]
// scripts that second connection (or the server being down).  Observed: both connections as in
// a reconnect case, and whether the library itself said anything on / closed the second
// connection after it had been accepted.
func c16RunHandlerReconnect(in c16In) Sx {
	if len(in.Sessions) != 2 {
		return L(SBytes("HARNESS"), SBytes("handler-reconnect needs two sessions"))
	}
	ln, err := listenLoopback()
	if err != nil {
		return L(SBytes("listen-failed"), SBytes(err.Error()))
	}
	defer ln.Close()
	probe := make(chan struct{}, 8)
	router := xmpp.NewRouter()
	router.NewRoute().HandlerFunc(func(s xmpp.Sender, p stanza.Packet) {
		if _, ok := p.(stanza.Message); !ok {
			return // the stream error itself is handed to the router too
		}
		select {
		case probe <- struct{}{}:
		default:
		}
	})
	tcfg := xmpp.TransportConfiguration{Address: ln.Addr().String(), Domain: "comp.localhost", ConnectTimeout: 1}
	c, _ := xmpp.NewComponent(xmpp.ComponentOptions{TransportConfiguration: tcfg, Domain: "comp.localhost", Secret: string(in.Secret),
		Name: "verif", Category: "gateway", Type: "service"}, router, func(error) {})
	resumed := make(chan error, 1)
	var once sync.Once
	c.SetHandler(func(e xmpp.Event) error {
		if xmpp.VerifEventState(e) == 3 && e.StreamError == "system-shutdown" {
			once.Do(func() {
				c.Disconnect()
				resumed <- c.Resume()
			})
		}
		return nil
	})
	disconnect := func() {
		d := make(chan struct{})
		go func() { c.Disconnect(); close(d) }()
		select {
		case <-d:
		case <-time.After(c16Wait):
		}
	}
	mk := func(s c16Sess) c16In {
		hdr := s.Hdr
		if hdr == "" {
			hdr = "std"
		}
		return c16In{Kind: "connect", ID: s.ID, Secret: in.Secret, Pre: "ok", Hdr: hdr, Wire: s.Wire, Reply: s.Reply}
	}
	// ---- first connection
	s1, s2 := in.Sessions[0], in.Sessions[1]
	srv1, done1, end1 := &c16Srv{}, make(chan struct{}), make(chan string, 1)
	go c16Serve(ln, mk(s1), nil, nil, srv1, done1, end1)
	errCh := make(chan error, 1)
	go func() { errCh <- c.Connect() }()
	var err1 error
	select {
	case err1 = <-errCh:
	case <-time.After(2 * c16Wait):
		end1 <- "drop"
		go disconnect()
		return c16Timeout("connection 1: Connect did not return")
	}
	if c16DialTimedOut(err1) {
		disconnect()
		return L(SBytes("dial-timeout"), SBytes("connection 1"))
	}
	handled1 := false
	if err1 == nil {
		select {
		case <-probe:
			handled1 = true
		case <-time.After(c16Wait):
		}
	}
	state1 := xmpp.VerifConnState(&c.EventManager)
	send1 := c16TrySend(c)
	first := L(c16TextObs(srv1), Z(c16ErrCode(err1)), Z(int64(state1)), B(handled1), B(send1))
	if err1 != nil {
		end1 <- "client-close"
		disconnect()
		return L(LS([]Sx{first}), B(false))
	}
	// ---- the server for the second connection, then the stream error on the first
	srv2, done2, end2 := &c16Srv{}, make(chan struct{}), make(chan string, 1)
	if s2.Down {
		ln.Close()
		close(done2)
	} else {
		in2 := mk(s2)
		in2.lateProbe = true
		go c16Serve(ln, in2, nil, nil, srv2, done2, end2)
	}
	end1 <- "stream-error"
	var err2 error
	select {
	case err2 = <-resumed:
	case <-time.After(3 * c16Wait):
		go disconnect()
		return c16Timeout("the event handler's Disconnect + Resume did not return")
	}
	if c16DialTimedOut(err2) && !s2.Down {
		disconnect()
		return L(SBytes("dial-timeout"), SBytes("connection 2"))
	}
	// a stanza behind a refusal would be routed by the receiver of the FIRST connection, which
	// on the unrepaired code first sits out a Close (ConnectTimeout = 1 s): wait well beyond it
	wait := 2500 * time.Millisecond
	if err2 == nil {
		wait = c16Wait
	}
	handled2 := false
	select {
	case <-probe:
		handled2 = true
	case <-time.After(wait):
	}
	state2 := xmpp.VerifConnState(&c.EventManager)
	send2 := c16TrySend(c)
	end2 <- "client-close"
	disconnect()
	ln.Close()
	for _, d := range []chan struct{}{done1, done2} {
		select {
		case <-d:
		case <-time.After(2 * c16Wait):
			return c16Timeout("server side did not finish")
		}
	}
	for i, sv := range []*c16Srv{srv1, srv2} {
		if sv.note != "" {
			return L(SBytes("SERVER"), SBytes(fmt.Sprintf("connection %d: %s", i+1, sv.note)))
		}
	}
	if srv2.peerSpokeEarly != "" && err2 == nil {
		// the library itself spoke on / closed the connection it had just reported established
		handled2 = false
	}
	second := L(c16TextObs(srv2), Z(c16ErrCode(err2)), Z(int64(state2)), B(handled2), B(send2))
	return L(LS([]Sx{first, second}), B(srv2.peerSpokeEarly != "" && err2 == nil))
}

// ---------------------------------------------------------------- model input

func c16Abstract(in c16In) (pre Sx, writeOK bool, reply Sx) {
	writeOK = true
	switch {
	case in.Pre == "ws":
		pre = L(Z(0))
	case in.Pre == "refused" || strings.HasPrefix(in.Pre, "badheader:"):
		pre = L(Z(1))
	default:
		pre = L(Z(2), SBytes(string(in.ID)))
	}
	if in.Reply == "write-fail" {
		return pre, false, L(Z(3))
	}
	rp, ok := c16ReplyByName(in.Reply)
	if !ok {
		return pre, true, L(Z(-1))
	}
	return pre, true, rp.abs
}

// c16HeaderBytes: exactly what the server writes as its stream header in this case (the
// model reads these bytes itself: Model/StreamHeader.v).
func c16HeaderBytes(in c16In) string {
	if strings.HasPrefix(in.Pre, "badheader:") {
		for _, v := range c16BadHeaders {
			if "badheader:"+v.name == in.Pre {
				return v.wire
			}
		}
		return ""
	}
	prolog, rest := c16Header(in)
	if in.Reply == "write-fail" {
		prolog = c16EncProlog
	}
	return prolog + rest
}

const c16EncProlog = "<?xml version='1.0' encoding='x-verif'?>"

// c16ReplyTokens: the reply as the token stream NextPacket reads it - encoding/xml's own
// tokens (name spaces resolved in the context of the stream header that was sent), up to
// the first syntax error or the end of what the server sends.  Which of these replies is a
// handshake, a stream error, another packet or an error is the MODEL's business
// (Model/Parser.v classify / next_packet through Model/ComponentWire.v).
// ending: 0 = the input ended between elements (io.EOF, or "unexpected EOF" with only the
// stream element open), 1 = it ended inside an element of the reply, 2 = a syntax error.
func c16ReplyTokens(header, wire string) (Sx, int) {
	d := xml.NewDecoder(strings.NewReader(header + wire))
	var toks []Sx
	first := true
	depth, ending := 0, 0
	for {
		tok, err := d.Token()
		if err != nil {
			var syn *xml.SyntaxError
			switch {
			case err == io.EOF || (errors.As(err, &syn) && syn.Msg == "unexpected EOF"):
				if depth > 0 {
					ending = 1
				}
			default:
				ending = 2
			}
			break
		}
		if first { // everything up to and including the stream header's start tag is not part of the reply
			if _, ok := tok.(xml.StartElement); ok {
				first = false
			}
			continue
		}
		switch t := tok.(type) {
		case xml.StartElement:
			depth++
			as := make([]Sx, len(t.Attr))
			for i, a := range t.Attr {
				as[i] = L(SBytes(a.Name.Space), SBytes(a.Name.Local), SBytes(a.Value))
			}
			toks = append(toks, L(Z(0), SBytes(t.Name.Space), SBytes(t.Name.Local), LS(as)))
		case xml.EndElement:
			depth--
			toks = append(toks, L(Z(1), SBytes(t.Name.Space), SBytes(t.Name.Local)))
		case xml.CharData:
			toks = append(toks, L(Z(2), SBytes(string(t))))
		default:
			toks = append(toks, L(Z(3)))
		}
	}
	return LS(toks), ending
}

// c16ModelReply: the reply as the model gets it: tokens wherever the reply is a document the
// tokenizer can be run on to the end; the abstract class for a failing write, for the replies
// generated from a depth parameter beyond what is worth shipping as tokens, and where the
// tokenizer itself stops: on a syntax error (3: unreadable answer) or inside an element when
// the server hangs up (5: connection lost).  An answer that simply does not come (the tokens
// run out between elements) is classified by the model.
func c16ModelReply(in c16In) Sx {
	if in.Reply == "write-fail" {
		return L(Z(3))
	}
	rp, ok := c16ReplyByName(in.Reply)
	if !ok {
		return L(Z(-1))
	}
	wire := rp.wire
	if strings.HasPrefix(in.Reply, "other:deep-delegation-") {
		if in.Depth > 40 {
			return rp.abs
		}
		wire = c16DeepReply(strings.TrimPrefix(in.Reply, "other:deep-delegation-"), in.Depth)
	}
	hdr := c16HeaderBytes(in)
	if strings.HasPrefix(in.Pre, "badheader:") || in.Pre == "ws" || in.Pre == "refused" {
		return rp.abs // never read
	}
	toks, ending := c16ReplyTokens(hdr, wire)
	switch ending {
	case 1: // the connection is lost inside the answer: the token stream does not show why it stops
		return L(Z(5))
	case 2: // not XML: there are no tokens to classify
		return L(Z(3))
	}
	return L(Z(4), toks)
}

func c16ModelPre(in c16In) Sx {
	switch {
	case in.Pre == "ws":
		return L(Z(0))
	case in.Pre == "refused":
		return L(Z(1))
	}
	return L(Z(3), SBytes(c16HeaderBytes(in)))
}

func (c16) Input(inp interface{}) Sx {
	in := inp.(c16In)
	if in.Kind == "digest" {
		return L(Z(0), SBytes(string(in.ID)), SBytes(string(in.Secret)))
	}
	if in.Kind == "digest-seq" {
		ids := make([]Sx, len(in.Sessions))
		for i, s := range in.Sessions {
			ids[i] = SBytes(string(s.ID))
		}
		return L(Z(2), LS(ids), SBytes(string(in.Secret)))
	}
	if in.Kind == "reconnect" || in.Kind == "handler-reconnect" {
		ss := make([]Sx, len(in.Sessions))
		for i, s := range in.Sessions {
			if s.Down {
				ss[i] = L(Z(1))
				continue
			}
			hdr := s.Hdr
			if hdr == "" {
				hdr = "std"
			}
			sin := c16In{Kind: "connect", ID: s.ID, Secret: in.Secret, Pre: "ok", Hdr: hdr, Wire: s.Wire, Reply: s.Reply}
			ss[i] = L(Z(3), SBytes(c16HeaderBytes(sin)), c16ModelReply(sin))
		}
		if in.Kind == "handler-reconnect" {
			return L(Z(5), LS(ss), SBytes(string(in.Secret)))
		}
		return L(Z(3), LS(ss), SBytes(string(in.Secret)))
	}
	return L(Z(1), c16ModelPre(in), SBytes(string(in.Secret)), B(in.Reply != "write-fail"), c16ModelReply(in))
}

// ---------------------------------------------------------------- direct oracle

func c16DigestOracle(got string, id, secret []byte) (string, string) {
	sum := sha1.Sum(append(append([]byte{}, id...), secret...))
	want := hex.EncodeToString(sum[:])
	if len(got) != 40 {
		return fmt.Sprintf("digest %q is not 40 characters", got), "digest-shape"
	}
	for _, ch := range []byte(got) {
		if !(ch >= '0' && ch <= '9' || ch >= 'a' && ch <= 'f') {
			return fmt.Sprintf("digest %q is not lower-case hexadecimal", got), "digest-shape"
		}
	}
	if got != want {
		sw := sha1.Sum(append(append([]byte{}, secret...), id...))
		if got == hex.EncodeToString(sw[:]) {
			return "digest is SHA-1(secret ++ id), not SHA-1(id ++ secret)", "digest-order"
		}
		return fmt.Sprintf("digest %s differs from hex(SHA-1(id ++ secret)) = %s for id %q", got, want, id), "digest-mismatch"
	}
	return "", ""
}

func (c16) Oracle(inp interface{}, obs Sx) (string, string) {
	in := inp.(c16In)
	if len(obs.L) >= 1 && obs.L[0].K == "s" {
		tag := string(bytesOf(obs.L[0]))
		if tag == "TIMEOUT" || tag == "SERVER" || tag == "HARNESS" {
			return tag + ": " + string(bytesOf(obs.L[1])), "timeout"
		}
	}
	if in.Kind == "digest" {
		if len(obs.L) != 1 {
			return "shape", "shape"
		}
		return c16DigestOracle(string(bytesOf(obs.L[0])), in.ID, in.Secret)
	}
	if in.Kind == "digest-seq" || in.Kind == "reconnect" {
		if len(obs.L) != len(in.Sessions) {
			return "shape", "shape"
		}
		for k, s := range in.Sessions {
			o := obs.L[k]
			var got string
			have := true
			if in.Kind == "digest-seq" {
				got = string(bytesOf(o))
			} else {
				if len(o.L) != 6 {
					return "shape", "shape"
				}
				if have = len(o.L[0].L) == 1; have {
					if o.L[0].L[0].K != "s" {
						return fmt.Sprintf("connection %d: the component's first element is not a handshake element in jabber:component:accept", k+1), "not-a-handshake-element"
					}
					got = string(bytesOf(o.L[0].L[0]))
				}
			}
			if !have {
				return fmt.Sprintf("connection %d: the server received no handshake element", k+1), "no-handshake-sent"
			}
			if msg, sig := c16DigestOracle(got, s.ID, in.Secret); msg != "" {
				if sig == "digest-mismatch" && k > 0 {
					// is it the digest of everything hashed so far?
					var all []byte
					for _, e := range in.Sessions[:k+1] {
						all = append(append(all, e.ID...), in.Secret...)
					}
					sum := sha1.Sum(all)
					if got == hex.EncodeToString(sum[:]) {
						return fmt.Sprintf("handshake %d of the same Component (stream id %q): digest %s is SHA-1 over the ids and secrets of ALL %d handshakes so far, not hex(SHA-1(id ++ secret)) of the current stream id", k+1, s.ID, got, k+1), "digest-depends-on-earlier-connections"
					}
					if in.Kind == "reconnect" {
						sin := c16In{ID: s.ID, Secret: in.Secret, Hdr: s.Hdr, Wire: s.Wire}
						if m2, s2 := c16HeaderDiagnosis(sin, got, msg, sig); s2 != sig {
							return fmt.Sprintf("connection %d of the same Component: %s", k+1, m2), s2
						}
					}
					return fmt.Sprintf("handshake %d of the same Component: %s", k+1, msg), "digest-mismatch-on-reconnect"
				}
				if in.Kind == "reconnect" {
					msg, sig = c16HeaderDiagnosis(c16In{ID: s.ID, Secret: in.Secret, Hdr: s.Hdr, Wire: s.Wire}, got, msg, sig)
				}
				return fmt.Sprintf("handshake %d of the same Component: %s", k+1, msg), sig
			}
			if in.Kind == "reconnect" {
				rp, _ := c16ReplyByName(s.Reply)
				expectOK := len(rp.abs.L) > 0 && rp.abs.L[0].Z == 0
				what := s.Reply + fmt.Sprintf(" (connection %d)", k+1)
				if msg, sig := c16OutcomeOracle(expectOK, o.L[1].Z, o.L[2].Z, o.L[3].Z == 1, what); msg != "" {
					return msg, sig
				}
				if msg, sig := c16SendOracle(expectOK, o.L[4].Z == 1, what); msg != "" {
					return msg, sig
				}
				if msg, sig := c16CutOracle(rp, false, o.L[1].Z, what); msg != "" {
					return msg, sig
				}
				if expectOK && o.L[5].Z == 2 {
					how := map[string]string{"drop": "the server dropped the connection", "server-close": "the server closed the stream (</stream:stream>)",
						"client-close": "the application called Disconnect and the server answered the close"}[s.End]
					sig := "established-after-" + map[string]string{"drop": "connection-loss", "server-close": "server-stream-close", "client-close": "disconnect"}[s.End]
					return fmt.Sprintf("connection %d: %s, and %v later the component still reports SessionEstablished", k+1, how, c16EndWait), sig
				}
			}
		}
		return "", ""
	}
	if in.Kind == "handler-reconnect" {
		if len(obs.L) != 2 || len(obs.L[0].L) == 0 {
			return "shape", "shape"
		}
		for k, o := range obs.L[0].L {
			s := in.Sessions[k]
			if len(o.L) != 5 {
				return "shape", "shape"
			}
			what := fmt.Sprintf("%s (connection %d, made by the event handler from inside the stream-error callback of connection 1)", s.Reply, k+1)
			if k == 0 {
				what = s.Reply + " (connection 1)"
			}
			rp, _ := c16ReplyByName(s.Reply)
			expectOK := !s.Down && len(rp.abs.L) > 0 && rp.abs.L[0].Z == 0
			if s.Down {
				what = "no answer: the server was down (connection 2, attempted by the event handler)"
				if o.L[1].Z == 2 {
					return "a refused TCP connection (server not up) is reported as a PERMANENT error by Resume", "refused-dial-reported-permanent"
				}
			} else {
				if len(o.L[0].L) != 1 || o.L[0].L[0].K != "s" {
					return fmt.Sprintf("connection %d: the server received no handshake element", k+1), "no-handshake-sent"
				}
				if msg, sig := c16DigestOracle(string(bytesOf(o.L[0].L[0])), s.ID, in.Secret); msg != "" {
					return fmt.Sprintf("connection %d: %s", k+1, msg), sig
				}
			}
			if k == 1 && expectOK && obs.L[1].Z == 1 {
				return "the second connection was accepted by the server and reported established; the library itself then wrote on it / closed it although nobody called Disconnect (the receiver of the FIRST connection acting on the component's new transport)", "established-connection-closed-by-library"
			}
			if k == 1 && !expectOK && o.L[3].Z == 1 {
				return "a stanza the server wrote behind the refusal of the second connection (" + what + ") was routed to the application's handler: the receiver of the first connection reads the new connection", "routed-after-refused-reconnect"
			}
			if msg, sig := c16OutcomeOracle(expectOK, o.L[1].Z, o.L[2].Z, o.L[3].Z == 1, what); msg != "" {
				return msg, sig
			}
			if msg, sig := c16SendOracle(expectOK, o.L[4].Z == 1, what); msg != "" {
				return msg, sig
			}
		}
		if len(obs.L[0].L) != len(in.Sessions) {
			return "the first connection was not established", "shape"
		}
		return "", ""
	}
	if len(obs.L) != 6 {
		return "shape", "shape"
	}
	_, writeOK, reply := c16Abstract(in)
	reaches := in.Pre == "ok" && writeOK
	expectOK := reaches && reply.L[0].Z == 0
	text, errCode, state, handled := obs.L[0], obs.L[1].Z, obs.L[2].Z, obs.L[4].Z == 1
	if reaches && len(text.L) != 1 {
		return "the server received no handshake element", "no-handshake-sent"
	}
	if len(text.L) == 1 && text.L[0].K != "s" {
		return "the component's first element is not a handshake element in jabber:component:accept", "not-a-handshake-element"
	}
	if len(text.L) == 1 {
		if msg, sig := c16DigestOracle(string(bytesOf(text.L[0])), in.ID, in.Secret); msg != "" {
			return c16HeaderDiagnosis(in, string(bytesOf(text.L[0])), msg, sig)
		}
	}
	if !expectOK {
		// "reported established": no Established event may reach the handler either, even if
		// the state has moved on by the time Connect returns
		for _, ev := range obs.L[3].L {
			if len(ev.L) == 2 && ev.L[0].Z == 2 {
				return "the event handler was told SessionEstablished although the reply was " + in.Reply + " (pre " + in.Pre + ")", "established-event-without-handshake"
			}
		}
	}
	what := in.Reply + " (pre " + in.Pre + ")"
	if msg, sig := c16OutcomeOracle(expectOK, errCode, state, handled, what); msg != "" {
		return msg, sig
	}
	if msg, sig := c16SendOracle(expectOK, obs.L[5].Z == 1, what); msg != "" {
		return msg, sig
	}
	if in.Pre == "refused" && errCode == 2 {
		return "a refused TCP connection (server not up) is reported as a PERMANENT error by Connect", "refused-dial-reported-permanent"
	}
	if reaches {
		rp, _ := c16ReplyByName(in.Reply)
		return c16CutOracle(rp, in.Close, errCode, what)
	}
	return "", ""
}

// after a failed Connect there is no authenticated stream: Send must not accept stanzas (and the
// connection of the failed attempt must not stay behind, open); after a successful one it must
func c16SendOracle(expectOK, sendOK bool, reply string) (string, string) {
	switch {
	case !expectOK && sendOK:
		return "Connect failed - the reply was " + reply + " - and Send afterwards returns nil: the connection of the refused attempt is still open and the stanza is written on it", "send-accepted-after-failed-connect"
	case expectOK && !sendOK:
		return "established, but Send returns an error: " + reply, "send-refused-on-established"
	}
	return "", ""
}

// the connection is lost while the answer is awaited or read (the server hangs up): an error,
// but not a permanent one
func c16CutOracle(rp c16Reply, closeAfter bool, errCode int64, reply string) (string, string) {
	cut := map[string]bool{"close": true, "text-only": true, "malformed:truncated": true, "malformed:handshake-start-then-close": true}[rp.name]
	if cut && errCode == 2 {
		return "the server hung up instead of answering the handshake (" + reply + ") and the error is flagged PERMANENT", "cut-connection-reported-permanent"
	}
	return "", ""
}

// c16HeaderDiagnosis names what was hashed instead of the stream id when the digest is wrong
// and the stream header carried qualified look-alikes of the id attribute.
func c16HeaderDiagnosis(in c16In, got, msg, sig string) (string, string) {
	if sig != "digest-mismatch" {
		return msg, sig
	}
	_, hdr := c16Header(in)
	is := func(v string) bool {
		sum := sha1.Sum(append([]byte(v), in.Secret...))
		return got == hex.EncodeToString(sum[:])
	}
	for _, v := range c16LookAlikes {
		if strings.Contains(hdr, "'"+v+"'") && is(v) {
			return "the digest is SHA-1(" + strconv.Quote(v) + " ++ secret): the value of a namespace-qualified id attribute was taken for the stream id; stream header " + hdr, "digest-uses-foreign-id-attribute"
		}
	}
	if len(in.ID) > 0 && is("") {
		return "the digest is SHA-1(\"\" ++ secret): the unqualified id attribute of the stream header was not read; stream header " + hdr, "stream-id-not-read"
	}
	return msg + "; stream header " + hdr, sig
}

// the second sentence of the property, on one connection's observation
func c16OutcomeOracle(expectOK bool, errCode, state int64, handled bool, reply string) (string, string) {
	switch {
	case expectOK && errCode != 0:
		return "server answered with a handshake element but Connect returned an error: " + reply, "error-despite-handshake"
	case !expectOK && errCode == 0:
		return "Connect returned nil although the reply was " + reply, "nil-without-handshake"
	case expectOK && state != 2:
		return fmt.Sprintf("handshake accepted but state is %d: %s", state, reply), "not-established-despite-handshake"
	case !expectOK && state == 2:
		return "state is SessionEstablished although the reply was " + reply, "established-without-handshake"
	case !expectOK && handled:
		return "a stanza was routed to a handler although the reply was " + reply, "routed-without-handshake"
	case expectOK && !handled:
		return "established, but the probe stanza never reached a handler: " + reply, "probe-not-routed"
	}
	return "", ""
}

func c16IDClass(id []byte) string {
	switch {
	case len(id) == 0:
		return "empty"
	case len(id) >= 1000:
		return "1k"
	case bytes.ContainsAny(id, "&<>'\""):
		if bytes.IndexFunc(id, func(r rune) bool { return r > 127 }) >= 0 {
			return "special+nonascii"
		}
		return "special"
	case bytes.IndexFunc(id, func(r rune) bool { return r > 127 }) >= 0:
		return "nonascii"
	case bytes.ContainsAny(id, "\t\n\r\x00"):
		return "control"
	default:
		return "plain"
	}
}

func (c16) Key(inp interface{}) (string, bool) {
	in := inp.(c16In)
	total := len(in.ID) + len(in.Secret)
	cls := c16IDClass(in.ID)
	if in.Kind == "digest" {
		hist("digest:id-" + cls)
		hist(fmt.Sprintf("digest:blocks-%d", (total+9+63)/64))
		return fmt.Sprintf("d/%d/%d/%s/%d", total%64, (total+9+63)/64, cls, len(in.Secret)%4), total > 0
	}
	if in.Kind == "handler-reconnect" {
		second := "DOWN"
		if len(in.Sessions) == 2 && !in.Sessions[1].Down {
			second = in.Sessions[1].Reply
		}
		hist("handler-reconnect:second-" + second)
		return fmt.Sprintf("hr/%s/%s/%d", in.Sessions[0].Hdr, second, (len(in.Sessions[0].ID)+len(in.Secret))%64), true
	}
	if in.Kind == "digest-seq" || in.Kind == "reconnect" {
		var b strings.Builder
		fmt.Fprintf(&b, "%s/%d/%d/%v", in.Kind, len(in.Sessions), len(in.Secret)%8, in.NoErrorHandler)
		if in.NoErrorHandler {
			hist("reconnect:no-error-callback")
		}
		hist(fmt.Sprintf("%s:handshakes-%d", in.Kind, len(in.Sessions)))
		for _, s := range in.Sessions {
			c := c16IDClass(s.ID)
			hist(in.Kind + ":id-" + c)
			fmt.Fprintf(&b, "/%s,%d", c, (len(s.ID)+len(in.Secret))%64)
			if in.Kind == "reconnect" {
				rk := s.Reply
				if !strings.HasPrefix(rk, "handshake") {
					hist("reconnect:session-fails-" + rk)
				}
				hist("reconnect:end-" + s.End)
				hist("reconnect:hdr-" + c16HdrClass(s.Hdr))
				if s.Resume {
					hist("reconnect:via-Resume")
				} else {
					hist("reconnect:via-Connect")
				}
				if s.Wire != string(s.ID) {
					hist("reconnect:id-escaped-on-wire")
				}
				fmt.Fprintf(&b, ",%s,%s,%s,%v", s.Hdr, rk, s.End, s.Resume)
			}
		}
		return b.String(), len(in.Sessions) >= 2
	}
	hist("connect:pre-" + strings.SplitN(in.Pre, ":", 2)[0])
	hist("connect:hdr-" + c16HdrClass(in.Hdr))
	hist("connect:id-" + cls)
	rk := in.Reply
	if i := strings.Index(rk, ":"); i >= 0 && strings.HasPrefix(rk, "stream-error") {
		rk = "stream-error"
	}
	hist("connect:reply-" + rk)
	if in.Close {
		hist("connect:close-after-reply")
	}
	escaped := in.Wire != string(in.ID)
	if escaped {
		hist("connect:id-escaped-on-wire")
	}
	if in.Depth > 0 {
		hist(fmt.Sprintf("connect:reply-depth-1e%d", len(fmt.Sprint(in.Depth))-1))
	}
	return fmt.Sprintf("c/%s/%s/%s/%s/%v/%v/%d/%d", in.Pre, in.Hdr, cls, in.Reply, in.Close, escaped, total%64, in.Depth), in.Pre == "ok"
}
