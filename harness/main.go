// xvrun: runs the implementation (built from /repo's working tree, tag verif) on
// generated or replayed cases, evaluates the direct oracle of each property and
// writes (a) Coq case files for the model-side comparison, (b) impl.json.
package main

import (
	"encoding/json"
	"flag"
	"fmt"
	"math/rand"
	"os"
	"path/filepath"
	"runtime/debug"
	"sort"
	"strings"
	"sync"
	"time"
)

type Failure struct {
	Case      int             `json:"case"`
	Msg       string          `json:"msg"`
	Signature string          `json:"signature"` // stable id of the failing shape, for known_findings
	Input     json.RawMessage `json:"input"`
	Obs       string          `json:"obs,omitempty"`
}

// Property is what each Cxx file implements.
type Property interface {
	ID() string
	// RunFn: name of the model's run function (sx -> sx) in Corr/RunAll.v's dispatch.
	RunFn() string
	Gen(r *rand.Rand, tier string) []interface{}
	Decode(raw json.RawMessage) (interface{}, error)
	Run(in interface{}) Sx                           // observation of the implementation
	Input(in interface{}) Sx                         // the same input as the model's run function decodes it
	Oracle(in interface{}, obs Sx) (msg, sig string) // "" = property predicate holds on obs
	Key(in interface{}) (key string, nontrivial bool)
	Rule() string
	Workers() int
}

var registry = map[string]Property{}

func register(p Property) { registry[p.ID()] = p }

type caseRec struct {
	Idx   int             `json:"idx"`
	Input json.RawMessage `json:"input"`
	Obs   string          `json:"obs"`
}

func safeRun1(p Property, in interface{}) (obs Sx) {
	defer func() {
		if r := recover(); r != nil {
			obs = L(SBytes("PANIC"), SBytes(fmt.Sprint(r)), SBytes(firstLines(string(debug.Stack()), 12)))
		}
	}()
	return p.Run(in)
}

// infraFailure: the scenario could not be set up for a reason that lies in the sandbox, not in the library (a TCP
// port could not be opened, or not re-opened because another process had taken the ephemeral port meanwhile).
func infraFailure(o Sx) bool {
	if o.K != "l" || len(o.L) == 0 || o.L[0].K != "s" {
		return false
	}
	switch string(bytesOf(o.L[0])) {
	case "listen-failed", "relisten-failed":
		return true
	case "tls-refusal-not-realised": // C13: the scripted TLS refusal did not take place as scripted (load): play it again
		return true
	case "dial-timeout": // C16: a loopback dial to a live listener exceeded the 1 s ConnectTimeout (machine starved)
		return true
	}
	return false
}

// safeRun: a case whose set-up failed for an infrastructure reason is run again (a few times, with a pause).
func safeRun(p Property, in interface{}) (obs Sx) {
	for try := 0; ; try++ {
		obs = safeRun1(p, in)
		if !infraFailure(obs) || try >= 4 {
			return obs
		}
		hist("infrastructure-retry")
		time.Sleep(time.Duration(200*(try+1)) * time.Millisecond)
	}
}

func firstLines(s string, n int) string {
	parts := strings.SplitN(s, "\n", n+1)
	if len(parts) > n {
		parts = parts[:n]
	}
	return strings.Join(parts, "\n")
}

func isPanic(o Sx) bool {
	return o.K == "l" && len(o.L) == 3 && o.L[0].K == "s" && string(bytesOf(o.L[0])) == "PANIC"
}
func bytesOf(x Sx) []byte {
	b := make([]byte, len(x.S))
	for i, v := range x.S {
		b[i] = byte(v)
	}
	return b
}

func main() {
	prop := flag.String("prop", "", "property id")
	seed := flag.Int64("seed", 1, "PRNG seed")
	tier := flag.String("tier", "quick", "quick|thorough")
	out := flag.String("out", "", "output directory")
	replay := flag.String("replay", "", "replay file (JSON with .input or .inputs)")
	corpus := flag.String("corpus", "", "directory of corpus replay files run first")
	gen := flag.String("gen", "", "write Generated.v to this path and exit")
	flag.Parse()
	if *gen != "" {
		if err := generate(*gen); err != nil {
			fmt.Fprintln(os.Stderr, err)
			os.Exit(1)
		}
		return
	}
	p, ok := registry[*prop]
	if !ok {
		fmt.Fprintln(os.Stderr, "unknown property", *prop)
		os.Exit(2)
	}
	if err := os.MkdirAll(*out, 0o755); err != nil {
		panic(err)
	}
	start := time.Now()
	var inputs []interface{}
	loadFile := func(path string) {
		raw, err := os.ReadFile(path)
		if err != nil {
			fmt.Fprintln(os.Stderr, err)
			os.Exit(2)
		}
		var rf struct {
			Input  json.RawMessage   `json:"input"`
			Inputs []json.RawMessage `json:"inputs"`
		}
		if err := json.Unmarshal(raw, &rf); err != nil {
			fmt.Fprintln(os.Stderr, path, err)
			os.Exit(2)
		}
		if len(rf.Input) > 0 && string(rf.Input) != "null" {
			rf.Inputs = append(rf.Inputs, rf.Input)
		}
		for _, ri := range rf.Inputs {
			in, err := p.Decode(ri)
			if err != nil {
				fmt.Fprintln(os.Stderr, path, err)
				os.Exit(2)
			}
			inputs = append(inputs, in)
		}
	}
	ncorpus := 0
	if *replay != "" {
		loadFile(*replay)
	} else {
		if *corpus != "" {
			files, _ := filepath.Glob(filepath.Join(*corpus, "*.json"))
			sort.Strings(files)
			for _, f := range files {
				loadFile(f)
			}
			ncorpus = len(inputs)
		}
		r := rand.New(rand.NewSource(*seed))
		inputs = append(inputs, p.Gen(r, *tier)...)
	}

	obs := make([]Sx, len(inputs))
	w := p.Workers()
	if w < 1 {
		w = 1
	}
	var wg sync.WaitGroup
	ch := make(chan int)
	journal := false
	if j, ok := p.(interface{ Journal() bool }); ok {
		journal = j.Journal()
	}
	for k := 0; k < w; k++ {
		wg.Add(1)
		k := k
		go func() {
			defer wg.Done()
			for i := range ch {
				if journal {
					raw, _ := json.Marshal(map[string]interface{}{"input": inputs[i], "idx": i})
					os.WriteFile(filepath.Join(*out, fmt.Sprintf("inflight_%d.json", k)), raw, 0o644)
				}
				t0 := time.Now()
				obs[i] = safeRun(p, inputs[i])
				if d := time.Since(t0); d > 2*time.Second && os.Getenv("XV_SLOW") != "" {
					raw, _ := json.Marshal(inputs[i])
					if len(raw) > 300 {
						raw = raw[:300]
					}
					fmt.Fprintf(os.Stderr, "SLOW case %d: %v %s\n", i, d, raw)
				}
			}
			if journal {
				os.Remove(filepath.Join(*out, fmt.Sprintf("inflight_%d.json", k)))
			}
		}()
	}
	for i := range inputs {
		ch <- i
	}
	close(ch)
	wg.Wait()

	// case log, oracle, stats
	cf, _ := os.Create(filepath.Join(*out, "cases.jsonl"))
	enc := json.NewEncoder(cf)
	failures := []Failure{}
	keys := map[string]bool{}
	nontrivial := map[string]bool{}
	samples := []caseRec{}
	for i, in := range inputs {
		raw, _ := json.Marshal(in)
		rec := caseRec{Idx: i, Input: raw, Obs: obs[i].String()}
		enc.Encode(rec)
		k, nt := p.Key(in)
		keys[k] = true
		if nt {
			nontrivial[k] = true
		}
		if len(samples) < 3 && nt && len(raw) < 1500 {
			samples = append(samples, rec)
		}
		var msg, sig string
		if isPanic(obs[i]) {
			msg, sig = "panic: "+string(bytesOf(obs[i].L[1])), "panic"
		} else {
			msg, sig = p.Oracle(in, obs[i])
		}
		if msg != "" {
			failures = append(failures, Failure{Case: i, Msg: msg, Signature: sig, Input: raw, Obs: obs[i].String()})
		}
	}
	cf.Close()

	// model-side case file (extracted runner) + small in-Coq cross-check file
	ins := make([]Sx, len(inputs))
	var sb strings.Builder
	for i := range inputs {
		if io, ok := p.(interface {
			InputObs(in interface{}, obs Sx) Sx
		}); ok {
			ins[i] = io.InputObs(inputs[i], obs[i])
		} else {
			ins[i] = p.Input(inputs[i])
		}
		ins[i].Line(&sb)
		sb.WriteByte('\t')
		obs[i].Line(&sb)
		sb.WriteByte('\n')
	}
	os.WriteFile(filepath.Join(*out, "cases.sx"), []byte(sb.String()), 0o644)
	order := make([]int, len(inputs))
	for i := range order {
		order[i] = i
	}
	sizes := make([]int, len(inputs))
	for i := range inputs {
		sizes[i] = ins[i].Size() + obs[i].Size()
	}
	sort.SliceStable(order, func(a, b int) bool { return sizes[order[a]] < sizes[order[b]] })
	var cb strings.Builder
	cb.WriteString("From Coq Require Import List ZArith NArith Bool.\nImport ListNotations.\nOpen Scope Z_scope.\nFrom XV Require Import Lib.Sx Corr.RunAll.\n")
	cb.WriteString("Definition cases : list (sx * sx) := [\n")
	budget, ncross := 25000, 0
	crossIdx := []int{}
	// skip the very smallest third (mostly empty cases), then take up to 40 within budget
	startAt := 0
	if len(order) > 30 {
		startAt = len(order) / 3
	}
	for _, i := range order[startAt:] {
		if ncross >= 40 || budget-sizes[i] < 0 {
			break
		}
		if ncross > 0 {
			cb.WriteString(";\n")
		}
		fmt.Fprintf(&cb, " (%s,\n  %s)", ins[i].Coq(), obs[i].Coq())
		budget -= sizes[i]
		ncross++
		crossIdx = append(crossIdx, i)
	}
	cb.WriteString("\n].\n")
	fmt.Fprintf(&cb, "Definition bad := Eval vm_compute in mismatches (dispatch %s) cases.\nPrint bad.\n", strings.TrimPrefix(p.ID(), "C"))
	os.WriteFile(filepath.Join(*out, "cross.v"), []byte(cb.String()), 0o644)

	res := map[string]interface{}{
		"property":            p.ID(),
		"seed":                *seed,
		"tier":                *tier,
		"evaluations":         len(inputs),
		"corpus_cases":        ncorpus,
		"distinct":            len(keys),
		"distinct_nontrivial": len(nontrivial),
		"rule":                p.Rule(),
		"samples":             samples,
		"failures":            failures,
		"cross_cases":         crossIdx,
		"histogram":           histogram,
		"wall_s":              time.Since(start).Seconds(),
	}
	rb, _ := json.MarshalIndent(res, "", " ")
	os.WriteFile(filepath.Join(*out, "impl.json"), rb, 0o644)
	fmt.Printf("xvrun %s: %d cases, %d oracle failures, %d cross-check cases\n", p.ID(), len(inputs), len(failures), ncross)
}

// histogram: input-distribution counters any property may bump (evidence).
var (
	histogram = map[string]int{}
	histMu    sync.Mutex
)

func hist(k string) {
	histMu.Lock()
	histogram[k]++
	histMu.Unlock()
}
